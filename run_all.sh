#!/bin/sh
# convenience: run every check of a tier sequentially and summarise
tier=${1:-quick}
cd "$(dirname "$0")"
for i in 01 02 03 04 05 06 07 08 09 10 11 12 13 14 15 16 17 18 19 20; do
  s=$(date +%s)
  out=$(./check C$i $tier 2>&1 | tail -4)
  rc=$?
  e=$(date +%s)
  echo "C$i rc=$rc $((e-s))s :: $(echo "$out" | tail -1)"
  echo "$out" | grep -E "VIOLATION|INCONCLUSIVE|KNOWN" | head -5
done

#!/usr/bin/env python3
"""Generate ref/abi_reference.{json,txt}: NAME -> value for the ELF ABI constants, from
glibc <elf.h> (cpp-evaluated, compiled and printed) and LLVM 14 BinaryFormat/ELF.h +
ELFRelocs/*.def (compiled and printed), keeping only names on which the references agree,
plus the hand-checked supplement in ref/supplement.txt.

Run at design time (needs clang/clang++ 14 and the headers on this image); the output is
committed. The crate's own values are NOT consulted: only the list of names to look up is
taken from /repo/src/abi.rs."""
import json, os, re, subprocess, sys, tempfile

HERE = os.path.dirname(os.path.abspath(__file__))
names = []
for line in open('/repo/src/abi.rs'):
    m = re.match(r'\s*pub const ([A-Za-z_][A-Za-z0-9_]*)\s*:\s*(u8|u16|u32|u64|i32|i64|usize)\s*=', line)
    if m:
        names.append((m.group(1), m.group(2)))
print(len(names), "integer constants exported by the crate")

tmp = tempfile.mkdtemp(prefix="abiref")
# ---- glibc ----
c = ['#include <elf.h>', '#include <stdio.h>', 'int main(void){']
for n, _ in names:
    c.append(f'#ifdef {n}\n printf("{n} %llu\\n", (unsigned long long)({n}));\n#endif')
c.append('return 0;}')
open(f'{tmp}/g.c', 'w').write('\n'.join(c))
subprocess.check_call(['clang', '-w', '-o', f'{tmp}/g', f'{tmp}/g.c'])
glibc = {}
for line in subprocess.check_output([f'{tmp}/g'], text=True).splitlines():
    n, v = line.split()
    glibc[n] = int(v)
print(len(glibc), "defined by glibc <elf.h>")

# ---- LLVM ----
def llvm_try(cands):
    src = ['#include <llvm/BinaryFormat/ELF.h>', '#include <cstdio>', 'int main(){']
    for n in cands:
        src.append(f' printf("{n} %llu\\n", (unsigned long long)(llvm::ELF::{n}));')
    src.append('return 0;}')
    open(f'{tmp}/l.cpp', 'w').write('\n'.join(src))
    r = subprocess.run(['clang++', '-w', '-ferror-limit=0', '-I/usr/include/llvm-14', '-I/usr/include/llvm-c-14', '-o', f'{tmp}/l', f'{tmp}/l.cpp'], capture_output=True, text=True)
    return r
cands = [n for n, _ in names]
r = llvm_try(cands)
if r.returncode != 0:
    missing = set(re.findall(r"no member named '([A-Za-z0-9_]+)' in namespace 'llvm::ELF'", r.stderr))
    cands = [n for n in cands if n not in missing]
    r = llvm_try(cands)
    if r.returncode != 0:
        print(r.stderr[-3000:])
        sys.exit(1)
llvm = {}
for line in subprocess.check_output([f'{tmp}/l'], text=True).splitlines():
    n, v = line.split()
    llvm[n] = int(v)
print(len(llvm), "defined by LLVM BinaryFormat/ELF.h")

width = {'u8': 8, 'u16': 16, 'u32': 32, 'u64': 64, 'i32': 32, 'i64': 64, 'usize': 64}
ref, disagree, src = {}, {}, {}
for n, t in names:
    mask = (1 << width[t]) - 1
    g = glibc.get(n)
    l = llvm.get(n)
    if g is not None:
        g &= mask
    if l is not None:
        l &= mask
    if g is not None and l is not None:
        if g == l:
            ref[n] = g; src[n] = "glibc+llvm"
        else:
            disagree[n] = (g, l)
    elif g is not None:
        ref[n] = g; src[n] = "glibc"
    elif l is not None:
        ref[n] = l; src[n] = "llvm"

# ---- supplement (hand-checked; NAME VALUE # source) ----
sup = os.path.join(HERE, 'supplement.txt')
nsup = 0
if os.path.exists(sup):
    for line in open(sup):
        line = line.split('#')[0].strip()
        if not line:
            continue
        n, v = line.split()
        if n in disagree or n in ref:
            continue
        ref[n] = int(v, 0); src[n] = "supplement"; nsup += 1
print(len(ref), "reference values;", len(disagree), "names on which the references disagree (excluded):", disagree, "; supplement:", nsup)
unc = [n for n, _ in names if n not in ref and n not in disagree]
print(len(unc), "uncovered:", ' '.join(unc))
json.dump({"values": ref, "source": src, "disagree": {k: list(v) for k, v in disagree.items()}, "uncovered": unc}, open(os.path.join(HERE, 'abi_reference.json'), 'w'), indent=0, sort_keys=True)
with open(os.path.join(HERE, 'abi_reference.txt'), 'w') as f:
    for n in sorted(ref):
        f.write(f"{n} {ref[n]} {src[n]}\n")
# names on which the two headers disagree: both candidate values (glibc, LLVM); the monitor accepts either, and
# requires names whose candidates are each other's permutation to follow one header as a group
with open(os.path.join(HERE, 'abi_reference_disagree.txt'), 'w') as f:
    for n in sorted(disagree):
        f.write(f"{n} {disagree[n][0]} {disagree[n][1]}\n")

#!/usr/bin/env python3
"""Generate ref/abi_reference_all.txt: EVERY integer constant that glibc <elf.h> or LLVM 14
BinaryFormat/ELF.h (+ ELFRelocs/*.def) defines, whether or not the crate exports it.
Used by C19 as a source of probe values for the to_str functions (by name-prefix family):
a helper that names a value for which no constant is exported is only found by probing
that very value. Run at design time; output committed."""
import os, re, subprocess, tempfile
HERE = os.path.dirname(os.path.abspath(__file__))
tmp = tempfile.mkdtemp(prefix="abiall")
PFX = re.compile(r'^(ET|EM|EV|EI|ELF[A-Z]*|SH[TFN]|P[TFN]|ST[TBVN]|DT|DF|NT|VER|GRP|R|EF|AT|SYMINFO|LL|RHF|ODK|OEX|OPAD|OHW|STO|E_)_[A-Za-z0-9_]+$')

def compile_loop(src_of, names, compiler, flags, ext):
    names = list(names)
    for _ in range(12):
        path = f"{tmp}/p{ext}"
        open(path, "w").write(src_of(names))
        r = subprocess.run([compiler, "-w", "-ferror-limit=0"] + flags + ["-o", f"{tmp}/p", path], capture_output=True, text=True)
        if r.returncode == 0:
            out = subprocess.check_output([f"{tmp}/p"], text=True)
            return dict((l.split()[0], int(l.split()[1])) for l in out.splitlines())
        bad = set(int(m) for m in re.findall(r"p\.c(?:pp)?:(\d+):\d+: error", r.stderr))
        # line k (1-based) = header lines + index
        names = [n for i, n in enumerate(names) if (i + HDR + 1) not in bad]
    raise SystemExit("could not converge: " + r.stderr[-2000:])

# ---- glibc
defs = subprocess.check_output(["clang", "-dM", "-E", "-include", "elf.h", "-x", "c", "/dev/null"], text=True)
gnames = sorted(set(m.group(1) for m in re.finditer(r"^#define ([A-Za-z_][A-Za-z0-9_]*) ", defs, re.M) if PFX.match(m.group(1))))
HDR = 3
def gsrc(names):
    return "#include <elf.h>\n#include <stdio.h>\nint main(void){\n" + "\n".join(f'printf("{n} %llu\\n",(unsigned long long)({n}));' for n in names) + "\nreturn 0;}\n"
glibc = compile_loop(gsrc, gnames, "clang", [], ".c")
print(len(glibc), "glibc constants")

# ---- LLVM
text = open("/usr/include/llvm-14/llvm/BinaryFormat/ELF.h").read()
lnames = set(m.group(1) for m in re.finditer(r"^\s*([A-Z][A-Za-z0-9_]+)\s*(?:=|,)", text, re.M) if PFX.match(m.group(1)))
for f in os.listdir("/usr/include/llvm-14/llvm/BinaryFormat/ELFRelocs"):
    for m in re.finditer(r"ELF_RELOC\(\s*([A-Za-z0-9_]+)\s*,", open(f"/usr/include/llvm-14/llvm/BinaryFormat/ELFRelocs/{f}").read()):
        lnames.add(m.group(1))
lnames = sorted(lnames)
def lsrc(names):
    return "#include <llvm/BinaryFormat/ELF.h>\n#include <cstdio>\nint main(){\n" + "\n".join(f'printf("{n} %llu\\n",(unsigned long long)(llvm::ELF::{n}));' for n in names) + "\nreturn 0;}\n"
llvm = compile_loop(lsrc, lnames, "clang++", ["-I/usr/include/llvm-14", "-I/usr/include/llvm-c-14"], ".cpp")
print(len(llvm), "LLVM constants")
with open(os.path.join(HERE, "abi_reference_all.txt"), "w") as f:
    for n in sorted(set(glibc) | set(llvm)):
        g, l = glibc.get(n), llvm.get(n)
        if g is not None:
            f.write(f"{n} {g} glibc\n")
        if l is not None and l != g:
            f.write(f"{n} {l} llvm\n")
print("wrote abi_reference_all.txt")

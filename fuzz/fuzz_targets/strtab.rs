//! libFuzzer target `strtab`: coverage-guided inputs, judged by the same oracles as the checks
//! (elfmon::fuzz::fuzz_one). A violation aborts the target; the driver re-classifies the
//! saved input with `elfmon fuzzcase strtab <file>`.
#![no_main]
use libfuzzer_sys::fuzz_target;

fuzz_target!(|data: &[u8]| {
    let v = elfmon::fuzz::fuzz_one("strtab", data);
    if let Some((prop, sig, detail)) = v.into_iter().next() {
        panic!("elfmon-violation {prop} {sig}: {detail}");
    }
});

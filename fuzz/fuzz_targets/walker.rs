//! libFuzzer target: the same allocation-free walker the C01/C06/C16 checks use, under the
//! same monitors — a panic inside the crate (overflow checks and debug assertions are on)
//! crashes the target; every query runs under its step budget, and an iterator that
//! overruns its item bound or an entry iterator that resurrects aborts explicitly.
#![no_main]
#![allow(dead_code)]

#[path = "../../harness/src/monitor/steps.rs"]
mod steps_impl;
mod monitor {
    pub use super::steps_impl as steps;
}
#[path = "../../harness/src/walk.rs"]
mod walk;

use elf::endian::{AnyEndian, BigEndian, LittleEndian};
use elf::file::Class;
use libfuzzer_sys::fuzz_target;

fuzz_target!(|data: &[u8]| {
    let n = data.len() as u64;
    let salt = n.wrapping_mul(0x9E37_79B9_7F4A_7C15) ^ data.first().copied().unwrap_or(0) as u64;
    let mut s = walk::Sink::new(n, true, salt);
    walk::walk_file::<AnyEndian>(data, &mut s);
    check(&s);
    let mut s = walk::Sink::new(n, true, salt);
    if salt & 1 == 0 {
        walk::walk_file::<LittleEndian>(data, &mut s);
    } else {
        walk::walk_file::<BigEndian>(data, &mut s);
    }
    check(&s);
    let w = data.len().min(256);
    let mut s = walk::Sink::new(w as u64, true, salt);
    let class = if salt & 2 == 0 { Class::ELF32 } else { Class::ELF64 };
    walk::walk_standalone(AnyEndian::Big, class, &data[..w], &mut s);
    check(&s);
});

fn check(s: &walk::Sink) {
    if let Some((label, items, bound)) = s.iter_overrun {
        panic!("elfmon: iterator {label} yielded {items} items, bound {bound}");
    }
    if let Some(label) = s.resurrect {
        panic!("elfmon: entry iterator {label} yielded an item after returning None");
    }
}

"""Shared helpers of the check driver: builds, shard execution, report merging."""
import json
import os
import shutil
import subprocess
import sys
import time

VERIF = os.path.dirname(os.path.dirname(os.path.abspath(__file__)))
HARNESS = os.path.join(VERIF, "harness")
TARGET = os.path.join(VERIF, ".target")
WORK = os.path.join(VERIF, ".work")
NSHARDS = int(os.environ.get("VERIF_SHARDS", "16"))

FLAGS_CHECKED = "--cfg elf_verif_hooks -C overflow-checks=on -C debug-assertions=on"
FLAGS_WRAP = "--cfg elf_verif_hooks -C overflow-checks=off -C debug-assertions=off"


def log(msg):
    print(msg, file=sys.stderr, flush=True)


def seed_value():
    try:
        return int(os.environ.get("VERIF_SEED", "1"))
    except ValueError:
        return 1


def base_env():
    env = dict(os.environ)
    env["CARGO_NET_OFFLINE"] = "true"
    env.pop("RUSTFLAGS", None)
    env.pop("CARGO_TARGET_DIR", None)
    return env


def cargo_build(variant, rustflags, features=None, toolchain=None, extra=None):
    """Build the harness into .target/<variant>; returns the binary path or None."""
    env = base_env()
    env["RUSTFLAGS"] = rustflags
    env["CARGO_TARGET_DIR"] = os.path.join(TARGET, variant)
    cmd = ["cargo"]
    if toolchain:
        cmd.append("+" + toolchain)
    cmd += ["build", "--release", "--offline"]
    if features is not None:
        cmd += ["--no-default-features"]
        if features:
            cmd += ["--features", ",".join(features)]
    if extra:
        cmd += extra
    r = subprocess.run(cmd, cwd=HARNESS, env=env, capture_output=True, text=True)
    if r.returncode != 0:
        log(f"build {variant} failed:\n" + r.stderr[-4000:])
        return None
    return os.path.join(TARGET, variant, "release", "elfmon")


def build_main():
    return cargo_build("main", FLAGS_CHECKED)


def build_wrap():
    return cargo_build("wrap", FLAGS_WRAP)


def workdir(name):
    d = os.path.join(WORK, name)
    shutil.rmtree(d, ignore_errors=True)
    os.makedirs(d, exist_ok=True)
    return d


# properties whose statement bounds the wall-clock time of a query: every worker of theirs runs under the per-case
# watchdog (harness monitor::hang), whatever build or phase it belongs to
HANG_LIMIT_S = {"C16": 300}


def run_shards(binp, pid, tier, seed, watchdog_s=None, nshards=None, tag="main", extra_args=None, hang_limit_s=None):
    """Run the sharded workers; returns (reports, problems)."""
    n = nshards or NSHARDS
    if hang_limit_s is None:
        hang_limit_s = HANG_LIMIT_S.get(pid)
    wd = workdir(f"{pid}-{tier}-{tag}")
    if watchdog_s is None:
        watchdog_s = 900 if tier == "quick" else 7200
    procs = []
    for i in range(n):
        out = os.path.join(wd, f"shard{i}.json")
        prog = os.path.join(wd, f"shard{i}.progress")
        cmd = [binp, "run", pid, "--tier", tier, "--seed", str(seed), "--shard", f"{i}/{n}", "--out", out, "--progress", prog]
        if extra_args:
            cmd += extra_args
        if hang_limit_s:
            # a case that runs this long ends the worker with status 97 (harness monitor::hang)
            cmd += ["--hang-limit", str(hang_limit_s)]
        errf = open(os.path.join(wd, f"shard{i}.stderr"), "w")
        procs.append((i, subprocess.Popen(cmd, stdout=subprocess.DEVNULL, stderr=errf), out, prog, errf))
    reports = []
    problems = []
    deadline = time.time() + watchdog_s
    for i, p, out, prog, errf in procs:
        try:
            rc = p.wait(timeout=max(1, deadline - time.time()))
        except subprocess.TimeoutExpired:
            p.kill()
            p.wait()
            problems.append({"why": f"shard {i} ({tag}) hit the {watchdog_s}s wall-clock watchdog (inconclusive)"})
            errf.close()
            continue
        errf.close()
        if rc != 0 or not os.path.exists(out):
            pr = {"why": f"shard {i} ({tag}) exited with status {rc}", "abort": rc < 0 or rc == 134, "hang": rc == 97}
            if os.path.exists(prog):
                try:
                    lines = open(prog).read().split("\n")
                    head = lines[0].split(" ", 2)
                    pr["stratum"] = head[0]
                    pr["case"] = int(head[1])
                    pr["progress_sig"] = head[2] if len(head) > 2 else ""
                    pr["input_hex"] = lines[1] if len(lines) > 1 else ""
                    pr["why"] += f" while running {lines[0]}"
                except Exception:
                    pass
            try:
                tail = open(os.path.join(wd, f"shard{i}.stderr")).read()[-600:]
                if tail.strip():
                    pr["why"] += " stderr: " + tail.strip().replace("\n", " | ")
            except Exception:
                pass
            problems.append(pr)
            continue
        try:
            reports.append(json.load(open(out)))
        except Exception as e:
            problems.append({"why": f"shard {i} ({tag}) wrote an unreadable report: {e}"})
    if not problems:
        shutil.rmtree(wd, ignore_errors=True)
    return reports, problems


def merge_reports(reports):
    m = {"evaluations": 0, "counters": {}, "maxes": {}, "floors": {}, "digests": set(), "samples": [],
         "violations": [], "inconclusive": [], "exhaustive_strata": [], "digests_dropped": 0, "wall_s": 0.0}
    for r in reports:
        m["evaluations"] += r["evaluations"]
        m["digests_dropped"] += r.get("digests_dropped", 0)
        m["wall_s"] = max(m["wall_s"], r.get("wall_s", 0))
        for k, v in r["counters"].items():
            m["counters"][k] = m["counters"].get(k, 0) + v
        for k, v in r["maxes"].items():
            m["maxes"][k] = max(m["maxes"].get(k, 0), v)
        for k, v in r["floors"].items():
            m["floors"][k] = max(m["floors"].get(k, 0), v)
        m["digests"] |= set(r["digests"])
        m["samples"].extend(r["samples"])
        for v in r["violations"]:
            v = dict(v)
            v["tier"] = r.get("tier", "quick")
            m["violations"].append(v)
        m["inconclusive"].extend(r["inconclusive"])
        m["exhaustive_strata"].extend(r.get("exhaustive_strata", []))
    return m

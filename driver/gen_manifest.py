#!/usr/bin/env python3
"""Regenerate /verif/MANIFEST.json from driver/props.py (single source of truth)."""
import json, os, sys
sys.path.insert(0, os.path.dirname(os.path.abspath(__file__)))
import props as P

ALL = [f"C{i:02d}" for i in range(1, 21)]
hooks_commits = ["c2163e8", "3abca66"]
checks = []
for pid in ALL:
    if pid not in P.PROPS:
        continue
    s = P.PROPS[pid]
    PH = {"miri_c01": "Miri on i686 and mips (32-bit usize; targeted boundary calls)", "miri_c04": "Miri on s390x and mips (NativeEndian = BigEndian executed)",
          "miri_c16": "Miri on i686 in both arithmetic modes (overflow checks on / wrapping)", "miri_cross": "the reduced tier under Miri on mips (32-bit big-endian build target)",
          "miri_cross_be64": "the reduced tier under Miri on s390x and mips (big-endian build targets)", "fuzz": "a libFuzzer run (fork=16) whose target applies this property's oracle to coverage-guided inputs",
          "features_c06": "the feature-subset compiler runs and walker runs", "wrap_c16": "the same workload in a build with wrapping arithmetic"}
    extra = [PH[p] for p in s.get("phases", {}).get("thorough", []) if p in PH and p not in s.get("phases", {}).get("quick", [])]
    text = s["level_text"] + (" Thorough tier: 10x the sampled strata, plus " + "; ".join(extra) + "." if extra else "")
    checks.append({
        "property_id": pid,
        "quick_cmd": f"./check {pid} quick",
        "thorough_cmd": f"./check {pid} thorough",
        "evidence_file": f"/verif/evidence/{pid}.json",
        "replay_cmd_template": f"./check {pid} --replay {{path}}",
        "engine": "elfmon",
        "level_claimed": {"category": s["level"], "text": text, "design_ref": f"DESIGN.md §4 {pid}"},
        "level_note": s["level_note"],
        "technique": s["technique"],
    })
na = [{"property_id": pid, "reason": P.NOT_APPLICABLE.get(pid, "check not built yet in this commit (work in progress; see DESIGN.md §4 for the planned monitor)")}
      for pid in ALL if pid not in P.PROPS]
m = {
    "version": 1,
    "setup_cmd": "./setup.sh",
    "hooks": {
        "guard": "--cfg elf_verif_hooks",
        "enable": "RUSTFLAGS=\"--cfg elf_verif_hooks -C overflow-checks=on -C debug-assertions=on\" cargo build --release (harness depends on elf by path=/repo, so /repo's working tree is rebuilt)",
        "baseline_off_cmd": "cd /repo && cargo nextest run --workspace --no-fail-fast --test-threads 8 --offline || cargo test --workspace --no-fail-fast --offline",
        "source_commits": hooks_commits,
        "add_only": True,
    },
    "engines": [{
        "name": "elfmon",
        "path": "/verif/harness",
        "serves_properties": [c["property_id"] for c in checks],
        "kind_free_text": "Rust harness running the real crate under generated/hostile/fault-injected workloads with monitors: panic hook, counting global allocator, instrumented Read+Seek with fault injection, in-crate step counter, independent reference models; driven by ./check (python3), 16 shard processes",
    }],
    "checks": checks,
    "notes": "Technique family: runtime monitoring. Exit 0 held / 1 VIOLATION / 2 inconclusive. VERIF_SEED seeds every sampled stratum; exhaustive strata ignore it. Known findings: KNOWN_FINDINGS.txt.",
    "not_applicable": na,
}
with open(os.path.join(os.path.dirname(os.path.dirname(os.path.abspath(__file__))), "MANIFEST.json"), "w") as f:
    json.dump(m, f, indent=1)
    f.write("\n")
print("wrote MANIFEST.json:", len(checks), "checks,", len(na), "not_applicable")

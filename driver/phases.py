"""Extra phases of individual checks: other builds, compiler runs, Miri, fuzzing."""
from common import build_main, build_wrap, log


def build_everything():
    ok = True
    if build_main() is None:
        ok = False
    return 0 if ok else 2

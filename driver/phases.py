"""Extra phases of individual checks: other builds, compiler runs, Miri, fuzzing.

Each phase returns a dict with any of: violations, inconclusive, evaluations, digests,
samples, counters, maxes, coverage."""
import itertools
import json
import os
import re
import shutil
import subprocess
import time
from concurrent.futures import ThreadPoolExecutor

from common import (FLAGS_CHECKED, HARNESS, NSHARDS, TARGET, VERIF, WORK, base_env, build_main, build_wrap,
                    cargo_build, log, merge_reports, run_shards, workdir)

REPO = "/repo"


def _prefixed(merged, prefix):
    return {
        "violations": merged["violations"],
        "inconclusive": merged["inconclusive"],
        "evaluations": merged["evaluations"],
        "digests": merged["digests"],
        "samples": [f"[{prefix}] {s}" for s in merged["samples"][:6]],
        "counters": {f"{prefix}:{k}": v for k, v in merged["counters"].items()},
        "maxes": {f"{prefix}:{k}": v for k, v in merged["maxes"].items()},
    }


# --------------------------------------------------------------------------- C16
def wrap_c16(pid, tier, seed):
    """Same workload in a plain release build (wrapping arithmetic): a wrapped counter shows
    as a runaway loop cut by the step budget instead of as an overflow panic."""
    binp = build_wrap()
    if binp is None:
        return {"inconclusive": ["wrap build (overflow-checks off) failed"]}
    reports, problems = run_shards(binp, pid, tier, seed, tag="wrap", hang_limit_s=300)
    merged = merge_reports(reports)
    res = _prefixed(merged, "wrap-build")
    res["violations"] = list(res["violations"]) + [
        {"sig": "wrap-build:did-not-return:" + p.get("stratum", "unknown"), "detail": p["why"], "stratum": p.get("stratum", ""),
         "case": p.get("case", 0), "input_hex": ""} for p in problems if p.get("hang")]
    res["inconclusive"] = list(res["inconclusive"]) + [p["why"] for p in problems if not p.get("hang")]
    res["coverage"] = {"build": "release, overflow-checks=off, debug-assertions=off, --cfg elf_verif_hooks", "shards": len(reports),
                       "evaluations": merged["evaluations"]}
    return res


def plain_release(pid, tier, seed):
    """The property's own workload (every 8th case of every stratum) against the crate built the way a plain
    `cargo build --release` builds it: overflow checks and debug assertions off. Code inside debug_assert!(..) and
    behind cfg(debug_assertions) exists only in one of the two profiles."""
    binp = build_wrap()
    if binp is None:
        return {"inconclusive": ["plain release build (overflow-checks off, debug-assertions off) failed"]}
    reports, problems = run_shards(binp, pid, tier, seed, tag="plain", extra_args=["--cases-div", "8"])
    merged = merge_reports(reports)
    for v in merged["violations"]:
        v["phase"] = "plain_release"
        v["detail"] = "[crate built with overflow-checks=off, debug-assertions=off] " + v.get("detail", "")
        v["sig"] = "plain-release:" + v["sig"]
    res = _prefixed(merged, "plain-release-build")
    res["inconclusive"] = list(res["inconclusive"]) + [p["why"] for p in problems]
    res["coverage"] = {"build": "release, overflow-checks=off, debug-assertions=off, --cfg elf_verif_hooks", "shards": len(reports),
                       "cases": f"every 8th case of the {tier} tier", "evaluations": merged["evaluations"]}
    return res


def env_literals(pid, tier, seed):
    """Ambient process state: string literals of the crate's current sources that look like environment variable names
    (UPPER_CASE_WITH_UNDERSCORES, not an abi constant) are set in the workers' environment, and the property's workload
    (every 8th case) runs again. Nothing to do on a tree that has none."""
    names = []
    srcdir = os.path.join(REPO, "src")
    abi = open(os.path.join(srcdir, "abi.rs"), errors="replace").read() if os.path.exists(os.path.join(srcdir, "abi.rs")) else ""
    for fn in sorted(os.listdir(srcdir)):
        if not fn.endswith(".rs") or fn in ("abi.rs", "to_str.rs"):
            continue
        code = open(os.path.join(srcdir, fn), errors="replace").read().split("#[cfg(test)]")[0]
        for lit in re.findall(r'"([A-Z][A-Z0-9]*_[A-Z0-9_]+)"', code):
            if lit not in names and f"pub const {lit}:" not in abi:
                names.append(lit)
    res = {"violations": [], "inconclusive": [], "counters": {}, "samples": [], "evaluations": 0, "digests": set(), "maxes": {},
           "coverage": {"environment_variable_like_literals": names}}
    if not names:
        return res
    binp = build_main()
    if binp is None:
        return {"inconclusive": ["main build failed"]}
    old = {n: os.environ.get(n) for n in names}
    try:
        for n in names:
            os.environ[n] = "1"
        reports, problems = run_shards(binp, pid, tier, seed, tag="env", extra_args=["--cases-div", "8"])
    finally:
        for n, v in old.items():
            if v is None:
                os.environ.pop(n, None)
            else:
                os.environ[n] = v
    m = merge_reports(reports)
    for v in m["violations"]:
        v = dict(v)
        v["phase"] = "env_literals"
        v["detail"] = f"[with {', '.join(n + '=1' for n in names)} in the environment] " + v.get("detail", "")
        v["sig"] = "env:" + v["sig"]
        res["violations"].append(v)
    res["inconclusive"].extend(m["inconclusive"] + [p["why"] for p in problems])
    res["evaluations"] += m["evaluations"]
    res["digests"] |= m["digests"]
    res["coverage"]["run"] = f"every 8th case of the {tier} tier with the variables set"
    return res


def lifetime_probe(pid, tier, seed):
    """Type-level half of "borrows from the caller's buffer" (C03): /verif/probe returns, from functions that own the
    parser handle, what each accessor hands out typed with the lifetime of the input buffer. It type-checks only if the
    accessors' return types are tied to the buffer. Decided by the compiler; the pointer-range oracle covers the runtime half."""
    res = {"violations": [], "inconclusive": [], "counters": {}, "samples": [], "evaluations": 0, "digests": set(), "maxes": {}, "coverage": {}}
    probe = os.path.join(VERIF, "probe")
    rc, err = _cargo(["cargo", "check", "--offline", "--lib", "--target-dir", os.path.join(TARGET, "probe")], cwd=probe)
    nfun = len(re.findall(r"^pub fn ", open(os.path.join(probe, "src", "lib.rs")).read(), flags=re.M))
    res["coverage"] = {"probe_functions": nfun, "check": "ok" if rc == 0 else "FAILED"}
    res["evaluations"] = nfun
    res["counters"]["lifetime-probe:accessors-type-checked"] = nfun if rc == 0 else 0
    res["samples"] = [f"[lifetime_probe] {nfun} accessors returned with the input buffer's lifetime from a function that owns the handle: {'type-checks' if rc == 0 else 'does not type-check'}"]
    if rc != 0:
        if re.search(r"E0515|E0597|E0521|E0716|lifetime may not live long enough|returns a value referencing data owned by the current function|does not live long enough", err):
            first = re.search(r"error[^\n]*\n[^\n]*-->[^\n]*", err)
            res["violations"].append({"sig": "lifetime:returned-data-tied-to-the-handle", "phase": "lifetime_probe",
                                      "detail": "a value handed out by the slice parser cannot outlive the parser handle although the buffer does (its type borrows from `&self`, not from the caller's buffer): " + (first.group(0) if first else err[-600:]).replace("\n", " "),
                                      "stratum": "lifetime-probe", "case": 0, "input_hex": ""})
        else:
            res["inconclusive"].append("the lifetime probe does not compile for a reason that is not a lifetime error: " + err[-500:])
    return res


def target_feature_builds(pid, tier, seed):
    """Code behind cfg(target_feature = "..") exists only in builds that enable the feature. For every CPU feature the
    crate's current sources name and this host's CPU has, the property's workload (every 8th case) runs against a
    build with -C target-feature=+<feature>. Nothing to do on a tree that names none."""
    feats = []
    srcdir = os.path.join(REPO, "src")
    for fn in sorted(os.listdir(srcdir)):
        if fn.endswith(".rs"):
            text = open(os.path.join(srcdir, fn), errors="replace").read()
            for f in re.findall(r'target_feature\s*=\s*"([a-z0-9_.\-]+)"', text):
                if f not in feats:
                    feats.append(f)
    res = {"violations": [], "inconclusive": [], "counters": {}, "samples": [], "evaluations": 0, "digests": set(), "maxes": {},
           "coverage": {"target_features_named_in_sources": feats, "builds": []}}
    if not feats:
        return res
    try:
        flags = set(open("/proc/cpuinfo").read().split("flags")[1].split("\n")[0].replace(":", " ").split())
    except Exception:
        flags = set()
    for f in feats:
        cpu_name = f.replace(".", "_")
        if cpu_name not in flags and f not in flags:
            res["coverage"]["builds"].append({"feature": f, "run": "not executable on this host's CPU"})
            continue
        binp = cargo_build("tf-" + cpu_name, FLAGS_CHECKED + f" -C target-feature=+{f}")
        if binp is None:
            res["inconclusive"].append(f"build with -C target-feature=+{f} failed")
            continue
        reports, problems = run_shards(binp, pid, tier, seed, tag="tf-" + cpu_name, extra_args=["--cases-div", "8"])
        m = merge_reports(reports)
        for v in m["violations"]:
            v = dict(v)
            v["phase"] = "target_feature_builds"
            v["detail"] = f"[crate built with -C target-feature=+{f}] " + v.get("detail", "")
            v["sig"] = f"target-feature[{f}]:" + v["sig"]
            res["violations"].append(v)
        res["inconclusive"].extend(m["inconclusive"] + [p["why"] for p in problems])
        res["evaluations"] += m["evaluations"]
        res["digests"] |= m["digests"]
        res["coverage"]["builds"].append({"feature": f, "run": f"every 8th case of the {tier} tier", "evaluations": m["evaluations"]})
    return res


# --------------------------------------------------------------------------- C06
def declared_features():
    feats = []
    in_features = False
    for line in open(os.path.join(REPO, "Cargo.toml")):
        s = line.strip()
        if s.startswith("["):
            in_features = s == "[features]"
            continue
        if in_features and "=" in s and not s.startswith("#"):
            name = s.split("=", 1)[0].strip()
            if name != "default":
                feats.append(name)
    return feats


def _cargo(cmd, env_extra=None, cwd=REPO, timeout=1200):
    env = base_env()
    if env_extra:
        env.update(env_extra)
    try:
        r = subprocess.run(cmd, cwd=cwd, env=env, capture_output=True, text=True, timeout=timeout)
        return r.returncode, r.stderr[-3000:]
    except subprocess.TimeoutExpired:
        return -1, "timeout"


def features_c06(pid, tier, seed):
    """Configuration clause: every subset of the declared features compiles; subsets without
    `std` compile against a sysroot that contains only core (or core+alloc); the allocation
    walker is repeated in every subset."""
    feats = declared_features()
    subsets = []
    for r in range(len(feats) + 1):
        for c in itertools.combinations(feats, r):
            subsets.append(list(c))
    res = {"violations": [], "inconclusive": [], "counters": {}, "samples": [], "evaluations": 0, "digests": set(), "maxes": {}}
    cov = {"declared_features": feats, "subsets": [], "nostd_targets": []}

    def closure(s):
        # std implies alloc per the crate's own feature table (read, not assumed)
        return sorted(set(s))

    def host_check(s):
        cmd = ["cargo", "check", "--offline", "--no-default-features", "--lib", "--target-dir", os.path.join(TARGET, "featcheck-" + ("_".join(s) or "none"))]
        if s:
            cmd += ["--features", ",".join(s)]
        return s, _cargo(cmd)

    # the no-std subsets are type-checked against a restricted sysroot for a 64-bit bare-metal target and for 32-bit
    # little- and big-endian targets (cfg(target_pointer_width) / cfg(target_endian) code is part of the configuration space)
    nostd_targets = ["x86_64-unknown-none", "i686-unknown-linux-gnu", "mips-unknown-linux-gnu"]

    def nostd_check(st):
        s, target = st
        std_parts = "core,alloc" if "alloc" in s else "core"
        cmd = ["cargo", "+nightly", "check", "-Zbuild-std=" + std_parts, "--target", target, "--no-default-features", "--lib",
               "--target-dir", os.path.join(TARGET, "nostd-" + ("_".join(s) or "none") + "-" + target.split("-")[0])]
        if s:
            cmd += ["--features", ",".join(s)]
        return s, std_parts, target, _cargo(cmd, {"CARGO_NET_OFFLINE": "true"})

    def std32_check(s):
        # subsets with std on a 32-bit target (thorough tier)
        target = "i686-unknown-linux-gnu"
        cmd = ["cargo", "+nightly", "check", "-Zbuild-std=std", "--target", target, "--no-default-features", "--lib",
               "--target-dir", os.path.join(TARGET, "std32-" + ("_".join(s) or "none"))]
        if s:
            cmd += ["--features", ",".join(s)]
        return s, "std", target, _cargo(cmd, {"CARGO_NET_OFFLINE": "true"})

    def harness_build(s):
        hf = ["elf_" + f for f in s]
        binp = cargo_build("feat-" + ("_".join(s) or "none"), FLAGS_CHECKED, features=hf)
        return s, binp

    with ThreadPoolExecutor(max_workers=8) as ex:
        host = list(ex.map(host_check, subsets))
        nostd = list(ex.map(nostd_check, [(s, t) for s in subsets if "std" not in s for t in nostd_targets]))
        if tier != "quick":
            nostd += list(ex.map(std32_check, [s for s in subsets if "std" in s]))
        builds = list(ex.map(harness_build, [s for s in subsets if set(s) != set(feats)]))

    for s, (rc, err) in host:
        name = "+".join(s) or "(none)"
        cov["subsets"].append({"features": name, "host_check": "ok" if rc == 0 else "FAILED"})
        res["evaluations"] += 1
        res["counters"]["config:host-checks"] = res["counters"].get("config:host-checks", 0) + 1
        if rc != 0:
            res["violations"].append({"sig": f"config:{name}:does-not-compile", "phase": "features_c06",
                                      "detail": f"the crate does not compile with features [{name}] (default features off): {err[-1200:]}",
                                      "stratum": "feature-subsets", "case": 0, "input_hex": ""})
    for s, parts, target, (rc, err) in nostd:
        name = "+".join(s) or "(none)"
        cov["nostd_targets"].append({"features": name, "sysroot": parts, "target": target, "check": "ok" if rc == 0 else "FAILED"})
        res["evaluations"] += 1
        res["counters"]["config:nostd-sysroot-checks"] = res["counters"].get("config:nostd-sysroot-checks", 0) + 1
        if rc != 0:
            if "can't find crate" in err or "unresolved import" in err or "cannot find" in err or "failed to resolve" in err or "error[E" in err:
                res["violations"].append({"sig": f"config:{name}:needs-more-than-{parts}", "phase": "features_c06",
                                          "detail": f"with features [{name}] the crate does not build against a sysroot containing only {parts} ({target}): {err[-1200:]}",
                                          "stratum": "feature-subsets", "case": 0, "input_hex": ""})
            else:
                res["inconclusive"].append(f"restricted-sysroot check for [{name}] on {target} could not run: {err[-400:]}")
    # the allocation walker in every other feature subset
    for s, binp in builds:
        name = "+".join(s) or "(none)"
        if binp is None:
            res["inconclusive"].append(f"harness build for feature subset [{name}] failed (crate itself checked separately)")
            continue
        reports, problems = run_shards(binp, "C06", "quick" if tier == "quick" else "quick", seed, nshards=4, tag="feat-" + ("_".join(s) or "none"))
        m = merge_reports(reports)
        res["violations"].extend([dict(v, sig=v["sig"]) for v in m["violations"]])
        res["inconclusive"].extend(m["inconclusive"] + [p["why"] for p in problems])
        res["evaluations"] += m["evaluations"]
        res["digests"] |= m["digests"]
        res["counters"][f"config[{name}]:armed-windows"] = m["counters"].get("armed-windows", 0)
        res["counters"][f"config[{name}]:walker-calls"] = m["counters"].get("walker-calls-under-monitor", 0)
        for c in cov["subsets"]:
            if c["features"] == name:
                c["walker_armed_windows"] = m["counters"].get("armed-windows", 0)
                c["walker_calls"] = m["counters"].get("walker-calls-under-monitor", 0)
    res["coverage"] = cov
    res["samples"] = [f"[config] features {c['features']}: host check {c['host_check']}, walker windows {c.get('walker_armed_windows', 'main run')}" for c in cov["subsets"]]
    return res


def feature_closures():
    """feature -> set of features it switches on (from [features] in /repo/Cargo.toml)"""
    table = {}
    in_features = False
    for line in open(os.path.join(REPO, "Cargo.toml")):
        s = line.strip()
        if s.startswith("["):
            in_features = s == "[features]"
            continue
        if in_features and "=" in s and not s.startswith("#"):
            name, rhs = s.split("=", 1)
            table[name.strip()] = [x.strip().strip('"') for x in rhs.strip().strip("[]").split(",") if x.strip()]
    def close(fs):
        out = set()
        todo = list(fs)
        while todo:
            x = todo.pop()
            if x in out or x not in table:
                continue
            out.add(x)
            todo.extend(table[x])
        return out
    return table, close


def feature_configs(pid, tier, seed):
    """The property's own workload (every 8th case of every stratum) against the crate built in each *other*
    effective feature configuration: code behind cfg(feature = ..) / cfg(not(feature = ..)) is not compiled into
    the default build at all, so no input can reach it there."""
    feats = declared_features()
    table, close = feature_closures()
    full = close(table.get("default", feats))
    seen = {frozenset(full)}
    configs = []
    for r in range(len(feats) + 1):
        for c in itertools.combinations(feats, r):
            eff = frozenset(close(c))
            if eff not in seen:
                seen.add(eff)
                configs.append(sorted(eff))
    res = {"violations": [], "inconclusive": [], "counters": {}, "samples": [], "evaluations": 0, "digests": set(), "maxes": {}}
    cov = {"configurations": []}
    div = 8

    def build(s):
        return s, cargo_build("feat-" + ("_".join(s) or "none"), FLAGS_CHECKED, features=["elf_" + x for x in s])

    with ThreadPoolExecutor(max_workers=8) as ex:
        builds = list(ex.map(build, configs))
    for s, binp in builds:
        name = "+".join(s) or "(none)"
        if binp is None:
            res["inconclusive"].append(f"harness build for feature configuration [{name}] failed")
            continue
        listing = subprocess.run([binp, "list"], capture_output=True, text=True).stdout
        if not any(l.startswith(pid + " ") for l in listing.splitlines()):
            cov["configurations"].append({"features": name, "run": "not applicable: this property's workload needs features the configuration lacks"})
            continue
        reports, problems = run_shards(binp, pid, tier, seed, tag="cfg-" + ("_".join(s) or "none"), extra_args=["--cases-div", str(div)])
        m = merge_reports(reports)
        for v in m["violations"]:
            v = dict(v)
            v["phase"] = "feature_configs"
            v["detail"] = f"[crate built with --no-default-features --features '{','.join(s)}'] " + v.get("detail", "")
            v["sig"] = f"cfg[{name}]:" + v["sig"]
            res["violations"].append(v)
        res["inconclusive"].extend(m["inconclusive"] + [p["why"] for p in problems])
        res["evaluations"] += m["evaluations"]
        res["digests"] |= m["digests"]
        res["counters"][f"config[{name}]:evaluations"] = m["evaluations"]
        cov["configurations"].append({"features": name, "run": f"every {div}th case of the {tier} tier", "evaluations": m["evaluations"], "shards": len(reports)})
    res["coverage"] = cov
    res["samples"] = [f"[feature_configs] {c['features']}: {c['run']}" + (f", {c['evaluations']} evaluations" if "evaluations" in c else "") for c in cov["configurations"]]
    return res


# --------------------------------------------------------------------------- Miri
MIRI_TARGETS = {
    "i686": "i686-unknown-linux-gnu",
    "mips": "mips-unknown-linux-gnu",
    "s390x": "s390x-unknown-linux-gnu",
}


def miri_setup(targets):
    ok = True
    for t in targets:
        env = base_env()
        r = subprocess.run(["cargo", "+nightly", "miri", "setup", "--target", MIRI_TARGETS[t]], cwd=HARNESS, env=env, capture_output=True, text=True)
        if r.returncode != 0:
            log(f"miri setup for {t} failed: {r.stderr[-800:]}")
            ok = False
    return ok


def miri_run(pid, target_key, seed, nshards, timeout_s, extra=None, rustflags="--cfg elf_verif_hooks", tdir="miri"):
    """Run `elfmon run <pid> --tier miri` under Miri for a foreign target, sharded."""
    target = MIRI_TARGETS[target_key]
    env = base_env()
    env["RUSTFLAGS"] = rustflags
    env["MIRIFLAGS"] = "-Zmiri-disable-isolation"
    env["CARGO_TARGET_DIR"] = os.path.join(TARGET, tdir)
    wd = workdir(f"{pid}-miri-{target_key}")
    # build once (serially) so that the shards do not all wait on the build lock with a cold cache
    b = subprocess.run(["cargo", "+nightly", "miri", "run", "--target", target, "--", "list"], cwd=HARNESS, env=env, capture_output=True, text=True, timeout=1800)
    if b.returncode != 0:
        return None, [f"miri build/run for {target} failed: {b.stderr[-1500:]}"]
    procs = []
    for i in range(nshards):
        cmd = ["cargo", "+nightly", "miri", "run", "--target", target, "--", "run", pid, "--tier", "miri", "--seed", str(seed),
               "--shard", f"{i}/{nshards}", "--out", "-"]
        if extra:
            cmd += extra
        out = open(os.path.join(wd, f"shard{i}.out"), "w")
        err = open(os.path.join(wd, f"shard{i}.err"), "w")
        procs.append((i, subprocess.Popen(cmd, cwd=HARNESS, env=env, stdout=out, stderr=err), out, err))
    reports, problems = [], []
    deadline = time.time() + timeout_s
    for i, p, out, err in procs:
        try:
            rc = p.wait(timeout=max(1, deadline - time.time()))
        except subprocess.TimeoutExpired:
            p.kill()
            p.wait()
            problems.append(f"miri shard {i} on {target} hit the {timeout_s}s watchdog (inconclusive)")
            continue
        finally:
            out.close()
            err.close()
        txt = open(os.path.join(wd, f"shard{i}.out")).read()
        m = re.search(r"@@REPORT@@ (\{.*\})", txt)
        if rc != 0 or not m:
            tail = open(os.path.join(wd, f"shard{i}.err")).read()[-1200:]
            problems.append(f"miri shard {i} on {target} exited {rc}: {tail}")
            continue
        reports.append(json.loads(m.group(1)))
    if not problems:
        shutil.rmtree(wd, ignore_errors=True)
    return reports, problems


# Miri targets (little- and big-endian where both exist) for the architectures a `cfg(target_arch = "..")` in the
# crate's current sources can name: code behind such a cfg exists on no other target
ARCH_TARGETS = {
    "x86": ["i686-unknown-linux-gnu"],
    "aarch64": ["aarch64-unknown-linux-gnu", "aarch64_be-unknown-linux-gnu"],
    "arm": ["armv7-unknown-linux-gnueabihf", "armeb-unknown-linux-gnueabi"],
    "mips": ["mips-unknown-linux-gnu", "mipsel-unknown-linux-gnu"],
    "mips64": ["mips64-unknown-linux-gnuabi64", "mips64el-unknown-linux-gnuabi64"],
    "powerpc": ["powerpc-unknown-linux-gnu"],
    "powerpc64": ["powerpc64-unknown-linux-gnu", "powerpc64le-unknown-linux-gnu"],
    "riscv32": ["riscv32gc-unknown-linux-gnu"],
    "riscv64": ["riscv64gc-unknown-linux-gnu"],
    "s390x": ["s390x-unknown-linux-gnu"],
    "sparc64": ["sparc64-unknown-linux-gnu"],
    "loongarch64": ["loongarch64-unknown-linux-gnu"],
}


def arch_targets():
    """Miri target keys for every target_arch the crate's sources mention (none on the pinned tree)."""
    keys = []
    srcdir = os.path.join(REPO, "src")
    for fn in sorted(os.listdir(srcdir)):
        if not fn.endswith(".rs"):
            continue
        text = open(os.path.join(srcdir, fn), errors="replace").read()
        for arch in re.findall(r'target_arch\s*=\s*"([a-z0-9_]+)"', text):
            for triple in ARCH_TARGETS.get(arch, []):
                if triple not in MIRI_TARGETS.values():
                    MIRI_TARGETS[triple] = triple
                key = [k for k, v in MIRI_TARGETS.items() if v == triple][0]
                if key not in keys:
                    keys.append(key)
    return keys


def _miri_phase(pid, seed, targets, nshards=16, timeout_s=3000, variants=(("checked", "--cfg elf_verif_hooks", "miri"),)):
    res = {"violations": [], "inconclusive": [], "counters": {}, "maxes": {}, "samples": [], "evaluations": 0, "digests": set(), "coverage": {"targets": []}}
    targets = list(targets) + [t for t in arch_targets() if t not in targets]
    if not miri_setup(targets):
        res["inconclusive"].append("miri sysroot setup failed")
        return res
    for t, (vname, flags, tdir) in [(t, v) for t in targets for v in variants]:
        reports, problems = miri_run(pid, t, seed, nshards, timeout_s, rustflags=flags, tdir=tdir)
        if reports is None:
            res["inconclusive"].extend(problems)
            continue
        m = merge_reports(reports)
        p = _prefixed(m, f"miri-{t}-{vname}")
        for v in p["violations"]:
            v["tier"] = "miri"
            v["detail"] = f"[under Miri, target {MIRI_TARGETS[t]}] " + v["detail"]
        res["violations"].extend(p["violations"])
        res["inconclusive"].extend(p["inconclusive"] + problems)
        res["evaluations"] += p["evaluations"]
        res["digests"] |= p["digests"]
        res["samples"].extend(p["samples"])
        res["counters"].update(p["counters"])
        res["maxes"].update(p["maxes"])
        res["coverage"]["targets"].append({"target": MIRI_TARGETS[t], "build": vname, "shards": len(reports), "evaluations": m["evaluations"]})
    return res


def miri_c01(pid, tier, seed):
    return _miri_phase("C01", seed, ["i686", "mips"])


def miri_c04(pid, tier, seed):
    return _miri_phase("C04", seed, ["s390x", "mips"], nshards=8)


def miri_c16(pid, tier, seed):
    # both arithmetic modes on a 32-bit usize: with overflow checks an overflow is a panic (C01's finding),
    # without them a wrapped counter becomes a runaway iteration, which is what C16 is about
    return _miri_phase("C16", seed, ["i686"], variants=(
        ("checked", "--cfg elf_verif_hooks", "miri"),
        ("wrapping", "--cfg elf_verif_hooks -C overflow-checks=off -C debug-assertions=off", "miri-wrap"),
    ))


# --------------------------------------------------------------------------- libFuzzer
def fuzz(pid, tier, seed):
    import fuzzphase
    return fuzzphase.run(pid, tier, seed)


def miri_cross(pid, tier, seed):
    """The property's reduced (Miri) tier on a 32-bit big-endian target: cfg(target_endian) / cfg(target_pointer_width)
    dependent code can hide behind any property."""
    return _miri_phase(pid, seed, ["mips"], nshards=16)


def miri_cross_be64(pid, tier, seed):
    return _miri_phase(pid, seed, ["s390x", "mips"], nshards=16)


# --------------------------------------------------------------------------- setup
def build_everything():
    ok = True
    t0 = time.time()
    if build_main() is None:
        ok = False
    if build_wrap() is None:
        ok = False
    feats = declared_features()
    subsets = []
    for r in range(len(feats) + 1):
        for c in itertools.combinations(feats, r):
            if set(c) != set(feats):
                subsets.append(list(c))
    with ThreadPoolExecutor(max_workers=8) as ex:
        for s, b in ex.map(lambda s: (s, cargo_build("feat-" + ("_".join(s) or "none"), FLAGS_CHECKED, features=["elf_" + f for f in s])), subsets):
            if b is None:
                ok = False
    log(f"harness variants built in {time.time() - t0:.0f}s")
    # Miri sysroots (used by the thorough tier only); failure here is not fatal for setup
    miri_setup(["i686", "mips", "s390x"])
    return 0 if ok else 2

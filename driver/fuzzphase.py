"""libFuzzer phase (thorough tier of C01 and C16): coverage-guided mutation of a corpus emitted by the
generator, with the walker and its monitors as the oracle. Crashing inputs are replayed through the
main harness binary, which classifies them (crate panic -> C01, step budget / item bound -> C16)."""
import glob
import os
import re
import shutil
import subprocess
import time

from common import TARGET, VERIF, WORK, base_env, build_main, log, workdir

FUZZ = os.path.join(VERIF, "fuzz")


def run(pid, tier, seed, seconds=240):
    res = {"violations": [], "inconclusive": [], "counters": {}, "maxes": {}, "samples": [], "evaluations": 0, "digests": set(), "coverage": {}}
    binp = build_main()
    if binp is None:
        res["inconclusive"].append("harness build failed")
        return res
    wd = workdir(f"{pid}-fuzz")
    corpus = os.path.join(wd, "corpus")
    art = os.path.join(wd, "artifacts") + "/"
    os.makedirs(corpus)
    os.makedirs(art)
    # seed corpus from the generator (same 12 kinds as the corpus of C01)
    r = subprocess.run([binp, "emit-corpus", corpus, "--seed", str(seed), "--count", "600"], capture_output=True, text=True)
    if r.returncode != 0:
        res["inconclusive"].append("emit-corpus failed: " + r.stderr[-300:])
        return res
    env = base_env()
    env["RUSTFLAGS"] = "--cfg elf_verif_hooks -C overflow-checks=on"
    env["CARGO_TARGET_DIR"] = os.path.join(TARGET, "fuzz")
    env.pop("CARGO_NET_OFFLINE", None)  # cargo fuzz rejects --offline; [net] offline is set in fuzz/.cargo/config.toml
    b = subprocess.run(["cargo", "+nightly", "fuzz", "build", "-s", "none", "-a", "walker"], cwd=FUZZ, env=env, capture_output=True, text=True)
    if b.returncode != 0:
        res["inconclusive"].append("cargo fuzz build failed: " + b.stderr[-1200:])
        return res
    cmd = ["cargo", "+nightly", "fuzz", "run", "-s", "none", "-a", "walker", corpus, "--",
           f"-max_total_time={seconds}", "-fork=16", "-timeout=10", "-ignore_crashes=1", "-ignore_timeouts=1", "-ignore_ooms=1",
           "-max_len=8192", f"-artifact_prefix={art}", f"-seed={seed}", "-print_final_stats=1"]
    t0 = time.time()
    try:
        f = subprocess.run(cmd, cwd=FUZZ, env=env, capture_output=True, text=True, timeout=seconds + 600)
        out = f.stderr + f.stdout
    except subprocess.TimeoutExpired:
        res["inconclusive"].append("libFuzzer run hit the driver's watchdog")
        return res
    # last status line of the fork-mode parent: "#123456: cov: 3456 ft: 7890 corp: 1234 exec/s 5678 ..."
    m = re.findall(r"#(\d+): cov: (\d+) ft: (\d+) corp: (\d+)", out)
    if m:
        execs, cov, ft, corp = (int(x) for x in m[-1])
    else:
        execs = cov = ft = corp = 0
    res["evaluations"] = execs
    res["counters"] = {"fuzz:executions": execs, "fuzz:coverage-edges": cov, "fuzz:features": ft, "fuzz:corpus-units": corp,
                       "fuzz:seed-corpus-files": 600}
    res["coverage"] = {"engine": "libFuzzer -fork=16", "seconds": round(time.time() - t0, 1), "executions": execs, "coverage_edges": cov,
                       "corpus_units": corp, "max_len": 8192}
    if execs == 0:
        res["inconclusive"].append("libFuzzer reported no executions: " + out[-600:])
    # classify artifacts with the main harness
    arts = sorted(glob.glob(art + "crash-*")) + sorted(glob.glob(art + "timeout-*"))
    res["counters"]["fuzz:artifacts"] = len(arts)
    for a in arts[:200]:
        c = subprocess.run([binp, "fuzzcase", pid, a], capture_output=True, text=True, timeout=120)
        for line in c.stdout.splitlines():
            if line.startswith("FUZZ-VIOLATION "):
                _, prop, sig, detail = line.split(" ", 3)
                if prop == pid:
                    keep = os.path.join(VERIF, "replay", pid)
                    os.makedirs(keep, exist_ok=True)
                    dst = os.path.join(keep, os.path.basename(a))
                    shutil.copyfile(a, dst)
                    res["violations"].append({"sig": sig, "detail": f"[libFuzzer input {dst}] {detail}", "stratum": "libfuzzer", "case": 0,
                                              "input_hex": open(a, "rb").read()[:4096].hex(), "phase": "fuzz", "cmd": f"{binp} fuzzcase {pid} {dst}"})
        if a.startswith(art + "timeout-"):
            res["counters"]["fuzz:timeouts"] = res["counters"].get("fuzz:timeouts", 0) + 1
    res["samples"] = [f"[libfuzzer] {execs} executions, {cov} edges, corpus {corp} units in {seconds}s"]
    if not res["violations"]:
        shutil.rmtree(wd, ignore_errors=True)
    return res

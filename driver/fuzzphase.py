"""libFuzzer phases (thorough tier): coverage-guided inputs judged by the same oracles as the checks.

Every fuzz target calls elfmon::fuzz::fuzz_one(target, data) and aborts on a violation; crashing inputs
are replayed through the main harness binary (`elfmon fuzzcase <target> <file>`), which prints the
violations with their property id, and only those of the property being checked are reported."""
import glob
import os
import re
import shutil
import subprocess
import time

from common import TARGET, VERIF, base_env, build_main, workdir

FUZZ = os.path.join(VERIF, "fuzz")
HARNESS_DIR = os.path.join(VERIF, "harness")  # cargo-fuzz wants to be started inside a cargo project
# property -> (fuzz target, use value profile)
TARGETS = {
    "C01": ("walker", False), "C16": ("walker", False), "C02": ("decode", True), "C19": ("tostr", True), "C14": ("notes", True),
    "C15": ("strtab", True), "C07": ("stream", False), "C08": ("stream", False), "C03": ("ranges", False), "C05": ("locate", False),
}
_built = False


def make_dict(path):
    """libFuzzer dictionary from the literals of the crate's current sources (non-test code): byte-string and string
    literals, and integer literals of the parser modules (not abi.rs) in both byte orders. A comparison against a
    literal is otherwise found only by luck."""
    import struct
    entries = set()
    src = "/repo/src"
    for fn in sorted(os.listdir(src)):
        if not fn.endswith(".rs"):
            continue
        text = open(os.path.join(src, fn), errors="replace").read()
        cut = text.find("#[cfg(test)]")
        if cut >= 0:
            text = text[:cut]
        text = re.sub(r"//[^\n]*", "", text)
        for m in re.finditer(r'b"((?:[^"\\]|\\.){1,24})"', text):
            try:
                entries.add(bytes(m.group(1), "latin1").decode("unicode_escape").encode("latin1"))
            except Exception:
                pass
        if fn in ("abi.rs", "to_str.rs"):
            continue
        for m in re.finditer(r'(?<![A-Za-z0-9_])(0x[0-9a-fA-F_]{2,18}|[1-9][0-9_]{1,18})(?:u8|u16|u32|u64|usize|i32|i64)?(?![A-Za-z0-9_.])', text):
            try:
                v = int(m.group(1).replace("_", ""), 0)
            except ValueError:
                continue
            if v < 3:
                continue
            for w, f in ((1, "B"), (2, "H"), (4, "I"), (8, "Q")):
                if v < (1 << (8 * w)):
                    entries.add(struct.pack("<" + f, v))
                    entries.add(struct.pack(">" + f, v))
                    break
    with open(path, "w") as f:
        for i, e in enumerate(sorted(entries)):
            f.write('kw%d="%s"\n' % (i, "".join("\\x%02x" % b for b in e)))
    return len(entries)


def _build(env):
    global _built
    if _built:
        return None
    b = subprocess.run(["cargo", "+nightly", "fuzz", "build", "--fuzz-dir", FUZZ, "-s", "none", "-a"], cwd=HARNESS_DIR, env=env, capture_output=True, text=True)
    if b.returncode != 0:
        return "cargo fuzz build failed: " + b.stderr[-1500:]
    _built = True
    return None


def run(pid, tier, seed, seconds=150):
    res = {"violations": [], "inconclusive": [], "counters": {}, "maxes": {}, "samples": [], "evaluations": 0, "digests": set(), "coverage": {}}
    target, value_profile = TARGETS[pid]
    binp = build_main()
    if binp is None:
        res["inconclusive"].append("harness build failed")
        return res
    wd = workdir(f"{pid}-fuzz")
    corpus = os.path.join(wd, "corpus")
    art = os.path.join(wd, "artifacts") + "/"
    os.makedirs(corpus)
    os.makedirs(art)
    r = subprocess.run([binp, "emit-corpus", corpus, "--target", target, "--seed", str(seed), "--count", "400"], capture_output=True, text=True)
    if r.returncode != 0:
        res["inconclusive"].append("emit-corpus failed: " + (r.stderr + r.stdout)[-300:])
        return res
    nseeds = len(os.listdir(corpus))
    env = base_env()
    env["RUSTFLAGS"] = "--cfg elf_verif_hooks -C overflow-checks=on"
    env["CARGO_TARGET_DIR"] = os.path.join(TARGET, "fuzz")
    env.pop("CARGO_NET_OFFLINE", None)  # cargo fuzz rejects --offline; fuzz/.cargo/config.toml sets [net] offline
    err = _build(env)
    if err:
        res["inconclusive"].append(err)
        return res
    cmd = ["cargo", "+nightly", "fuzz", "run", "--fuzz-dir", FUZZ, "-s", "none", "-a", target, corpus, "--",
           f"-max_total_time={seconds}", "-fork=16", "-timeout=20", "-ignore_crashes=1", "-ignore_timeouts=1", "-ignore_ooms=1",
           "-max_len=8192", f"-artifact_prefix={art}", f"-seed={seed}", "-print_final_stats=1"]
    if value_profile:
        cmd.append("-use_value_profile=1")
    dict_path = os.path.join(wd, "literals.dict")
    ndict = make_dict(dict_path)
    cmd.append(f"-dict={dict_path}")
    t0 = time.time()
    try:
        f = subprocess.run(cmd, cwd=HARNESS_DIR, env=env, capture_output=True, text=True, timeout=seconds + 900)
        out = f.stderr + f.stdout
    except subprocess.TimeoutExpired:
        res["inconclusive"].append("libFuzzer run hit the driver's watchdog")
        return res
    m = re.findall(r"#(\d+): cov: (\d+) ft: (\d+) corp: (\d+)", out)
    execs, cov, ft, corp = (int(x) for x in m[-1]) if m else (0, 0, 0, 0)
    res["evaluations"] = execs
    res["counters"] = {f"fuzz[{target}]:executions": execs, f"fuzz[{target}]:coverage-edges": cov, f"fuzz[{target}]:features": ft,
                       f"fuzz[{target}]:corpus-units": corp, f"fuzz[{target}]:seed-corpus-files": nseeds, f"fuzz[{target}]:dictionary-entries": ndict}
    res["coverage"] = {"engine": "libFuzzer -fork=16" + (" -use_value_profile=1" if value_profile else ""), "target": target,
                       "seconds": round(time.time() - t0, 1), "executions": execs, "coverage_edges": cov, "corpus_units": corp, "max_len": 8192}
    if execs == 0:
        res["inconclusive"].append("libFuzzer reported no executions: " + out[-600:])
    arts = sorted(glob.glob(art + "crash-*")) + sorted(glob.glob(art + "timeout-*")) + sorted(glob.glob(art + "oom-*"))
    res["counters"][f"fuzz[{target}]:artifacts"] = len(arts)
    other = 0
    for a in arts[:300]:
        try:
            c = subprocess.run([binp, "fuzzcase", target, a], capture_output=True, text=True, timeout=300)
        except subprocess.TimeoutExpired:
            res["inconclusive"].append(f"replaying fuzz artifact {os.path.basename(a)} timed out")
            continue
        mine = False
        for line in c.stdout.splitlines():
            if line.startswith("FUZZ-VIOLATION "):
                _, prop, sig, detail = line.split(" ", 3)
                if prop == pid:
                    mine = True
                    keep = os.path.join(VERIF, "replay", pid)
                    os.makedirs(keep, exist_ok=True)
                    dst = os.path.join(keep, os.path.basename(a))
                    shutil.copyfile(a, dst)
                    res["violations"].append({"sig": sig, "detail": f"[libFuzzer target {target}, input {dst}] {detail}", "stratum": "libfuzzer", "case": 0,
                                              "input_hex": open(a, "rb").read()[:4096].hex(), "phase": "fuzz", "cmd": f"{binp} fuzzcase {target} {dst}"})
        if not mine:
            other += 1
    res["counters"][f"fuzz[{target}]:artifacts-not-reproduced-or-other-property"] = other
    res["samples"] = [f"[libfuzzer {target}] {execs} executions, {cov} edges, corpus {corp} units in {seconds}s, {len(arts)} artifacts"]
    if not res["violations"]:
        shutil.rmtree(wd, ignore_errors=True)
    return res

//! Scans /repo/src/abi.rs (the *current* working tree) for `pub const NAME: <integer type>`
//! and generates a table `(name, type, elf::abi::NAME as i128)`, so that the values the
//! harness prints are what the compiler actually evaluated.
use std::fmt::Write as _;

fn main() {
    let path = "/repo/src/abi.rs";
    println!("cargo:rerun-if-changed={path}");
    println!("cargo:rerun-if-changed=build.rs");
    let src = std::fs::read_to_string(path).expect("read /repo/src/abi.rs");
    let mut out = String::from("pub static ABI_CONSTS: &[(&str, &str, i128)] = &[\n");
    let mut n = 0;
    for line in src.lines() {
        let l = line.trim_start();
        let Some(rest) = l.strip_prefix("pub const ") else { continue };
        let Some((name, rest)) = rest.split_once(':') else { continue };
        let Some((ty, _)) = rest.split_once('=') else { continue };
        let (name, ty) = (name.trim(), ty.trim());
        if !matches!(ty, "u8" | "u16" | "u32" | "u64" | "i32" | "i64" | "usize") {
            continue;
        }
        if !name.chars().all(|c| c.is_ascii_alphanumeric() || c == '_') {
            continue;
        }
        let _ = writeln!(out, "    (\"{name}\", \"{ty}\", elf::abi::{name} as i128),");
        n += 1;
    }
    out.push_str("];\n");
    let _ = writeln!(out, "pub const ABI_CONSTS_SCANNED: usize = {n};");
    let dir = std::env::var("OUT_DIR").unwrap();
    std::fs::write(format!("{dir}/abi_table.rs"), out).unwrap();
}

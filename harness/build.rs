//! Scans /repo/src/abi.rs (the *current* working tree) for `pub const NAME: <integer type>`
//! and generates a table `(name, type, elf::abi::NAME as i128)`, so that the values the
//! harness prints are what the compiler actually evaluated.
use std::fmt::Write as _;

fn main() {
    // the crate under test: /repo unless ELFMON_REPO says otherwise (scratch development copies)
    println!("cargo:rerun-if-env-changed=ELFMON_REPO");
    let repo = std::env::var("ELFMON_REPO").unwrap_or_else(|_| "/repo".to_string());
    let path = format!("{repo}/src/abi.rs");
    let path = path.as_str();
    println!("cargo:rerun-if-changed={path}");
    println!("cargo:rerun-if-changed=build.rs");
    let mut src = std::fs::read_to_string(path).expect("read /repo/src/abi.rs");
    // constants produced by macros do not appear as `pub const` lines in the file: take the module as the compiler sees
    // it after macro expansion (rustc -Zunpretty=expanded; a tenth of a second) and fall back to the file text
    if let Ok(o) = std::process::Command::new("rustc")
        .env("RUSTC_BOOTSTRAP", "1")
        .args(["-Zunpretty=expanded", "--edition", "2021", "--crate-type", "lib", "--crate-name", "elf"])
        .args(["--cfg", "feature=\"std\"", "--cfg", "feature=\"alloc\"", "--cfg", "feature=\"to_str\""])
        .arg(format!("{repo}/src/lib.rs"))
        .output()
    {
        if o.status.success() {
            let text = String::from_utf8_lossy(&o.stdout);
            if let Some(a) = text.find("\npub mod abi {") {
                let rest = &text[a + 1..];
                let end = rest.find("\n}\n").unwrap_or(rest.len());
                let expanded = &rest[..end];
                // names the module re-exports from elsewhere in the crate (`pub use crate::x::{A, B};`) are part of
                // `elf::abi` too: find their definitions anywhere in the expanded crate
                let mut extra = String::new();
                let mut rest_use = expanded;
                while let Some(u) = rest_use.find("pub use ") {
                    let stmt_end = rest_use[u..].find(';').map(|e| u + e).unwrap_or(rest_use.len());
                    let stmt = &rest_use[u..stmt_end];
                    for name in stmt.split(|c: char| !(c.is_ascii_alphanumeric() || c == '_')) {
                        if name.len() >= 3 && name.chars().all(|c| c.is_ascii_uppercase() || c.is_ascii_digit() || c == '_') && name.chars().next().map(|c| c.is_ascii_uppercase()).unwrap_or(false) {
                            let pat = format!("pub const {name}: ");
                            if let Some(d) = text.find(&pat) {
                                let after = &text[d + pat.len()..];
                                if let Some(eq) = after.find('=') {
                                    extra.push_str(&format!("    pub const {name}: {} = 0;\n", after[..eq].trim()));
                                }
                            }
                        }
                    }
                    rest_use = &rest_use[stmt_end..];
                }
                if expanded.matches("pub const ").count() + extra.matches("pub const ").count() >= src.matches("pub const ").count() {
                    src = format!("{expanded}\n{extra}");
                    println!("cargo:rustc-env=ELFMON_ABI_SOURCE=expanded");
                }
            }
        }
    }
    for f in ["lib.rs"] {
        println!("cargo:rerun-if-changed={repo}/src/{f}");
    }
    let mut out = String::from("pub static ABI_CONSTS: &[(&str, &str, i128)] = &[\n");
    let mut n = 0;
    let mut names: Vec<String> = Vec::new();
    for line in src.lines() {
        let l = line.trim_start();
        let Some(rest) = l.strip_prefix("pub const ") else { continue };
        let Some((name, rest)) = rest.split_once(':') else { continue };
        let Some((ty, _)) = rest.split_once('=') else { continue };
        let (name, ty) = (name.trim(), ty.trim());
        if !matches!(ty, "u8" | "u16" | "u32" | "u64" | "i32" | "i64" | "usize") {
            continue;
        }
        if !name.chars().all(|c| c.is_ascii_alphanumeric() || c == '_') {
            continue;
        }
        let _ = writeln!(out, "    (\"{name}\", \"{ty}\", elf::abi::{name} as i128),");
        names.push(name.to_string());
        n += 1;
    }
    out.push_str("];\n");
    let _ = writeln!(out, "pub const ABI_CONSTS_SCANNED: usize = {n};");
    // constants the crate's *code* refers to (everything except the constant table itself and the name tables of
    // to_str.rs): values at which behaviour may branch, used to bias generated header fields
    let known: std::collections::HashSet<&str> = names.iter().map(|s| s.as_str()).collect();
    let mut referenced: std::collections::BTreeSet<String> = std::collections::BTreeSet::new();
    if let Ok(rd) = std::fs::read_dir(format!("{repo}/src")) {
        for e in rd.flatten() {
            let p = e.path();
            let fname = p.file_name().and_then(|x| x.to_str()).unwrap_or("").to_string();
            if !fname.ends_with(".rs") || fname == "abi.rs" || fname == "to_str.rs" {
                continue;
            }
            println!("cargo:rerun-if-changed={}", p.display());
            if let Ok(text) = std::fs::read_to_string(&p) {
                // code only: stop at the unit-test module
                let code = text.split("#[cfg(test)]").next().unwrap_or("");
                for tok in code.split(|c: char| !(c.is_ascii_alphanumeric() || c == '_')) {
                    if known.contains(tok) {
                        referenced.insert(tok.to_string());
                    }
                }
            }
        }
    }
    // string literals of the crate's code (same files, test modules excluded): names at which behaviour may branch
    // (section-name prefixes and the like); used as section names and by-name queries
    let mut strings: std::collections::BTreeSet<String> = std::collections::BTreeSet::new();
    if let Ok(rd) = std::fs::read_dir(format!("{repo}/src")) {
        for e in rd.flatten() {
            let p = e.path();
            let fname = p.file_name().and_then(|x| x.to_str()).unwrap_or("").to_string();
            if !fname.ends_with(".rs") || fname == "abi.rs" || fname == "to_str.rs" {
                continue;
            }
            if let Ok(text) = std::fs::read_to_string(&p) {
                let code = text.split("#[cfg(test)]").next().unwrap_or("");
                for line in code.lines() {
                    let l = line.trim_start();
                    if l.starts_with("//") || l.starts_with("#[") || l.contains("panic!") || l.contains("write!") || l.contains("format!") || l.contains("expect(") || l.contains("feature") || l.contains("cfg") {
                        continue;
                    }
                    let mut rest = l;
                    while let Some(a) = rest.find('"') {
                        let after = &rest[a + 1..];
                        let Some(b) = after.find('"') else { break };
                        let lit = &after[..b];
                        if (2..=24).contains(&lit.len()) && lit.bytes().all(|c| (0x21..0x7f).contains(&c) && c != b'\\' && c != b'{' && c != b'}') {
                            strings.insert(lit.to_string());
                        }
                        rest = &after[b + 1..];
                    }
                }
            }
        }
    }
    out.push_str("pub static SRC_STRINGS: &[&str] = &[\n");
    for r in strings.iter().take(64) {
        let _ = writeln!(out, "    \"{r}\",");
    }
    out.push_str("];\n");
    out.push_str("pub static ABI_REFERENCED: &[&str] = &[\n");
    for r in &referenced {
        let _ = writeln!(out, "    \"{r}\",");
    }
    out.push_str("];\n");
    let dir = std::env::var("OUT_DIR").unwrap();
    std::fs::write(format!("{dir}/abi_table.rs"), out).unwrap();
}

//! Independent integer codec and ABI structure layouts.
//!
//! Nothing here uses the crate under test or `from_le_bytes`/`from_be_bytes`: integers are
//! assembled by shifts, and the field lists are typed in from the System V gABI (chapter 4/5)
//! and the GNU symbol-versioning / gnu-hash documents.

#[derive(Clone, Copy, Debug, PartialEq, Eq, Hash)]
pub struct Enc {
    pub c64: bool,
    pub big: bool,
}

impl Enc {
    pub const ALL: [Enc; 4] = [
        Enc { c64: false, big: false },
        Enc { c64: false, big: true },
        Enc { c64: true, big: false },
        Enc { c64: true, big: true },
    ];
    pub fn name(&self) -> &'static str {
        match (self.c64, self.big) {
            (false, false) => "ELF32LSB",
            (false, true) => "ELF32MSB",
            (true, false) => "ELF64LSB",
            (true, true) => "ELF64MSB",
        }
    }
    pub fn idx(&self) -> usize {
        (self.c64 as usize) * 2 + self.big as usize
    }
    /// size of Elf_Addr / Elf_Off / Elf_Xword-or-Word for the class
    pub fn word(&self) -> usize {
        if self.c64 { 8 } else { 4 }
    }
    pub fn put(&self, out: &mut Vec<u8>, v: u64, width: usize) {
        put_int(out, v, width, self.big)
    }
    pub fn put_at(&self, buf: &mut [u8], off: usize, v: u64, width: usize) {
        for i in 0..width {
            let shift = if self.big { 8 * (width - 1 - i) } else { 8 * i };
            buf[off + i] = ((v >> shift) & 0xff) as u8;
        }
    }
    pub fn get(&self, buf: &[u8], off: usize, width: usize) -> Option<u64> {
        get_int(buf, off, width, self.big)
    }
}

pub fn put_int(out: &mut Vec<u8>, v: u64, width: usize, big: bool) {
    for i in 0..width {
        let shift = if big { 8 * (width - 1 - i) } else { 8 * i };
        out.push(((v >> shift) & 0xff) as u8);
    }
}

/// Reference integer read: value whose bytes, in the given order, are buf[off..off+width].
pub fn get_int(buf: &[u8], off: usize, width: usize, big: bool) -> Option<u64> {
    let end = off.checked_add(width)?;
    if end > buf.len() {
        return None;
    }
    let mut v: u64 = 0;
    for i in 0..width {
        let b = buf[off + i] as u64;
        let shift = if big { 8 * (width - 1 - i) } else { 8 * i };
        v |= b << shift;
    }
    Some(v)
}

/// Sign-extend a `width`-byte two's-complement pattern to i64.
pub fn sext(v: u64, width: usize) -> i64 {
    if width >= 8 {
        return v as i64;
    }
    let bits = 8 * width as u32;
    let sign = 1u64 << (bits - 1);
    if v & sign != 0 {
        (v | (!0u64 << bits)) as i64
    } else {
        v as i64
    }
}

pub fn mask(width: usize) -> u64 {
    if width >= 8 { u64::MAX } else { (1u64 << (8 * width)) - 1 }
}

#[derive(Clone, Copy, Debug, PartialEq, Eq, Hash)]
pub enum St {
    EhdrTail,
    Shdr,
    Phdr,
    Sym,
    Rel,
    Rela,
    Dyn,
    Chdr,
    Nhdr,
    SysvHashHdr,
    GnuHashHdr,
    Versym,
    Verdef,
    Verdaux,
    Verneed,
    Vernaux,
    AbiTag,
    Word32,
    Word64,
}

pub const ALL_ST: [St; 17] = [
    St::EhdrTail, St::Shdr, St::Phdr, St::Sym, St::Rel, St::Rela, St::Dyn, St::Chdr, St::Nhdr,
    St::SysvHashHdr, St::GnuHashHdr, St::Versym, St::Verdef, St::Verdaux, St::Verneed, St::Vernaux, St::AbiTag,
];

#[derive(Clone, Copy, Debug)]
pub struct FieldDef {
    pub name: &'static str,
    pub w: usize,
    pub signed: bool,
}

const fn f(name: &'static str, w: usize) -> FieldDef {
    FieldDef { name, w, signed: false }
}
const fn s(name: &'static str, w: usize) -> FieldDef {
    FieldDef { name, w, signed: true }
}

// ---- gABI figure 4-3 (after e_ident) -------------------------------------------------
static EHDR_TAIL32: [FieldDef; 13] = [
    f("e_type", 2), f("e_machine", 2), f("e_version", 4), f("e_entry", 4), f("e_phoff", 4), f("e_shoff", 4),
    f("e_flags", 4), f("e_ehsize", 2), f("e_phentsize", 2), f("e_phnum", 2), f("e_shentsize", 2), f("e_shnum", 2), f("e_shstrndx", 2),
];
static EHDR_TAIL64: [FieldDef; 13] = [
    f("e_type", 2), f("e_machine", 2), f("e_version", 4), f("e_entry", 8), f("e_phoff", 8), f("e_shoff", 8),
    f("e_flags", 4), f("e_ehsize", 2), f("e_phentsize", 2), f("e_phnum", 2), f("e_shentsize", 2), f("e_shnum", 2), f("e_shstrndx", 2),
];
// ---- gABI figure 4-8 ----------------------------------------------------------------
static SHDR32: [FieldDef; 10] = [
    f("sh_name", 4), f("sh_type", 4), f("sh_flags", 4), f("sh_addr", 4), f("sh_offset", 4), f("sh_size", 4),
    f("sh_link", 4), f("sh_info", 4), f("sh_addralign", 4), f("sh_entsize", 4),
];
static SHDR64: [FieldDef; 10] = [
    f("sh_name", 4), f("sh_type", 4), f("sh_flags", 8), f("sh_addr", 8), f("sh_offset", 8), f("sh_size", 8),
    f("sh_link", 4), f("sh_info", 4), f("sh_addralign", 8), f("sh_entsize", 8),
];
// ---- gABI figure 5-1 ----------------------------------------------------------------
static PHDR32: [FieldDef; 8] = [
    f("p_type", 4), f("p_offset", 4), f("p_vaddr", 4), f("p_paddr", 4), f("p_filesz", 4), f("p_memsz", 4), f("p_flags", 4), f("p_align", 4),
];
static PHDR64: [FieldDef; 8] = [
    f("p_type", 4), f("p_flags", 4), f("p_offset", 8), f("p_vaddr", 8), f("p_paddr", 8), f("p_filesz", 8), f("p_memsz", 8), f("p_align", 8),
];
// ---- gABI figure 4-16 ---------------------------------------------------------------
static SYM32: [FieldDef; 6] = [f("st_name", 4), f("st_value", 4), f("st_size", 4), f("st_info", 1), f("st_other", 1), f("st_shndx", 2)];
static SYM64: [FieldDef; 6] = [f("st_name", 4), f("st_info", 1), f("st_other", 1), f("st_shndx", 2), f("st_value", 8), f("st_size", 8)];
// ---- gABI figure 4-21 ---------------------------------------------------------------
static REL32: [FieldDef; 2] = [f("r_offset", 4), f("r_info", 4)];
static REL64: [FieldDef; 2] = [f("r_offset", 8), f("r_info", 8)];
static RELA32: [FieldDef; 3] = [f("r_offset", 4), f("r_info", 4), s("r_addend", 4)];
static RELA64: [FieldDef; 3] = [f("r_offset", 8), f("r_info", 8), s("r_addend", 8)];
// ---- gABI figure 5-9 ----------------------------------------------------------------
static DYN32: [FieldDef; 2] = [s("d_tag", 4), f("d_un", 4)];
static DYN64: [FieldDef; 2] = [s("d_tag", 8), f("d_un", 8)];
// ---- gABI "Compressed section header" -----------------------------------------------
static CHDR32: [FieldDef; 3] = [f("ch_type", 4), f("ch_size", 4), f("ch_addralign", 4)];
static CHDR64: [FieldDef; 4] = [f("ch_type", 4), f("ch_reserved", 4), f("ch_size", 8), f("ch_addralign", 8)];
// ---- note header: three 4-byte words in both classes (as emitted by gcc/clang/binutils) --
static NHDR: [FieldDef; 3] = [f("n_namesz", 4), f("n_descsz", 4), f("n_type", 4)];
// ---- hash tables --------------------------------------------------------------------
static SYSVHASH: [FieldDef; 2] = [f("nbucket", 4), f("nchain", 4)];
static GNUHASH: [FieldDef; 4] = [f("nbucket", 4), f("symoffset", 4), f("bloom_size", 4), f("bloom_shift", 4)];
// ---- GNU symbol versioning (LSB "Symbol Versioning") ----------------------------------
static VERSYM: [FieldDef; 1] = [f("versym", 2)];
static VERDEF: [FieldDef; 7] = [f("vd_version", 2), f("vd_flags", 2), f("vd_ndx", 2), f("vd_cnt", 2), f("vd_hash", 4), f("vd_aux", 4), f("vd_next", 4)];
static VERDAUX: [FieldDef; 2] = [f("vda_name", 4), f("vda_next", 4)];
static VERNEED: [FieldDef; 5] = [f("vn_version", 2), f("vn_cnt", 2), f("vn_file", 4), f("vn_aux", 4), f("vn_next", 4)];
static VERNAUX: [FieldDef; 5] = [f("vna_hash", 4), f("vna_flags", 2), f("vna_other", 2), f("vna_name", 4), f("vna_next", 4)];
static WORD32: [FieldDef; 1] = [f("v", 4)];
static WORD64: [FieldDef; 1] = [f("v", 8)];
static ABITAG: [FieldDef; 4] = [f("os", 4), f("major", 4), f("minor", 4), f("subminor", 4)];

pub fn layout(st: St, c64: bool) -> &'static [FieldDef] {
    match (st, c64) {
        (St::EhdrTail, false) => &EHDR_TAIL32,
        (St::EhdrTail, true) => &EHDR_TAIL64,
        (St::Shdr, false) => &SHDR32,
        (St::Shdr, true) => &SHDR64,
        (St::Phdr, false) => &PHDR32,
        (St::Phdr, true) => &PHDR64,
        (St::Sym, false) => &SYM32,
        (St::Sym, true) => &SYM64,
        (St::Rel, false) => &REL32,
        (St::Rel, true) => &REL64,
        (St::Rela, false) => &RELA32,
        (St::Rela, true) => &RELA64,
        (St::Dyn, false) => &DYN32,
        (St::Dyn, true) => &DYN64,
        (St::Chdr, false) => &CHDR32,
        (St::Chdr, true) => &CHDR64,
        (St::Nhdr, _) => &NHDR,
        (St::SysvHashHdr, _) => &SYSVHASH,
        (St::GnuHashHdr, _) => &GNUHASH,
        (St::Versym, _) => &VERSYM,
        (St::Verdef, _) => &VERDEF,
        (St::Verdaux, _) => &VERDAUX,
        (St::Verneed, _) => &VERNEED,
        (St::Vernaux, _) => &VERNAUX,
        (St::AbiTag, _) => &ABITAG,
        (St::Word32, _) => &WORD32,
        (St::Word64, _) => &WORD64,
    }
}

pub fn size_of(st: St, c64: bool) -> usize {
    layout(st, c64).iter().map(|f| f.w).sum()
}

pub fn field_index(st: St, c64: bool, name: &str) -> usize {
    layout(st, c64)
        .iter()
        .position(|f| f.name == name)
        .unwrap_or_else(|| panic!("no field {name} in {st:?}"))
}

/// byte offset of a field inside the structure
pub fn field_offset(st: St, c64: bool, name: &str) -> usize {
    let mut off = 0;
    for fd in layout(st, c64) {
        if fd.name == name {
            return off;
        }
        off += fd.w;
    }
    panic!("no field {name} in {st:?}")
}

/// A record: raw (unsigned, width-truncated) field values in layout order.
#[derive(Clone, Debug, PartialEq, Eq)]
pub struct Rec {
    pub st: St,
    pub c64: bool,
    pub v: Vec<u64>,
}

impl Rec {
    pub fn zero(st: St, c64: bool) -> Rec {
        Rec { st, c64, v: vec![0; layout(st, c64).len()] }
    }
    pub fn get(&self, name: &str) -> u64 {
        self.v[field_index(self.st, self.c64, name)]
    }
    /// value as the crate's 64-bit native representation should hold it
    pub fn native(&self, name: &str) -> i128 {
        let i = field_index(self.st, self.c64, name);
        let fd = layout(self.st, self.c64)[i];
        if fd.signed { sext(self.v[i], fd.w) as i128 } else { self.v[i] as i128 }
    }
    pub fn set(&mut self, name: &str, val: u64) -> &mut Self {
        let i = field_index(self.st, self.c64, name);
        let w = layout(self.st, self.c64)[i].w;
        self.v[i] = val & mask(w);
        self
    }
    pub fn with(mut self, name: &str, val: u64) -> Self {
        self.set(name, val);
        self
    }
    pub fn encode(&self, enc: Enc, out: &mut Vec<u8>) {
        debug_assert_eq!(enc.c64, self.c64);
        for (fd, v) in layout(self.st, self.c64).iter().zip(self.v.iter()) {
            enc.put(out, *v, fd.w);
        }
    }
    pub fn bytes(&self, enc: Enc) -> Vec<u8> {
        let mut o = Vec::new();
        self.encode(enc, &mut o);
        o
    }
    pub fn decode(st: St, enc: Enc, buf: &[u8], off: usize) -> Option<Rec> {
        let mut v = Vec::new();
        let mut o = off;
        for fd in layout(st, enc.c64) {
            v.push(enc.get(buf, o, fd.w)?);
            o = o.checked_add(fd.w)?;
        }
        Some(Rec { st, c64: enc.c64, v })
    }
}

// constants the generators/reference need; typed in from the gABI, not taken from the crate
pub mod k {
    pub const EI_NIDENT: usize = 16;
    pub const SHT_NULL: u32 = 0;
    pub const SHT_PROGBITS: u32 = 1;
    pub const SHT_SYMTAB: u32 = 2;
    pub const SHT_STRTAB: u32 = 3;
    pub const SHT_RELA: u32 = 4;
    pub const SHT_HASH: u32 = 5;
    pub const SHT_DYNAMIC: u32 = 6;
    pub const SHT_NOTE: u32 = 7;
    pub const SHT_NOBITS: u32 = 8;
    pub const SHT_REL: u32 = 9;
    pub const SHT_DYNSYM: u32 = 11;
    pub const SHT_GNU_HASH: u32 = 0x6fff_fff6;
    pub const SHT_GNU_VERDEF: u32 = 0x6fff_fffd;
    pub const SHT_GNU_VERNEED: u32 = 0x6fff_fffe;
    pub const SHT_GNU_VERSYM: u32 = 0x6fff_ffff;
    pub const SHF_COMPRESSED: u64 = 0x800;
    pub const PT_LOAD: u32 = 1;
    pub const PT_DYNAMIC: u32 = 2;
    pub const PT_NOTE: u32 = 4;
    pub const SHN_LORESERVE: u64 = 0xff00;
    pub const SHN_XINDEX: u64 = 0xffff;
    pub const PN_XNUM: u64 = 0xffff;
    pub const NT_GNU_ABI_TAG: u64 = 1;
    pub const NT_GNU_BUILD_ID: u64 = 3;
}

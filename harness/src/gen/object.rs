//! Random but well-formed ELF objects with a semantic model of their contents, built on
//! the writer in `elf.rs` and the content builders (symtab, hash, notes, symver).
use crate::codec::{k, size_of, Enc, Rec, St};
use crate::gen::elf::{ObjSpec, Part, Place, Sec, Seg, SegRange};
use crate::gen::hash::{build_gnu, build_sysv, gnu_sort, GnuParams};
use crate::gen::notes::{self, NoteModel};
use crate::gen::symtab::{self, SymTab};
use crate::gen::symver::{self, VersionBytes, VersionModel};
use crate::rng::Rng;

#[derive(Clone, Debug, Default)]
pub struct GenOpts {
    /// sections/segments whose ranges overlap, share a start/end, are empty, touch or cross EOF
    pub weird_views: bool,
    pub compressed: bool,
    /// section names that are prefixes/suffixes of each other, duplicated, empty, non-UTF-8
    pub name_games: bool,
    /// header tables right after the ELF header (so that most prefixes still open)
    pub early_tables: bool,
    /// upper bound on symbol counts
    pub max_syms: usize,
    /// probability (per 8) that each optional component is present
    pub density: u64,
    /// never emit section headers (PT_DYNAMIC-only objects)
    pub no_shdrs: bool,
    /// ragged section sizes (trailing partial entries in entry tables)
    pub ragged: bool,
    /// shuffle the order of the sections in the table (links are remapped)
    pub shuffle_sections: bool,
    /// shapes the reference models do not cover (only for relation-based checks: stream vs slice, prefix vs full,
    /// fault vs fault-free, walkers): second sections of the kinds that exist "at most once" (symbol tables, hashes,
    /// .dynamic, version sections), possibly with a broken field, anywhere in the table; a .dynamic whose header was
    /// turned into NOBITS/PROGBITS (objcopy --only-keep-debug shape) while PT_DYNAMIC still designates its bytes
    pub unmodelled_shapes: bool,
    /// the .dynamic section also carries the entries a link editor writes for what the object contains (DT_HASH,
    /// DT_GNU_HASH, DT_SYMTAB, DT_SYMENT, DT_STRTAB, DT_STRSZ, DT_VERSYM, DT_VERNEED(NUM), DT_VERDEF(NUM)): counts and
    /// sizes exact, addresses mapped by a PT_LOAD over the whole file
    pub link_dynamic: bool,
}

impl GenOpts {
    pub fn standard() -> GenOpts {
        GenOpts { weird_views: true, compressed: true, name_games: false, early_tables: false, max_syms: 24, density: 5, no_shdrs: false, ragged: true, shuffle_sections: true, unmodelled_shapes: false, link_dynamic: true }
    }
    pub fn unmodelled() -> GenOpts {
        GenOpts { unmodelled_shapes: true, ..GenOpts::standard() }
    }
}

#[derive(Clone, Debug)]
pub struct NoteSec {
    pub sec: usize,
    pub align: u64,
    pub model: Vec<NoteModel>,
    pub seg: Option<usize>,
}

#[derive(Clone, Debug, Default)]
pub struct ObjModel {
    pub symtab: Option<(usize, SymTab)>,
    pub dynsym: Option<(usize, SymTab)>,
    pub sysv_hash: Option<usize>,
    pub gnu_hash: Option<(usize, GnuParams)>,
    pub dynamic: Option<(usize, Vec<(u64, u64)>)>,
    pub dynamic_seg: Option<usize>,
    pub versions: Option<(VersionModel, VersionBytes)>,
    pub notes: Vec<NoteSec>,
    pub rels: Vec<usize>,
    pub relas: Vec<usize>,
    pub compressed: Vec<usize>,
    pub nobits: Vec<usize>,
    pub views: Vec<usize>,
}

/// p_memsz is the size of the segment in memory, which no file-level accessor looks at: equal to p_filesz, larger (a
/// .bss tail), smaller or zero (core-file notes), or anything
fn memsz_extra(rng: &mut Rng) -> u64 {
    match rng.below(7) {
        0 | 1 => 0,
        2 => rng.below(5),
        3 => 8 * (1 + rng.below(8)),
        4 => rng.below(40).wrapping_neg(),
        5 => 0x1000 + rng.below(0x1000),
        _ => rng.boundary(64),
    }
}

fn has(rng: &mut Rng, o: &GenOpts) -> bool {
    rng.below(8) < o.density
}

pub fn dyn_bytes(enc: Enc, entries: &[(u64, u64)]) -> Vec<u8> {
    let mut out = Vec::new();
    for (t, v) in entries {
        Rec::zero(St::Dyn, enc.c64).with("d_tag", *t).with("d_un", *v).encode(enc, &mut out);
    }
    out
}

pub fn gen_object(rng: &mut Rng, enc: Enc, o: &GenOpts) -> (ObjSpec, ObjModel) {
    let mut spec = ObjSpec::new(enc);
    let mut m = ObjModel::default();
    // the identity fields of the header carry named constants: common values, any exported constant of the family,
    // the ones the crate's code mentions, or anything
    spec.e_type = crate::abi_table::pick(rng, "ET_", &[1, 2, 3, 4], 16) as u16;
    spec.e_machine = crate::abi_table::pick(rng, "EM_", &[3, 40, 62, 183, 243, 8, 20], 16) as u16;
    spec.e_flags = rng.next_u32();
    spec.e_entry = rng.boundary(if enc.c64 { 64 } else { 32 });
    spec.osabi = crate::abi_table::pick(rng, "ELFOSABI_", &[0, 3, 9], 8) as u8;
    spec.abiversion = if rng.chance(3, 4) { 0 } else { rng.next_u64() as u8 };
    spec.max_gap = [0usize, 0, 3, 16][rng.usize_below(4)];
    spec.trailing = if rng.chance(1, 4) { rng.usize_below(16) } else { 0 };
    let mut order = [Part::Phdrs, Part::Bodies, Part::Shdrs];
    if o.early_tables {
        order = if rng.bool() { [Part::Phdrs, Part::Shdrs, Part::Bodies] } else { [Part::Shdrs, Part::Phdrs, Part::Bodies] };
    } else {
        rng.shuffle(&mut order);
    }
    spec.order = order;
    spec.has_shdrs = !o.no_shdrs;
    spec.has_phdrs = o.no_shdrs || rng.chance(7, 8);
    let symsize = size_of(St::Sym, enc.c64) as u64;
    let align_choices = [1usize, 1, 4, 8, 16];

    // plain content
    if has(rng, o) {
        let n = rng.usize_below(80);
        let mut s = Sec::new(b".text", k::SHT_PROGBITS, rng.bytes(n));
        s.flags = 6;
        s.addr = 0x1000;
        s.addralign = 16;
        s.file_align = *rng.pick(&align_choices);
        spec.add(s);
    }

    // .dynsym/.dynstr (+ hashes, versions)
    if has(rng, o) {
        let mut names = symtab::gen_names(rng, o.max_syms.max(1), true);
        let gp = if has(rng, o) {
            let nsyms = names.len();
            let p = GnuParams {
                nbucket: 1 + rng.below(nsyms as u64 + 2) as u32,
                symoffset: (1 + rng.below(nsyms as u64) as u32).min(nsyms as u32),
                bloom_size: 1 << rng.below(4),
                shift: rng.below(32) as u32,
            };
            gnu_sort(&mut names, &p);
            Some(p)
        } else {
            None
        };
        let tab = symtab::build(enc, &names, rng);
        let mut dynstr = Sec::new(b".dynstr", k::SHT_STRTAB, tab.strtab.clone());
        dynstr.flags = 2;
        // the string table either precedes its symbol table or follows it directly, then sometimes placed at the
        // next multiple of its own sh_addralign (padding bytes between the two bodies belong to neither)
        let str_after = rng.bool();
        if str_after && rng.bool() {
            dynstr.file_align = *rng.pick(&[4usize, 8, 16, 64]);
            dynstr.addralign = dynstr.file_align as u64;
        }
        let mut body = tab.symtab.clone();
        if o.ragged && rng.chance(1, 8) {
            let extra = rng.usize_below(symsize as usize);
            body.extend_from_slice(&rng.bytes(extra));
        }
        let mut dynsym = Sec::new(b".dynsym", k::SHT_DYNSYM, body);
        dynsym.info = 1;
        dynsym.entsize = symsize;
        dynsym.addralign = 8;
        dynsym.file_align = *rng.pick(&align_choices);
        let dynsym_idx = if str_after {
            let next = spec.secs.len() + 1;
            dynsym.link = (next + 1) as u32;
            let i = spec.add(dynsym);
            spec.add(dynstr);
            i
        } else {
            let dynstr_idx = spec.add(dynstr);
            dynsym.link = dynstr_idx as u32;
            spec.add(dynsym)
        };
        if has(rng, o) {
            let nbucket = 1 + rng.below(names.len() as u64 + 2) as u32;
            let mut h = Sec::new(b".hash", k::SHT_HASH, build_sysv(enc, &names, nbucket));
            h.link = dynsym_idx as u32;
            h.entsize = 4;
            m.sysv_hash = Some(spec.add(h));
        }
        if let Some(p) = gp {
            let mut h = Sec::new(b".gnu.hash", k::SHT_GNU_HASH, build_gnu(enc, &names, &p));
            h.link = dynsym_idx as u32;
            m.gnu_hash = Some((spec.add(h), p));
        }
        // versions
        if has(rng, o) {
            let mut vm = symver::gen_model(rng, 5, 4, 5);
            vm.versym.resize(names.len(), 1);
            let scattered = rng.chance(1, 3);
            let split = rng.chance(1, 3);
            let vb = symver::emit_opt(enc, &vm, rng, scattered, split);
            let verstr = spec.add(Sec::new(b".gnu.verstr", k::SHT_STRTAB, vb.strtab.clone()));
            let defstr = match &vb.strtab_def {
                Some(t) => spec.add(Sec::new(b".gnu.defstr", k::SHT_STRTAB, t.clone())),
                None => verstr,
            };
            let mut vs = Sec::new(b".gnu.version", k::SHT_GNU_VERSYM, vb.versym.clone());
            vs.link = dynsym_idx as u32;
            vs.entsize = 2;
            vs.addralign = 2;
            spec.add(vs);
            if vm.has_needs {
                let mut vr = Sec::new(b".gnu.version_r", k::SHT_GNU_VERNEED, vb.verneed.clone());
                vr.link = verstr as u32;
                vr.info = vm.needs.len() as u32;
                spec.add(vr);
            }
            if vm.has_defs {
                let mut vd = Sec::new(b".gnu.version_d", k::SHT_GNU_VERDEF, vb.verdef.clone());
                vd.link = defstr as u32;
                vd.info = vm.defs.len() as u32;
                spec.add(vd);
            }
            m.versions = Some((vm, vb));
        }
        m.dynsym = Some((dynsym_idx, tab));
    }

    // .symtab/.strtab
    if has(rng, o) {
        let names = symtab::gen_names(rng, o.max_syms.max(1), false);
        let tab = symtab::build(enc, &names, rng);
        // symtab before its strtab: sh_link points forward
        let idx = spec.secs.len() + 1;
        let mut st = Sec::new(b".symtab", k::SHT_SYMTAB, tab.symtab.clone());
        st.link = (idx + 1) as u32;
        st.entsize = symsize;
        st.info = 1;
        st.file_align = *rng.pick(&align_choices);
        let st_idx = spec.add(st);
        let mut strs = Sec::new(b".strtab", k::SHT_STRTAB, tab.strtab.clone());
        if rng.bool() {
            strs.file_align = *rng.pick(&[4usize, 8, 16, 64]);
            strs.addralign = strs.file_align as u64;
        }
        spec.add(strs);
        m.symtab = Some((st_idx, tab));
    }

    // .dynamic
    if has(rng, o) {
        let n = rng.usize_below(12);
        let mut entries: Vec<(u64, u64)> = Vec::new();
        for _ in 0..n {
            let tag = match rng.below(6) {
                0 => rng.boundary(if enc.c64 { 64 } else { 32 }),
                1 => 0x6fff_fffe,
                2 => crate::abi_table::pick(rng, "DT_", &[1, 5, 6, 10, 11, 14, 0x6fff_fef5], 64) & if enc.c64 { u64::MAX } else { 0xffff_ffff },
                _ => 1 + rng.below(35),
            };
            entries.push((tag, rng.boundary(if enc.c64 { 64 } else { 32 })));
        }
        entries.push((0, 0));
        let mut d = Sec::new(b".dynamic", k::SHT_DYNAMIC, dyn_bytes(enc, &entries));
        d.entsize = size_of(St::Dyn, enc.c64) as u64;
        d.flags = 3;
        d.file_align = *rng.pick(&align_choices);
        let idx = spec.add(d);
        m.dynamic = Some((idx, entries));
    }

    // relocations
    for (name, ty, st) in [(&b".rel.dyn"[..], k::SHT_REL, St::Rel), (&b".rela.dyn"[..], k::SHT_RELA, St::Rela)] {
        if has(rng, o) {
            let es = size_of(st, enc.c64);
            let n = rng.usize_below(10);
            let tail = if o.ragged && rng.chance(1, 6) { rng.usize_below(es) } else { 0 };
            let mut s = Sec::new(name, ty, rng.bytes(n * es + tail));
            s.entsize = es as u64;
            let idx = spec.add(s);
            if ty == k::SHT_REL { m.rels.push(idx) } else { m.relas.push(idx) }
        }
    }

    // notes
    let n_note_secs = if has(rng, o) { 1 + rng.usize_below(2) } else { 0 };
    for j in 0..n_note_secs {
        let align = [4u64, 4, 8, 1, 16][rng.usize_below(5)];
        let model = notes::gen_model(rng, enc, 5);
        let body = notes::emit(enc, align as usize, &model, rng, true);
        let mut s = Sec::new(if j == 0 { b".note.a" } else { b".note.b" }, k::SHT_NOTE, body);
        s.addralign = align;
        s.file_align = align as usize;
        s.flags = 2;
        let idx = spec.add(s);
        m.notes.push(NoteSec { sec: idx, align, model, seg: None });
    }

    // NOBITS
    if has(rng, o) {
        let mut s = Sec::new(b".bss", k::SHT_NOBITS, Vec::new());
        s.size_override = Some(rng.boundary(if enc.c64 { 64 } else { 32 }));
        s.flags = 3;
        m.nobits.push(spec.add(s));
    }

    // compressed section: chdr + payload (sometimes shorter than a chdr)
    if o.compressed && has(rng, o) {
        let mut body = Vec::new();
        Rec::zero(St::Chdr, enc.c64)
            .with("ch_type", [1u64, 2, 0x6000_0000][rng.usize_below(3)])
            .with("ch_size", rng.boundary(if enc.c64 { 64 } else { 32 }))
            .with("ch_addralign", 1 << rng.below(6))
            .encode(enc, &mut body);
        if enc.c64 {
            // ch_reserved carries arbitrary bytes
            let r = rng.next_u64();
            enc.put_at(&mut body, 4, r, 4);
        }
        // what follows the header: usually opaque bytes; sometimes bytes that are well formed for the section's own
        // type (the typed views of a flagged section read what is behind the header, governed by the *section*
        // header's fields, whatever ch_addralign says)
        let mut s = Sec::new(b".zdebug", k::SHT_PROGBITS, Vec::new());
        match rng.below(8) {
            0 | 1 => {
                let align = [4u64, 8, 4, 1, 16, 0][rng.usize_below(6)];
                let model = notes::gen_model(rng, enc, 4);
                body.extend_from_slice(&notes::emit(enc, align as usize, &model, rng, true));
                s.sh_type = k::SHT_NOTE;
                s.addralign = align;
                s.name = b".znote".to_vec();
            }
            2 => {
                let names = symtab::gen_names(rng, 4, false);
                body.push(0);
                for n in &names {
                    body.extend_from_slice(n);
                    body.push(0);
                }
                s.sh_type = k::SHT_STRTAB;
                s.name = b".zstr".to_vec();
            }
            3 => {
                let (ty, stt) = if rng.bool() { (k::SHT_REL, St::Rel) } else { (k::SHT_RELA, St::Rela) };
                let n = rng.usize_below(6);
                body.extend_from_slice(&rng.bytes(n * size_of(stt, enc.c64)));
                s.sh_type = ty;
                s.entsize = size_of(stt, enc.c64) as u64;
                s.name = b".zrel".to_vec();
            }
            _ => {
                let pl = rng.usize_below(40);
                body.extend_from_slice(&rng.bytes(pl));
                if rng.chance(1, 6) {
                    let cut = rng.usize_below(size_of(St::Chdr, enc.c64));
                    body.truncate(cut);
                }
            }
        }
        s.body = body;
        s.flags = k::SHF_COMPRESSED;
        m.compressed.push(spec.add(s));
    }

    if has(rng, o) {
        let n = rng.usize_below(60);
        let mut s = Sec::new(b".data", k::SHT_PROGBITS, rng.bytes(n));
        s.flags = 3;
        spec.add(s);
    }

    // views: overlapping / shared start / shared end / empty / EOF-touching / out of file
    if o.weird_views && !spec.secs.is_empty() {
        let nviews = rng.usize_below(5);
        for _ in 0..nviews {
            let base = 1 + rng.usize_below(spec.secs.len());
            let blen = spec.secs[base - 1].body.len() as u64;
            let place = match rng.below(9) {
                0 => Place::ShareStart(base, rng.below(blen + 3)),
                1 => Place::ShareStart(base, blen + rng.below(40)),
                2 => Place::ShareEnd(base, rng.below(blen + 1)),
                3 => Place::ShareEnd(base, 0),
                4 => Place::TouchEof(rng.below(24)),
                5 => Place::PastEof(1 + rng.below(24), 1),
                6 => Place::PastEof(rng.below(24), 1 + rng.below(9)),
                7 => Place::Abs(rng.boundary(if enc.c64 { 64 } else { 32 }), rng.boundary(if enc.c64 { 64 } else { 32 })),
                _ => Place::ShareStart(base, 0),
            };
            let ty = [k::SHT_PROGBITS, k::SHT_PROGBITS, k::SHT_STRTAB, k::SHT_NOTE, k::SHT_REL, k::SHT_RELA][rng.usize_below(6)];
            let mut s = Sec::view(format!(".view{}", spec.secs.len()).as_bytes(), ty, place);
            s.addralign = [0u64, 1, 4, 8][rng.usize_below(4)];
            m.views.push(spec.add(s));
        }
    }

    // a long section name now and then (-ffunction-sections style: .text.<mangled name>)
    if !spec.secs.is_empty() && rng.chance(1, 5) {
        let i = rng.usize_below(spec.secs.len());
        let n = *rng.pick(&[60usize, 64, 70, 130, 300]);
        let mut name = spec.secs[i].name.clone();
        name.push(b'.');
        while name.len() < n {
            name.push(b"_ZN3fooE4bar1"[name.len() % 13]);
        }
        spec.secs[i].name = name;
    }

    // names built from the string literals of the crate's own code (prefixes it may treat specially), with a few
    // common tails, so that such a section exists next to queries for its siblings
    if !spec.secs.is_empty() && !crate::abi_table::SRC_STRINGS.is_empty() && rng.chance(1, 6) {
        let i = rng.usize_below(spec.secs.len());
        let lit = crate::abi_table::SRC_STRINGS[rng.usize_below(crate::abi_table::SRC_STRINGS.len())];
        let mut name = lit.as_bytes().to_vec();
        name.extend_from_slice(*rng.pick(&[&b""[..], b"info", b"info", b"x", b"_str"]));
        spec.secs[i].name = name;
    }

    // a section name ending in a boundary byte now and then
    if !spec.secs.is_empty() && rng.chance(1, 8) {
        let i = rng.usize_below(spec.secs.len());
        let b = *rng.pick(&[0x01u8, 0x01, 0x7f, 0x80, 0xff]);
        spec.secs[i].name.push(b);
    }

    // section-name games
    if o.name_games {
        let n = spec.secs.len();
        for i in 0..n {
            if rng.chance(1, 3) {
                let other = spec.secs[rng.usize_below(n)].name.clone();
                spec.secs[i].name = match rng.below(7) {
                    0 => other,                                                     // duplicate
                    1 if !other.is_empty() => other[..other.len() - 1].to_vec(),    // proper prefix
                    2 if !other.is_empty() => other[1..].to_vec(),                  // proper suffix
                    3 => { let mut v = other; v.push(b'x'); v }                     // extension
                    4 => Vec::new(),                                                // empty
                    6 if !other.is_empty() && rng.bool() => {
                        // another name with the same GNU hash (and one with the same SysV hash is a prefix game away)
                        let mut v = b".c".to_vec();
                        let target = crate::reference::hash::ref_gnu_hash(&other);
                        let suf = symtab::gnu_suffix_for(&v, target);
                        v.extend_from_slice(&suf);
                        v
                    }
                    5 if rng.bool() => vec![b'.', 0xff, 0xfe, b'a'],                // non-UTF-8
                    5 => { let mut v = other; v.push(*rng.pick(&[0x01u8, 0x01, 0x7f, 0x80, 0xff])); v } // boundary byte before the NUL
                    _ => { let mut v = vec![b'.']; v.extend_from_slice(&other); v }
                };
            }
        }
    }

    if o.unmodelled_shapes && rng.chance(1, 2) {
        let special = [k::SHT_SYMTAB, k::SHT_DYNSYM, k::SHT_DYNAMIC, k::SHT_HASH, k::SHT_GNU_HASH, k::SHT_GNU_VERSYM, k::SHT_GNU_VERNEED, k::SHT_GNU_VERDEF];
        for _ in 0..1 + rng.usize_below(2) {
            let cands: Vec<usize> = (0..spec.secs.len()).filter(|i| special.contains(&spec.secs[*i].sh_type)).collect();
            if cands.is_empty() {
                break;
            }
            let src = cands[rng.usize_below(cands.len())];
            let mut d = spec.secs[src].clone();
            d.name.extend_from_slice(b".2");
            if rng.bool() {
                // a second header over the very same bytes
                let len = d.body.len() as u64;
                d.body = Vec::new();
                d.place = Place::ShareStart(src + 1, len);
                // ... sometimes of the sibling kind (two differently typed headers designating the same bytes)
                if rng.chance(1, 3) {
                    d.sh_type = match d.sh_type {
                        t if t == k::SHT_GNU_VERNEED => k::SHT_GNU_VERDEF,
                        t if t == k::SHT_GNU_VERDEF => k::SHT_GNU_VERNEED,
                        t if t == k::SHT_SYMTAB => k::SHT_DYNSYM,
                        t if t == k::SHT_DYNSYM => k::SHT_SYMTAB,
                        t if t == k::SHT_HASH => k::SHT_GNU_HASH,
                        t if t == k::SHT_GNU_HASH => k::SHT_HASH,
                        t => t,
                    };
                }
            }
            match rng.below(6) {
                0 => d.entsize = [0u64, 1, d.entsize + 1, 0xffff][rng.usize_below(4)],
                1 => d.link = rng.below(spec.secs.len() as u64 + 3) as u32,
                2 => d.info = rng.below(9) as u32,
                3 => {
                    let l = d.body.len();
                    d.body.truncate(rng.usize_below(l + 1));
                }
                _ => {}
            }
            spec.add(d);
        }
    }

    if o.shuffle_sections && rng.chance(2, 3) {
        permute_sections(&mut spec, &mut m, rng);
    }

    // segments
    if spec.has_phdrs {
        if !spec.secs.is_empty() && rng.chance(3, 4) {
            let a = 1 + rng.usize_below(spec.secs.len());
            spec.segs.push(Seg { p_type: k::PT_LOAD, flags: 5, range: SegRange::OfSection(a), vaddr: 0x1000, paddr: 0x1000, memsz_extra: rng.below(64), align: 0x1000 });
        }
        for ns in m.notes.iter_mut() {
            if rng.chance(3, 4) {
                ns.seg = Some(spec.segs.len());
                spec.segs.push(Seg { p_type: k::PT_NOTE, flags: 4, range: SegRange::OfSection(ns.sec), vaddr: 0, paddr: 0, memsz_extra: memsz_extra(rng), align: ns.align });
            }
        }
        if let Some((idx, _)) = &m.dynamic {
            // whenever section headers exist, PT_DYNAMIC is accompanied by .dynamic (it is that section)
            if rng.chance(3, 4) || o.no_shdrs {
                m.dynamic_seg = Some(spec.segs.len());
                spec.segs.push(Seg { p_type: k::PT_DYNAMIC, flags: 6, range: SegRange::OfSection(*idx), vaddr: 0x2000, paddr: 0x2000, memsz_extra: memsz_extra(rng), align: 8 });
            }
        }
        if o.weird_views {
            for _ in 0..rng.usize_below(3) {
                let range = match rng.below(5) {
                    0 => SegRange::TouchEof(rng.below(32)),
                    1 => SegRange::PastEof(1 + rng.below(32), 1 + rng.below(4)),
                    2 => SegRange::Abs(rng.boundary(if enc.c64 { 64 } else { 32 }), rng.boundary(if enc.c64 { 64 } else { 32 })),
                    3 if !spec.secs.is_empty() => SegRange::OfSection(1 + rng.usize_below(spec.secs.len())),
                    _ => SegRange::Abs(rng.below(64), 0),
                };
                let p_type = [k::PT_LOAD, k::PT_NOTE, 6, 0x6474_e551][rng.usize_below(4)];
                spec.segs.push(Seg { p_type, flags: rng.below(8) as u32, range, vaddr: rng.next_u64(), paddr: 0, memsz_extra: rng.boundary(32), align: [0u64, 1, 4, 8, 3][rng.usize_below(5)] });
            }
        }
    }
    if o.unmodelled_shapes && spec.has_phdrs && !spec.secs.is_empty() && rng.chance(1, 4) {
        // a second segment of a kind that exists once (PT_DYNAMIC, PT_INTERP, PT_PHDR, PT_TLS), over other bytes, in front
        // of or behind the first one in the table
        let p_type = *rng.pick(&[k::PT_DYNAMIC, k::PT_DYNAMIC, 3u32, 6, 7]);
        let a = 1 + rng.usize_below(spec.secs.len());
        let seg = Seg { p_type, flags: 6, range: SegRange::OfSection(a), vaddr: 0x3000, paddr: 0x3000, memsz_extra: 0, align: 8 };
        if rng.bool() {
            spec.segs.insert(0, seg);
            if let Some(i) = m.dynamic_seg.as_mut() {
                *i += 1;
            }
            for ns in m.notes.iter_mut() {
                if let Some(i) = ns.seg.as_mut() {
                    *i += 1;
                }
            }
        } else {
            spec.segs.push(seg);
        }
    }
    if o.unmodelled_shapes {
        if let (Some((idx, _)), Some(_)) = (&m.dynamic, m.dynamic_seg) {
            if rng.chance(1, 3) {
                spec.secs[*idx - 1].sh_type = if rng.bool() { k::SHT_NOBITS } else { k::SHT_PROGBITS };
            }
        }
    }
    if o.link_dynamic && spec.has_phdrs {
        link_dynamic(&mut spec, &mut m, rng, enc);
    }
    (spec, m)
}

/// Give `.dynamic` the entries a link editor writes for the structures the object contains. Addresses are
/// `base + file offset` under a PT_LOAD that maps the whole file at `base`; they are exact when the caller builds the
/// spec right away with the same generator state (the layout is probed with a copy of it), plausible otherwise.
fn link_dynamic(spec: &mut ObjSpec, m: &mut ObjModel, rng: &mut Rng, enc: Enc) {
    let Some((didx, entries)) = m.dynamic.as_mut() else { return };
    let didx = *didx;
    let symsize = size_of(St::Sym, enc.c64) as u64;
    // (tag, section whose address it carries) and (tag, value)
    let mut addr_tags: Vec<(u64, usize)> = Vec::new();
    let mut val_tags: Vec<(u64, u64)> = Vec::new();
    if let Some((i, _)) = &m.dynsym {
        addr_tags.push((6, *i));
        val_tags.push((11, symsize));
        let l = spec.secs[*i - 1].link as usize;
        if l >= 1 && l <= spec.secs.len() {
            addr_tags.push((5, l));
            val_tags.push((10, spec.secs[l - 1].body.len() as u64));
        }
    }
    if let Some(i) = &m.sysv_hash {
        addr_tags.push((4, *i));
    }
    if let Some((i, _)) = &m.gnu_hash {
        addr_tags.push((0x6fff_fef5, *i));
    }
    if let Some((vm, _)) = &m.versions {
        for (i, s) in spec.secs.iter().enumerate() {
            match s.sh_type {
                k::SHT_GNU_VERSYM => addr_tags.push((0x6fff_fff0, i + 1)),
                k::SHT_GNU_VERNEED => {
                    addr_tags.push((0x6fff_fffe, i + 1));
                    val_tags.push((0x6fff_ffff, vm.needs.len() as u64));
                }
                k::SHT_GNU_VERDEF => {
                    addr_tags.push((0x6fff_fffc, i + 1));
                    val_tags.push((0x6fff_fffd, vm.defs.len() as u64));
                }
                _ => {}
            }
        }
    }
    if addr_tags.is_empty() && val_tags.is_empty() {
        return;
    }
    // keep the arbitrary entries, insert the linked ones at random positions in front of the terminator
    let term = entries.pop();
    let first_linked = entries.len();
    for (t, _) in &addr_tags {
        entries.push((*t, 0));
    }
    for (t, v) in &val_tags {
        entries.push((*t, *v));
    }
    let mut order: Vec<usize> = (0..entries.len()).collect();
    rng.shuffle(&mut order);
    let shuffled: Vec<(u64, u64)> = order.iter().map(|i| entries[*i]).collect();
    let pos_of = |orig: usize| order.iter().position(|x| *x == orig).unwrap();
    let addr_pos: Vec<usize> = (0..addr_tags.len()).map(|j| pos_of(first_linked + j)).collect();
    *entries = shuffled;
    if let Some(t) = term {
        entries.push(t);
    }
    spec.secs[didx - 1].body = dyn_bytes(enc, entries);
    let base: u64 = *rng.pick(&[0u64, 0x1_0000, 0x40_0000, 0x800_0000]);
    let load = spec.segs.len();
    spec.segs.push(Seg { p_type: k::PT_LOAD, flags: 5, range: SegRange::Abs(0, 0), vaddr: base, paddr: base, memsz_extra: 0, align: 0x1000 });
    // probe the layout with a copy of the generator state
    let mut probe = rng.clone();
    let b = crate::gen::elf::build(spec, &mut probe);
    for (j, (_, si)) in addr_tags.iter().enumerate() {
        if let Some(t) = b.secs.get(*si) {
            let a = base.wrapping_add(t.off);
            entries[addr_pos[j]].1 = a;
            spec.secs[*si - 1].addr = a;
        }
    }
    spec.secs[didx - 1].body = dyn_bytes(enc, entries);
    spec.segs[load].range = SegRange::Abs(0, b.bytes.len() as u64);
}

/// Reorder the sections of the table at random; every section index held anywhere (sh_link,
/// view placements, the model) is remapped, so the object stays well-formed.
pub fn permute_sections(spec: &mut ObjSpec, m: &mut ObjModel, rng: &mut Rng) {
    let n = spec.secs.len();
    if n < 2 {
        return;
    }
    let mut order: Vec<usize> = (0..n).collect(); // order[new_pos] = old_pos (0-based over spec.secs)
    rng.shuffle(&mut order);
    let mut map = vec![0usize; n + 1]; // final index (1-based) old -> new
    for (new_pos, old_pos) in order.iter().enumerate() {
        map[old_pos + 1] = new_pos + 1;
    }
    let remap = |i: usize| if i >= 1 && i <= n { map[i] } else { i };
    let old = std::mem::take(&mut spec.secs);
    let mut slots: Vec<Option<Sec>> = old.into_iter().map(Some).collect();
    for old_pos in order {
        let mut s = slots[old_pos].take().unwrap();
        s.link = remap(s.link as usize) as u32;
        s.place = match s.place {
            Place::ShareStart(j, z) => Place::ShareStart(remap(j), z),
            Place::ShareEnd(j, z) => Place::ShareEnd(remap(j), z),
            p => p,
        };
        spec.secs.push(s);
    }
    for g in spec.segs.iter_mut() {
        g.range = match &g.range {
            SegRange::OfSection(i) => SegRange::OfSection(remap(*i)),
            SegRange::Span(a, b) => SegRange::Span(remap(*a), remap(*b)),
            r => r.clone(),
        };
    }
    if let Some((i, _)) = m.symtab.as_mut() {
        *i = remap(*i);
    }
    if let Some((i, _)) = m.dynsym.as_mut() {
        *i = remap(*i);
    }
    if let Some(i) = m.sysv_hash.as_mut() {
        *i = remap(*i);
    }
    if let Some((i, _)) = m.gnu_hash.as_mut() {
        *i = remap(*i);
    }
    if let Some((i, _)) = m.dynamic.as_mut() {
        *i = remap(*i);
    }
    for ns in m.notes.iter_mut() {
        ns.sec = remap(ns.sec);
    }
    for v in [&mut m.rels, &mut m.relas, &mut m.compressed, &mut m.nobits, &mut m.views] {
        for i in v.iter_mut() {
            *i = remap(*i);
        }
    }
}

//! Symbol table + string table builder for a list of symbol names.
use crate::codec::{size_of, Enc, Rec, St};
use crate::rng::Rng;

#[derive(Clone, Debug)]
pub struct SymTab {
    pub enc: Enc,
    /// names[i] is the name of symbol i (symbol 0 is the null symbol with the empty name)
    pub names: Vec<Vec<u8>>,
    pub recs: Vec<Rec>,
    pub symtab: Vec<u8>,
    pub strtab: Vec<u8>,
}

/// Build a string table for the names (deduplicated; offset 0 is the empty string) and one
/// symbol per name. `names[0]` must be empty (null symbol).
pub fn build(enc: Enc, names: &[Vec<u8>], rng: &mut Rng) -> SymTab {
    let mut strtab = vec![0u8];
    let mut offs: Vec<u32> = Vec::with_capacity(names.len());
    let mut seen: std::collections::HashMap<Vec<u8>, u32> = std::collections::HashMap::new();
    seen.insert(Vec::new(), 0);
    for n in names {
        // names containing NUL cannot be stored; callers never generate them
        let off = if let Some(o) = seen.get(n) {
            if rng.chance(1, 4) && !n.is_empty() {
                // store a second copy sometimes so that duplicates have distinct st_name values
                let o2 = strtab.len() as u32;
                strtab.extend_from_slice(n);
                strtab.push(0);
                o2
            } else {
                *o
            }
        } else {
            let o = strtab.len() as u32;
            strtab.extend_from_slice(n);
            strtab.push(0);
            seen.insert(n.clone(), o);
            o
        };
        offs.push(off);
    }
    let mut recs = Vec::with_capacity(names.len());
    let mut symtab = Vec::with_capacity(names.len() * size_of(St::Sym, enc.c64));
    for (i, off) in offs.iter().enumerate() {
        let mut r = Rec::zero(St::Sym, enc.c64);
        if i > 0 {
            r.set("st_name", *off as u64);
            r.set("st_value", rng.next_u64());
            r.set("st_size", rng.below(4096));
            // binding and type: mostly the common ones, sometimes any of the defined values (section/file/common/tls
            // symbols, OS- and processor-specific bindings)
            let (bind, ty) = if rng.chance(3, 4) { (1, rng.below(3)) } else { (*rng.pick(&[0u64, 1, 2, 10, 13]), *rng.pick(&[0u64, 1, 2, 3, 4, 5, 6, 10, 13])) };
            r.set("st_info", (bind << 4) | ty);
            r.set("st_other", rng.below(4));
            r.set("st_shndx", rng.below(0x40));
        }
        r.encode(enc, &mut symtab);
        recs.push(r);
    }
    SymTab { enc, names: names.to_vec(), recs, symtab, strtab }
}

/// A name set for hash-table workloads: duplicates, the empty name, bytes >= 0x80,
/// algebraic collisions and long names. Never contains NUL bytes. Index 0 is "".
/// A 7-byte printable suffix S such that djb2(prefix ++ S) == target (mod 2^32): the hash is affine in
/// its state, 33^7 > 2^32 and the printable range is wider than 33, so the base-33 expansion of the
/// residue always yields valid digits.
pub fn gnu_suffix_for(prefix: &[u8], target: u32) -> Vec<u8> {
    let mut h: u32 = 5381;
    for &c in prefix {
        h = h.wrapping_mul(33).wrapping_add(c as u32);
    }
    // h(prefix ++ S) = h * 33^7 + sum d_i * 33^(6-i); d_i = 0x21 + e_i
    let p7 = 33u32.wrapping_pow(7);
    let mut base_sum: u64 = 0;
    for i in 0..7 {
        base_sum += 0x21 * 33u64.pow(i);
    }
    let want = target.wrapping_sub(h.wrapping_mul(p7)) as u64; // sum d_i*33^i must be == want (mod 2^32)
    let mut t = (want + (1u64 << 32) * 4 - base_sum % (1u64 << 32)) % (1u64 << 32);
    // t < 2^32 < 33^7: plain base-33 digits
    let mut e = [0u64; 7];
    for d in e.iter_mut() {
        *d = t % 33;
        t /= 33;
    }
    // e[0] is the least significant digit = last character
    (0..7).rev().map(|i| (0x21 + e[i]) as u8).collect()
}

/// Names that drive the gABI elf_hash state to its maximum (0x0fffffff) right before a large byte:
/// the place where 32-bit / native-word implementations of the reference algorithm differ.
pub fn sysv_extreme_name(rng: &mut Rng) -> Vec<u8> {
    let mut v: Vec<u8> = Vec::new();
    if rng.bool() {
        let l = rng.usize_below(4);
        for _ in 0..l {
            v.push(b'a' + rng.below(26) as u8);
        }
    }
    v.extend_from_slice(&[0x0f; 7]);
    // after seven 0x0f bytes the low 28 bits are all ones (an ASCII prefix only perturbs bits 4..7 via the fold)
    let tail = 1 + rng.usize_below(3);
    for _ in 0..tail {
        v.push([0x10u8, 0x12, 0x7f, 0x80, 0xf0, 0xff][rng.usize_below(6)]);
    }
    if rng.bool() {
        v.push(b'a' + rng.below(26) as u8);
    }
    v
}

pub fn gen_names(rng: &mut Rng, max: usize, gnu: bool) -> Vec<Vec<u8>> {
    let n = match rng.below(6) {
        0 => rng.usize_below(3),
        1 => rng.usize_below(12),
        _ => rng.usize_below(max + 1),
    };
    let mut names: Vec<Vec<u8>> = vec![Vec::new()];
    while names.len() < n + 1 {
        let kind = rng.below(14);
        let base: Vec<u8> = match kind {
            12 if gnu => {
                // an extension of an existing (or fresh) name with the *same* 32-bit hash, or one differing only in bit 0
                let mut src: Vec<u8> = if names.len() > 1 && rng.bool() { names[1 + rng.usize_below(names.len() - 1)].clone() } else { (0..1 + rng.usize_below(6)).map(|_| b'a' + rng.below(26) as u8).collect() };
                let mut h: u32 = 5381;
                for &c in &src {
                    h = h.wrapping_mul(33).wrapping_add(c as u32);
                }
                let target = if rng.chance(1, 3) { h ^ 1 } else { h };
                let suf = gnu_suffix_for(&src, target);
                src.extend_from_slice(&suf);
                src
            }
            12 | 13 if !gnu => sysv_extreme_name(rng),
            0 => Vec::new(), // a non-null symbol with the empty name
            1 if names.len() > 1 => names[1 + rng.usize_below(names.len() - 1)].clone(), // duplicate
            2 => {
                // bytes >= 0x80 / non-UTF-8
                let l = 1 + rng.usize_below(10);
                (0..l).map(|_| 0x80 + rng.below(0x80) as u8).collect()
            }
            3 => {
                // long name: exercises the high-nibble fold of elf_hash
                let l = 7 + rng.usize_below(40);
                (0..l).map(|_| b'!' + rng.below(94) as u8).collect()
            }
            4 if names.len() > 1 => {
                // algebraic collision with an existing name of length >= 2:
                // djb2: (a, b) ~ (a+1, b-33); elf_hash: (a, b) ~ (a+1, b-16)
                let src = names[1 + rng.usize_below(names.len() - 1)].clone();
                let d = if gnu { 33 } else { 16 };
                let l = src.len();
                if l >= 2 && src[l - 2] < 0xff && src[l - 1] > d && src[l - 2] != 0 {
                    let mut v = src.clone();
                    v[l - 2] += 1;
                    v[l - 1] -= d;
                    v
                } else {
                    src
                }
            }
            5 if names.len() > 1 => {
                // prefix / extension of an existing name
                let src = names[1 + rng.usize_below(names.len() - 1)].clone();
                if rng.bool() && !src.is_empty() {
                    src[..src.len() - 1].to_vec()
                } else {
                    let mut v = src;
                    v.push(b'a' + rng.below(26) as u8);
                    v
                }
            }
            _ => {
                let l = 1 + rng.usize_below(12);
                (0..l).map(|_| b'a' + rng.below(26) as u8).collect()
            }
        };
        let mut base = base;
        // the byte in front of the terminator takes boundary values now and then (control byte, DEL, first and last
        // non-ASCII byte): the places where word-at-a-time scans and sign handling go wrong
        if rng.chance(1, 10) {
            let b = *rng.pick(&[0x01u8, 0x01, 0x7f, 0x80, 0xff]);
            if rng.bool() || base.is_empty() {
                base.push(b);
            } else {
                let l = base.len();
                base[l - 1] = b;
            }
        }
        names.push(base);
    }
    names
}

/// Give every non-null symbol the same shape (an "archetype": unnamed or named, one symbol type, one section index
/// class), so that a whole chain or cycle consists of symbols a lookup may treat specially.
pub fn apply_archetype(tab: &mut SymTab, rng: &mut Rng) -> String {
    // names: their own, none (st_name 0), or all aliases of one string (the same non-zero st_name everywhere)
    let naming = rng.below(3);
    let unnamed = naming == 1;
    let alias = if naming == 2 { tab.recs.get(1).map(|r| r.get("st_name")).filter(|v| *v != 0) } else { None };
    let ty = *rng.pick(&[0u64, 1, 2, 3, 4, 5, 6]);
    let bind = *rng.pick(&[0u64, 1, 2]);
    let shndx = *rng.pick(&[0u64, 1, 0xfff1, 0xfff2, 0xffff]);
    let mut out = Vec::with_capacity(tab.symtab.len());
    for (i, r) in tab.recs.iter_mut().enumerate() {
        if i > 0 {
            if unnamed {
                r.set("st_name", 0);
            }
            if let Some(a) = alias {
                r.set("st_name", a);
            }
            r.set("st_info", (bind << 4) | ty);
            r.set("st_shndx", shndx);
        }
        r.encode(tab.enc, &mut out);
    }
    tab.symtab = out;
    format!("all symbols {} type {ty} bind {bind} shndx {shndx:#x}", if unnamed { "unnamed" } else if alias.is_some() { "aliases of one name" } else { "named" })
}

//! Note-sequence builder: a model (list of notes) laid out back to back with padding.
use crate::codec::Enc;
use crate::rng::Rng;

#[derive(Clone, Debug)]
pub struct NoteModel {
    pub n_type: u32,
    pub name: Vec<u8>,
    pub desc: Vec<u8>,
}

pub fn pad(out: &mut Vec<u8>, align: usize, rng: &mut Rng, zero: bool) {
    if align == 0 {
        return;
    }
    while out.len() % align != 0 {
        out.push(if zero { 0 } else { rng.next_u64() as u8 });
    }
}

pub fn emit(enc: Enc, align: usize, notes: &[NoteModel], rng: &mut Rng, zero_pad: bool) -> Vec<u8> {
    let mut out = Vec::new();
    for n in notes {
        enc.put(&mut out, n.name.len() as u64, 4);
        enc.put(&mut out, n.desc.len() as u64, 4);
        enc.put(&mut out, n.n_type as u64, 4);
        out.extend_from_slice(&n.name);
        pad(&mut out, align, rng, zero_pad);
        out.extend_from_slice(&n.desc);
        pad(&mut out, align, rng, zero_pad);
    }
    out
}

pub fn gen_model(rng: &mut Rng, enc: Enc, max_notes: usize) -> Vec<NoteModel> {
    let k = rng.usize_below(max_notes + 1);
    let mut v = Vec::new();
    for _ in 0..k {
        let kind = rng.below(10);
        let n = match kind {
            0 => {
                // GNU ABI tag: the ABI's 16-byte descriptor
                let mut desc = Vec::new();
                for _ in 0..4 {
                    enc.put(&mut desc, rng.boundary(32), 4);
                }
                NoteModel { n_type: 1, name: b"GNU\0".to_vec(), desc }
            }
            1 => {
                let l = [0usize, 8, 16, 20, 32][rng.usize_below(5)];
                NoteModel { n_type: 3, name: b"GNU\0".to_vec(), desc: rng.bytes(l) }
            }
            2 => {
                // GNU name, other type
                // the registered GNU note types are small integers (hwcap 2, gold version 4, property 5, ...)
                let mut t = if rng.chance(2, 3) { rng.below(18) as u32 } else { rng.next_u32() };
                if t == 1 || t == 3 {
                    t = 5;
                }
                let l = rng.usize_below(41);
                NoteModel { n_type: t, name: b"GNU\0".to_vec(), desc: rng.bytes(l) }
            }
            3 => {
                // near-miss names: "GNU" without NUL, "GNU\0\0", "gnu\0"
                let name: &[u8] = [&b"GNU"[..], &b"GNU\0\0"[..], &b"gnu\0"[..], &b"GNU\x01"[..]][rng.usize_below(4)];
                let l = rng.usize_below(41);
                NoteModel { n_type: [1u32, 3][rng.usize_below(2)], name: name.to_vec(), desc: rng.bytes(l) }
            }
            5 if rng.chance(1, 2) => {
                // the all-zero record (no name, no descriptor, type 0): 12 zero bytes are a well-formed note
                NoteModel { n_type: 0, name: Vec::new(), desc: Vec::new() }
            }
            4 => {
                // vendor names that really occur (and the string literals of the crate's code), types from the exported
                // NT_ constants, those the code mentions, small integers or anything
                const VENDORS: [&[u8]; 10] = [b"CORE\0", b"LINUX\0", b"FreeBSD\0", b"NetBSD\0", b"OpenBSD\0", b"Go\0\0", b"stapsdt\0", b"Xen\0", b"Android\0", b"SuSE\0"];
                let name: Vec<u8> = if !crate::abi_table::SRC_STRINGS.is_empty() && rng.chance(1, 3) {
                    let mut v = crate::abi_table::SRC_STRINGS[rng.usize_below(crate::abi_table::SRC_STRINGS.len())].as_bytes().to_vec();
                    v.push(0);
                    v
                } else {
                    VENDORS[rng.usize_below(VENDORS.len())].to_vec()
                };
                let dl = rng.usize_below(41);
                NoteModel { n_type: crate::abi_table::pick(rng, "NT_", &[1, 2, 3, 4, 5, 6], 32) as u32, name, desc: rng.bytes(dl) }
            }
            _ => {
                let nl = rng.usize_below(41);
                let dl = rng.usize_below(41);
                let mut name = Vec::with_capacity(nl);
                let style = rng.below(4);
                for i in 0..nl {
                    name.push(match style {
                        0 => rng.next_u64() as u8,                       // arbitrary (often not UTF-8)
                        1 => if i + 1 == nl { 0 } else { b'A' + (i % 26) as u8 }, // C string
                        2 => if i + 3 >= nl { 0 } else { b'a' + (i % 26) as u8 }, // several trailing NULs
                        _ => b'0' + (i % 10) as u8,                      // no NUL at all
                    });
                }
                NoteModel { n_type: rng.boundary(32) as u32, name, desc: rng.bytes(dl) }
            }
        };
        v.push(n);
    }
    if !v.is_empty() && rng.chance(1, 8) {
        for _ in 0..1 + rng.usize_below(2) {
            v.push(NoteModel { n_type: 0, name: Vec::new(), desc: Vec::new() });
        }
    }
    v
}

pub const ALIGNS: [u64; 17] = [1, 2, 4, 8, 16, 4, 8, 4, 3, 5, 12, 32, 0, 1 << 31, (1 << 32) - 1, 1 << 63, u64::MAX];

//! GNU symbol-versioning model and layout engine.
//!
//! Records are placed contiguously (as ld does) or scattered forward with gaps and with the
//! aux lists of different records interleaved; they are linked by `*_next` / `*_aux`
//! increments relative to the record's own start.
use crate::codec::{Enc, Rec, St};
use crate::rng::Rng;

#[derive(Clone, Debug)]
pub struct Aux {
    pub name: String,
    pub hash: u32,
    pub flags: u16,
    pub other: u16,
}

#[derive(Clone, Debug)]
pub struct Need {
    pub file: String,
    pub auxes: Vec<Aux>,
}

#[derive(Clone, Debug)]
pub struct Def {
    pub ndx: u16,
    pub flags: u16,
    pub hash: u32,
    pub names: Vec<String>,
}

#[derive(Clone, Debug, Default)]
pub struct VersionModel {
    pub versym: Vec<u16>,
    pub needs: Vec<Need>,
    pub defs: Vec<Def>,
    pub has_needs: bool,
    pub has_defs: bool,
    /// the needs are a run of empty needs followed by one need with entries, laid out as *overlapping* Verneed records
    /// (stride 8: vn_next of one record is vn_file of the next): more records than sh_size / 16
    pub overlap_needs: bool,
}

#[derive(Clone, Debug, Default)]
pub struct VersionBytes {
    pub versym: Vec<u8>,
    pub verneed: Vec<u8>,
    pub verdef: Vec<u8>,
    pub strtab: Vec<u8>,
    /// string table of the verdef section when it differs from the verneed one (`None` = shared `strtab`)
    pub strtab_def: Option<Vec<u8>>,
    pub scattered: bool,
}

fn gen_name(rng: &mut Rng, prefix: &str) -> String {
    let mut s = String::from(prefix);
    let l = rng.usize_below(10);
    for _ in 0..l {
        match rng.below(12) {
            0 if s.len() == prefix.len() && rng.bool() => s.push(*rng.pick(&['\u{feff}', '\u{fffd}', '\u{2028}', '\u{a0}', '\u{1f600}'])),
            0 => s.push('é'),
            1 => s.push('_'),
            2 => s.push('.'),
            3 => s.push((b'0' + rng.below(10) as u8) as char),
            _ => s.push((b'a' + rng.below(26) as u8) as char),
        }
    }
    s
}

pub fn gen_model(rng: &mut Rng, max_needs: usize, max_aux: usize, max_defs: usize) -> VersionModel {
    let mut m = VersionModel::default();
    // one shared index space, every index unique; 0 and 1 are listed only when chosen
    let mut pool: Vec<u16> = (2..400u16).collect();
    rng.shuffle(&mut pool);
    if rng.chance(1, 3) {
        pool.push(0x7fff);
    }
    m.has_needs = rng.chance(5, 6);
    m.has_defs = rng.chance(5, 6);
    if m.has_needs && rng.chance(1, 10) {
        // overlap-friendly shape (see `overlap_needs`): E empty needs, then one need with c entries, E + 1 > 2c + 1
        let c = 1 + rng.usize_below(2);
        let e = 2 * c + 1 + rng.usize_below(4);
        for i in 0..e {
            m.needs.push(Need { file: if i == 0 { "pad123".to_string() } else { "ovl.so".to_string() }, auxes: Vec::new() });
        }
        let auxes = (0..c).map(|j| Aux { name: gen_name(rng, &format!("VO_{j}")), hash: rng.boundary(32) as u32, flags: rng.boundary(16) as u16, other: pool.pop().unwrap_or(2) }).collect();
        m.needs.push(Need { file: "ovl.so".to_string(), auxes });
        m.overlap_needs = true;
    } else if m.has_needs {
        let n = if rng.chance(1, 5) { 0 } else { rng.usize_below(max_needs + 1) };
        for i in 0..n {
            let k = rng.usize_below(max_aux + 1);
            let mut auxes = Vec::new();
            for j in 0..k {
                auxes.push(Aux {
                    name: gen_name(rng, &format!("V{}_{}", i, j)),
                    hash: rng.boundary(32) as u32,
                    flags: rng.boundary(16) as u16,
                    other: pool.pop().unwrap_or(2),
                });
            }
            m.needs.push(Need { file: gen_name(rng, &format!("lib{}.so.", i)), auxes });
        }
    }
    if m.has_defs {
        let n = if rng.chance(1, 5) { 0 } else { rng.usize_below(max_defs + 1) };
        for i in 0..n {
            let k = 1 + rng.usize_below(5);
            // the base definition conventionally has index 1; list it sometimes
            // round 9: now and then a definition shares its index with a requirement of the same object (unique
            // within each section, so both queries still have exactly one answer: C13 speaks of "the auxiliary
            // record whose index equals ..." and "the definition with that index" independently)
            let shared: Vec<u16> = m.needs.iter().flat_map(|n| n.auxes.iter().map(|a| a.other)).filter(|o| !m.defs.iter().any(|d| d.ndx == *o)).collect();
            let ndx = if i == 0 && rng.chance(1, 2) {
                1
            } else if !shared.is_empty() && rng.chance(1, 6) {
                *rng.pick(&shared)
            } else {
                pool.pop().unwrap_or(3)
            };
            m.defs.push(Def {
                ndx,
                flags: rng.boundary(16) as u16,
                hash: rng.boundary(32) as u32,
                names: (0..k).map(|j| gen_name(rng, &format!("D{}_{}", i, j))).collect(),
            });
        }
    }
    // versym: mix of 0, 1, defined, needed and unknown indices, each with and without bit 15
    let mut known: Vec<u16> = Vec::new();
    for n in &m.needs {
        for a in &n.auxes {
            known.push(a.other);
        }
    }
    for d in &m.defs {
        known.push(d.ndx);
    }
    let nsym = rng.usize_below(60);
    for _ in 0..nsym {
        let idx = match rng.below(6) {
            0 => 0,
            1 => 1,
            2 => 400 + rng.below(0x7000) as u16, // unknown
            _ if !known.is_empty() => known[rng.usize_below(known.len())],
            _ => rng.below(0x7fff) as u16,
        };
        let hidden = if rng.chance(1, 3) { 0x8000 } else { 0 };
        m.versym.push(idx | hidden);
    }
    m
}

struct Placed {
    key: u64,
    /// (list id, position in list): list 0 = top records; list 1+i = aux list of record i
    list: usize,
    pos: usize,
    rec: Rec,
    at: usize,
}

fn add_str(strtab: &mut Vec<u8>, s: &str) -> u64 {
    let off = strtab.len() as u64;
    strtab.extend_from_slice(s.as_bytes());
    strtab.push(0);
    off
}

/// Lay out one section (verneed or verdef). `tops[i]` with its aux records `auxes[i]`.
fn layout_section(enc: Enc, rng: &mut Rng, scattered: bool, tops: Vec<Rec>, auxes: Vec<Vec<Rec>>, next_f: &str, aux_f: &str, auxnext_f: &str) -> Vec<u8> {
    let top_size = crate::codec::size_of(tops.first().map(|r| r.st).unwrap_or(St::Verneed), enc.c64);
    let mut placed: Vec<Placed> = Vec::new();
    for (i, t) in tops.into_iter().enumerate() {
        placed.push(Placed { key: i as u64 * 1000, list: 0, pos: i, rec: t, at: 0 });
    }
    for (i, list) in auxes.into_iter().enumerate() {
        let mut key = i as u64 * 1000 + 1;
        for (j, a) in list.into_iter().enumerate() {
            if scattered {
                key += 1 + rng.below(1500);
            } else {
                key += 1;
            }
            placed.push(Placed { key, list: 1 + i, pos: j, rec: a, at: 0 });
        }
    }
    placed.sort_by_key(|p| p.key);
    // assign offsets
    let mut off = 0usize;
    for p in placed.iter_mut() {
        if scattered && off > 0 {
            off += [0usize, 0, 1, 3, 4, 8, 24][rng.usize_below(7)];
        }
        p.at = off;
        off += crate::codec::size_of(p.rec.st, enc.c64);
    }
    let total = off + if scattered { rng.usize_below(8) } else { 0 };
    let _ = top_size;
    // links
    let find = |placed: &Vec<Placed>, list: usize, pos: usize| placed.iter().find(|p| p.list == list && p.pos == pos).map(|p| p.at);
    let n = placed.len();
    for idx in 0..n {
        let (list, pos, at) = (placed[idx].list, placed[idx].pos, placed[idx].at);
        if list == 0 {
            let next = find(&placed, 0, pos + 1).map(|a| (a - at) as u64).unwrap_or(0);
            let aux = find(&placed, 1 + pos, 0).map(|a| (a - at) as u64).unwrap_or(if scattered { rng.below(64) } else { top_size as u64 });
            placed[idx].rec.set(next_f, next);
            placed[idx].rec.set(aux_f, aux);
        } else {
            let next = find(&placed, list, pos + 1).map(|a| (a - at) as u64).unwrap_or(0);
            placed[idx].rec.set(auxnext_f, next);
        }
    }
    let mut out = if scattered { rng.bytes(total) } else { vec![0u8; total] };
    for p in &placed {
        let b = p.rec.bytes(enc);
        out[p.at..p.at + b.len()].copy_from_slice(&b);
    }
    out
}

pub fn emit(enc: Enc, m: &VersionModel, rng: &mut Rng, scattered: bool) -> VersionBytes {
    emit_opt(enc, m, rng, scattered, false)
}

/// `split_strtabs`: the definitions' names live in their own string table (sh_link of the two sections differ).
pub fn emit_opt(enc: Enc, m: &VersionModel, rng: &mut Rng, scattered: bool, split_strtabs: bool) -> VersionBytes {
    let mut vb = VersionBytes { scattered, ..Default::default() };
    vb.strtab.push(0);
    let mut def_tab: Vec<u8> = vec![0];
    if split_strtabs {
        // different contents at equal offsets, so that reading the wrong table cannot go unnoticed
        def_tab.extend_from_slice(b"@@defs@@\0");
    }
    for v in &m.versym {
        enc.put(&mut vb.versym, *v as u64, 2);
    }
    if m.overlap_needs {
        // offsets 1 and 8 of the string table hold the two file names the overlapping records can name
        vb.strtab.extend_from_slice(b"pad123\0ovl.so\0");
    }
    // verneed
    let mut tops = Vec::new();
    let mut auxes = Vec::new();
    for n in &m.needs {
        let file = add_str(&mut vb.strtab, &n.file);
        tops.push(Rec::zero(St::Verneed, enc.c64).with("vn_version", 1).with("vn_cnt", n.auxes.len() as u64).with("vn_file", file));
        let mut l = Vec::new();
        for a in &n.auxes {
            let name = add_str(&mut vb.strtab, &a.name);
            l.push(Rec::zero(St::Vernaux, enc.c64).with("vna_hash", a.hash as u64).with("vna_flags", a.flags as u64).with("vna_other", a.other as u64).with("vna_name", name));
        }
        auxes.push(l);
    }
    if m.overlap_needs {
        // records at stride 8, each later one overwriting the aux/next words of its predecessor: the predecessor's
        // vn_next then reads as the successor's vn_file (= 8), its vn_aux as (version, count) of the successor, which
        // nobody follows because the predecessor's own count is 0
        let e = m.needs.len() - 1;
        let last = m.needs.last().unwrap();
        let mut buf = vec![0u8; 8 * e + 16 + 16 * last.auxes.len()];
        for i in 0..e {
            let r = Rec::zero(St::Verneed, enc.c64).with("vn_version", 1).with("vn_cnt", 0).with("vn_file", if i == 0 { 1 } else { 8 }).with("vn_aux", 0).with("vn_next", 8);
            buf[8 * i..8 * i + 16].copy_from_slice(&r.bytes(enc));
        }
        let r = Rec::zero(St::Verneed, enc.c64).with("vn_version", 1).with("vn_cnt", last.auxes.len() as u64).with("vn_file", 8).with("vn_aux", 16).with("vn_next", 0);
        buf[8 * e..8 * e + 16].copy_from_slice(&r.bytes(enc));
        let l = auxes.last().unwrap();
        for (j, a) in l.iter().enumerate() {
            let mut a = a.clone();
            a.set("vna_next", if j + 1 == l.len() { 0 } else { 16 });
            let at = 8 * e + 16 + 16 * j;
            buf[at..at + 16].copy_from_slice(&a.bytes(enc));
        }
        vb.verneed = buf;
    } else {
        vb.verneed = layout_section(enc, rng, scattered, tops, auxes, "vn_next", "vn_aux", "vna_next");
    }
    // verdef
    let mut tops = Vec::new();
    let mut auxes = Vec::new();
    for d in &m.defs {
        tops.push(
            Rec::zero(St::Verdef, enc.c64)
                .with("vd_version", 1)
                .with("vd_flags", d.flags as u64)
                .with("vd_ndx", d.ndx as u64)
                .with("vd_cnt", d.names.len() as u64)
                .with("vd_hash", d.hash as u64),
        );
        let mut l = Vec::new();
        for nm in &d.names {
            let name = if split_strtabs { add_str(&mut def_tab, nm) } else { add_str(&mut vb.strtab, nm) };
            l.push(Rec::zero(St::Verdaux, enc.c64).with("vda_name", name));
        }
        auxes.push(l);
    }
    vb.verdef = layout_section(enc, rng, scattered, tops, auxes, "vd_next", "vd_aux", "vda_next");
    if split_strtabs {
        vb.strtab_def = Some(def_tab);
    }
    vb
}

/// model lookup: requirement for versym value `v`
pub fn model_requirement<'m>(m: &'m VersionModel, v: u16) -> Option<(&'m Need, &'m Aux)> {
    let idx = v & 0x7fff;
    for n in &m.needs {
        for a in &n.auxes {
            if a.other == idx {
                return Some((n, a));
            }
        }
    }
    None
}

pub fn model_definition(m: &VersionModel, v: u16) -> Option<&Def> {
    let idx = v & 0x7fff;
    m.defs.iter().find(|d| d.ndx == idx)
}

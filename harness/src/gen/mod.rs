//! Workload generators: content builders (own writer, layouts from codec.rs) and mutators.
pub mod notes;
pub mod hash;
pub mod symtab;
pub mod symver;
pub mod elf;
pub mod mutate;
pub mod object;
pub mod adversarial;

//! Workload generators: content builders (own writer, layouts from codec.rs) and mutators.
pub mod notes;
pub mod hash;
pub mod symtab;

//! Mutators: structured (header fields driven to boundary values), byte flips / splices,
//! truncation / extension, random bytes behind a valid ident.
use crate::codec::Enc;
use crate::gen::elf::{Built, Field};
use crate::rng::{Rng, FIELD_BOUNDARIES};

pub fn boundary_for(rng: &mut Rng, file_len: u64, cur: u64, w: usize) -> u64 {
    let m = crate::codec::mask(w);
    let v = match rng.below(12) {
        0..=4 => FIELD_BOUNDARIES[rng.usize_below(FIELD_BOUNDARIES.len())],
        5 => file_len.wrapping_sub(1),
        6 => file_len,
        7 => file_len.wrapping_add(1),
        8 => cur.wrapping_add(1),
        9 => cur.wrapping_sub(1),
        10 => file_len.wrapping_sub(cur),
        _ => rng.below(file_len + 2),
    };
    v & m
}

/// Overwrite `n` fields chosen from the field map with boundary values. Returns what was done.
pub fn structured(rng: &mut Rng, b: &mut Built, n: usize) -> Vec<String> {
    let mut log = Vec::new();
    if b.fields.is_empty() {
        return log;
    }
    let flen = b.bytes.len() as u64;
    for _ in 0..n {
        let f: Field = b.fields[rng.usize_below(b.fields.len())].clone();
        if f.off + f.w > b.bytes.len() {
            continue;
        }
        let cur = b.enc.get(&b.bytes, f.off, f.w).unwrap_or(0);
        let v = boundary_for(rng, flen, cur, f.w);
        b.enc.put_at(&mut b.bytes, f.off, v, f.w);
        log.push(format!("{}={:#x}", f.name, v));
    }
    log
}

/// Like `structured` but only fields whose name contains one of `pats`.
pub fn structured_on(rng: &mut Rng, b: &mut Built, pats: &[&str]) -> Option<String> {
    let cands: Vec<Field> = b.fields.iter().filter(|f| pats.iter().any(|p| f.name.contains(p))).cloned().collect();
    if cands.is_empty() {
        return None;
    }
    let f = cands[rng.usize_below(cands.len())].clone();
    let flen = b.bytes.len() as u64;
    let cur = b.enc.get(&b.bytes, f.off, f.w).unwrap_or(0);
    let v = boundary_for(rng, flen, cur, f.w);
    b.enc.put_at(&mut b.bytes, f.off, v, f.w);
    Some(format!("{}={:#x}", f.name, v))
}

pub fn byteflips(rng: &mut Rng, bytes: &mut Vec<u8>, n: usize) {
    if bytes.is_empty() {
        return;
    }
    for _ in 0..n {
        let i = rng.usize_below(bytes.len());
        match rng.below(4) {
            0 => bytes[i] = rng.next_u64() as u8,
            1 => bytes[i] ^= 1 << rng.below(8),
            2 => bytes[i] = [0u8, 0xff, 0x7f, 0x80][rng.usize_below(4)],
            _ => {
                // splice a short run from elsewhere
                let l = 1 + rng.usize_below(8);
                let j = rng.usize_below(bytes.len());
                for k in 0..l {
                    if i + k < bytes.len() && j + k < bytes.len() {
                        bytes[i + k] = bytes[j + k];
                    }
                }
            }
        }
    }
}

pub fn truncate(rng: &mut Rng, bytes: &mut Vec<u8>) {
    let l = rng.usize_below(bytes.len() + 1);
    bytes.truncate(l);
}

pub fn extend(rng: &mut Rng, bytes: &mut Vec<u8>) {
    let n = 1 + rng.usize_below(64);
    let t = rng.bytes(n);
    bytes.extend_from_slice(&t);
}

/// Random bytes behind a valid 16-byte ident, so that random inputs get past the magic check.
pub fn random_with_ident(rng: &mut Rng, enc: Enc, len: usize) -> Vec<u8> {
    let mut v = vec![0x7f, b'E', b'L', b'F', if enc.c64 { 2 } else { 1 }, if enc.big { 2 } else { 1 }, 1, 0, 0, 0, 0, 0, 0, 0, 0, 0];
    let mut rest = rng.bytes(len);
    // bias the table offsets/counts to small values now and then so that tables are found
    if rng.bool() && rest.len() >= 48 {
        for b in rest.iter_mut().take(48) {
            if rng.chance(2, 3) {
                *b = if rng.chance(1, 4) { rng.below(80) as u8 } else { 0 };
            }
        }
    }
    v.append(&mut rest);
    v
}

/// Make `k` sections (or segments) claim large overlapping ranges: from their offset (or from 0) to the
/// end of the file. Files in which several tables each span nearly the whole file are legal input.
pub fn maximize_ranges(rng: &mut Rng, b: &mut Built, k: usize) -> Vec<String> {
    let mut log = Vec::new();
    let flen = b.bytes.len() as u64;
    let secs: Vec<usize> = (1..b.secs.len()).filter(|i| b.field(&format!("shdr[{i}].sh_size")).is_some()).collect();
    if secs.is_empty() {
        return log;
    }
    for _ in 0..k {
        let i = secs[rng.usize_below(secs.len())];
        let cur_off = b.field(&format!("shdr[{i}].sh_offset")).and_then(|f| b.enc.get(&b.bytes, f.off, f.w)).unwrap_or(0);
        let off = match rng.below(3) {
            0 => 0,
            1 => rng.below(64.min(flen)),
            _ => cur_off.min(flen),
        };
        b.poke(&format!("shdr[{i}].sh_offset"), off);
        b.poke(&format!("shdr[{i}].sh_size"), flen - off);
        log.push(format!("shdr[{i}] := [{off:#x}, EOF)"));
    }
    log
}

/// Re-express the table counts through shdr[0] (extended numbering) without changing them: e_shnum = 0 with the count
/// in shdr[0].sh_size, e_phnum = 0xffff with the count in shdr[0].sh_info; optionally drop the name table reference.
/// Legal for any count; linkers only do it for big tables, so small files never look like this by themselves.
pub fn extended_encoding(rng: &mut Rng, b: &mut Built) -> Vec<String> {
    let mut log = Vec::new();
    if b.shnum == 0 || b.shoff == 0 || b.field("shdr[0].sh_size").is_none() {
        return log;
    }
    if rng.chance(2, 3) {
        b.poke("ehdr.e_shnum", 0);
        b.poke("shdr[0].sh_size", b.shnum as u64);
        log.push(format!("e_shnum=0 (count {} in shdr[0].sh_size)", b.shnum));
    }
    if b.phnum > 0 && rng.chance(1, 2) {
        b.poke("ehdr.e_phnum", 0xffff);
        b.poke("shdr[0].sh_info", b.phnum as u64);
        log.push(format!("e_phnum=0xffff (count {} in shdr[0].sh_info)", b.phnum));
    }
    if rng.chance(1, 3) {
        b.poke("ehdr.e_shstrndx", 0);
        log.push("e_shstrndx=0".to_string());
    } else if rng.chance(1, 3) {
        b.poke("ehdr.e_shstrndx", 0xffff);
        b.poke("shdr[0].sh_link", b.shstrndx as u64);
        log.push(format!("e_shstrndx=0xffff (index {} in shdr[0].sh_link)", b.shstrndx));
    }
    log
}

/// Cut points of a built file: offsets at which a structure (header table, section body, segment) starts and which no
/// other structure straddles. `relocate` moves everything from such a point on up by `hole` bytes (every file offset
/// field behind the point is adjusted); the bytes themselves stay in `b.bytes` (callers splice the hole in).
pub fn cut_points(b: &Built) -> Vec<u64> {
    let enc = b.enc;
    let get = |name: &str| b.field(name).and_then(|f| enc.get(&b.bytes, f.off, f.w));
    let ehsize: u64 = if enc.c64 { 64 } else { 52 };
    let mut ranges: Vec<(u64, u64)> = vec![(0, ehsize)];
    if b.shoff != 0 {
        ranges.push((b.shoff, b.shoff + (b.shnum * crate::codec::size_of(crate::codec::St::Shdr, enc.c64)) as u64));
    }
    if b.phoff != 0 {
        ranges.push((b.phoff, b.phoff + (b.phnum * crate::codec::size_of(crate::codec::St::Phdr, enc.c64)) as u64));
    }
    for i in 1..b.shnum {
        if let (Some(o), Some(z), Some(t)) = (get(&format!("shdr[{i}].sh_offset")), get(&format!("shdr[{i}].sh_size")), get(&format!("shdr[{i}].sh_type"))) {
            if t != crate::codec::k::SHT_NOBITS as u64 && t != 0 {
                ranges.push((o, o.saturating_add(z)));
            }
        }
    }
    for i in 0..b.phnum {
        if let (Some(o), Some(z)) = (get(&format!("phdr[{i}].p_offset")), get(&format!("phdr[{i}].p_filesz"))) {
            ranges.push((o, o.saturating_add(z)));
        }
    }
    let mut cands: Vec<u64> = ranges.iter().map(|x| x.0).filter(|s| *s >= ehsize && *s <= b.bytes.len() as u64).collect();
    cands.sort();
    cands.dedup();
    cands.retain(|at| !ranges.iter().any(|(s, e)| s < at && at < e));
    cands
}

pub fn relocate(b: &mut Built, at: u64, hole: u64) {
    let names: Vec<String> = b.fields.iter().map(|f| f.name.clone()).filter(|n| n == "ehdr.e_shoff" || n == "ehdr.e_phoff" || n.ends_with(".sh_offset") || n.ends_with(".p_offset")).collect();
    for n in names {
        let f = b.field(&n).cloned().unwrap();
        let v = b.enc.get(&b.bytes, f.off, f.w).unwrap_or(0);
        if v >= at && v != 0 {
            b.poke(&n, v + hole);
        }
    }
}

/// Make the two header tables designate the same bytes, or nested / overlapping ranges: e_phoff and e_shoff equal (or
/// one inside the other's range) with counts chosen so that the byte sizes coincide exactly (8k program headers = 7k
/// section headers in ELF64, 5k = 4k in ELF32), or differ by one entry. Both tables stay inside the file.
pub fn alias_tables(rng: &mut Rng, b: &mut Built) -> Option<String> {
    let c64 = b.enc.c64;
    let (phsz, shsz, pk, sk) = if c64 { (56u64, 64u64, 8u64, 7u64) } else { (32, 40, 5, 4) };
    let ehsize: u64 = if c64 { 64 } else { 52 };
    let len = b.bytes.len() as u64;
    let unit = phsz * pk; // = shsz * sk
    if len < ehsize + unit {
        return None;
    }
    let off = match rng.below(3) {
        0 if b.shoff != 0 && b.shoff + unit <= len => b.shoff,
        1 if b.phoff != 0 && b.phoff + unit <= len => b.phoff,
        _ => ehsize + rng.below(len - ehsize - unit + 1),
    };
    let kmax = ((len - off) / unit).max(1);
    let k = 1 + rng.below(kmax.min(3));
    let (phnum, shnum, shift) = match rng.below(4) {
        0 | 1 => (pk * k, sk * k, 0),  // exactly the same bytes
        2 => (pk * k, sk * k - 1, 0),  // same start, section table one entry shorter
        _ => (pk * k - 1, sk * k - 1, phsz), // same end region, different starts
    };
    if off + shift + (shnum * shsz).max(phnum * phsz) > len || phnum >= 0xffff || shnum >= 0xff00 {
        return None;
    }
    b.poke("ehdr.e_phoff", off);
    b.poke("ehdr.e_shoff", off + shift);
    b.poke("ehdr.e_phnum", phnum);
    b.poke("ehdr.e_shnum", shnum);
    b.poke("ehdr.e_shstrndx", 0);
    Some(format!("e_phoff={off:#x} x{phnum}, e_shoff={:#x} x{shnum} (the two tables share their bytes)", off + shift))
}

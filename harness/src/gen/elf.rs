//! ElfSpec -> bytes + ground truth: an independent ELF *writer*.
//!
//! Layouts come from codec.rs. The layout engine permutes {phdr table, section bodies,
//! shdr table}, inserts gaps, and supports "view" sections/segments whose ranges overlap
//! others, share a start or an end, are zero-length, touch EOF or lie outside the file.
//! Emission records a field map (offset, width, name) of every header field written.
use crate::codec::{k, size_of, Enc, Rec, St};
use crate::rng::Rng;

#[derive(Clone, Debug, PartialEq, Eq)]
pub enum Place {
    /// own body, placed by the layout engine
    Body,
    /// no own body: [start(other), +size)
    ShareStart(usize, u64),
    /// no own body: [end(other) - size, end(other))
    ShareEnd(usize, u64),
    /// no own body: the last `size` bytes of the file (end == file length)
    TouchEof(u64),
    /// no own body: ends `over` bytes past the end of the file
    PastEof(u64, u64),
    /// no own body: absolute offset/size (anything, e.g. 2^63)
    Abs(u64, u64),
}

#[derive(Clone, Debug)]
pub struct Sec {
    pub name: Vec<u8>,
    pub sh_type: u32,
    pub flags: u64,
    pub addr: u64,
    pub body: Vec<u8>,
    pub link: u32,
    pub info: u32,
    pub addralign: u64,
    pub entsize: u64,
    /// declared sh_size when different from body.len() (NOBITS memory size)
    pub size_override: Option<u64>,
    pub place: Place,
    /// alignment of the body in the file (1 = none)
    pub file_align: usize,
}

impl Sec {
    pub fn new(name: &[u8], sh_type: u32, body: Vec<u8>) -> Sec {
        Sec { name: name.to_vec(), sh_type, flags: 0, addr: 0, body, link: 0, info: 0, addralign: 1, entsize: 0, size_override: None, place: Place::Body, file_align: 1 }
    }
    pub fn view(name: &[u8], sh_type: u32, place: Place) -> Sec {
        let mut s = Sec::new(name, sh_type, Vec::new());
        s.place = place;
        s
    }
}

#[derive(Clone, Debug)]
pub enum SegRange {
    /// the file range of section i
    OfSection(usize),
    /// from the start of section a to the end of section b (a <= b in file order is the caller's business)
    Span(usize, usize),
    Abs(u64, u64),
    TouchEof(u64),
    PastEof(u64, u64),
}

#[derive(Clone, Debug)]
pub struct Seg {
    pub p_type: u32,
    pub flags: u32,
    pub range: SegRange,
    pub vaddr: u64,
    pub paddr: u64,
    /// p_memsz = p_filesz + memsz_extra (wrapping)
    pub memsz_extra: u64,
    pub align: u64,
}

#[derive(Clone, Copy, Debug, PartialEq, Eq)]
pub enum Part {
    Phdrs,
    Bodies,
    Shdrs,
}

#[derive(Clone, Debug)]
pub struct ObjSpec {
    pub enc: Enc,
    pub e_type: u16,
    pub e_machine: u16,
    pub e_flags: u32,
    pub e_entry: u64,
    pub osabi: u8,
    pub abiversion: u8,
    /// sections 1.. (the null section 0 is emitted automatically)
    pub secs: Vec<Sec>,
    pub segs: Vec<Seg>,
    /// index (into the final table, i.e. 1-based over `secs`) of the section-name string
    /// table; the builder appends a ".shstrtab" section itself when `auto_shstrtab`
    pub auto_shstrtab: bool,
    pub has_shdrs: bool,
    pub has_phdrs: bool,
    pub order: [Part; 3],
    pub max_gap: usize,
    /// extra empty sections appended to reach big counts (>= 0xff00)
    pub filler_sections: usize,
    /// extra PT_NULL program headers appended to reach big counts (>= 0xffff)
    pub filler_segments: usize,
    /// trailing bytes after everything else
    pub trailing: usize,
}

impl ObjSpec {
    pub fn new(enc: Enc) -> ObjSpec {
        ObjSpec {
            enc,
            e_type: 3,
            e_machine: 62,
            e_flags: 0,
            e_entry: 0,
            osabi: 0,
            abiversion: 0,
            secs: Vec::new(),
            segs: Vec::new(),
            auto_shstrtab: true,
            has_shdrs: true,
            has_phdrs: true,
            order: [Part::Phdrs, Part::Bodies, Part::Shdrs],
            max_gap: 0,
            filler_sections: 0,
            filler_segments: 0,
            trailing: 0,
        }
    }
    pub fn add(&mut self, s: Sec) -> usize {
        self.secs.push(s);
        self.secs.len() // final index (null section is 0)
    }
}

#[derive(Clone, Debug)]
pub struct Field {
    pub off: usize,
    pub w: usize,
    pub name: String,
}

#[derive(Clone, Debug)]
pub struct SecTruth {
    pub name: Vec<u8>,
    pub hdr: Rec,
    pub off: u64,
    pub size: u64,
}

#[derive(Clone, Debug)]
pub struct Built {
    pub enc: Enc,
    pub bytes: Vec<u8>,
    pub fields: Vec<Field>,
    /// final section table incl. the null section, the auto .shstrtab and fillers
    pub secs: Vec<SecTruth>,
    pub segs: Vec<Rec>,
    pub shoff: u64,
    pub phoff: u64,
    pub shnum: usize,
    pub phnum: usize,
    pub shstrndx: usize,
}

fn align_up(v: usize, a: usize) -> usize {
    if a <= 1 { v } else { (v + a - 1) / a * a }
}

pub fn build(spec: &ObjSpec, rng: &mut Rng) -> Built {
    let enc = spec.enc;
    let c64 = enc.c64;
    let ehsize = k::EI_NIDENT + size_of(St::EhdrTail, c64);
    let shentsize = size_of(St::Shdr, c64);
    let phentsize = size_of(St::Phdr, c64);

    // final section list: null + user sections (+ .shstrtab) + fillers
    let mut secs: Vec<Sec> = Vec::with_capacity(spec.secs.len() + 2 + spec.filler_sections);
    secs.push(Sec::new(b"", k::SHT_NULL, Vec::new()));
    secs[0].addralign = 0;
    secs.extend(spec.secs.iter().cloned());
    let mut shstrndx = 0usize;
    if spec.auto_shstrtab && spec.has_shdrs {
        secs.push(Sec::new(b".shstrtab", k::SHT_STRTAB, Vec::new()));
        shstrndx = secs.len() - 1;
    }
    for _ in 0..spec.filler_sections {
        let mut f = Sec::new(b"", k::SHT_PROGBITS, Vec::new());
        f.place = Place::Abs(0, 0);
        secs.push(f);
    }
    // section-name string table (names deduplicated; suffix sharing is not attempted)
    let mut name_offs: Vec<u32> = Vec::with_capacity(secs.len());
    if shstrndx != 0 {
        let mut tab = vec![0u8];
        let mut seen: std::collections::HashMap<Vec<u8>, u32> = std::collections::HashMap::new();
        seen.insert(Vec::new(), 0);
        for s in &secs {
            let off = match seen.get(&s.name) {
                Some(o) => *o,
                None => {
                    let o = tab.len() as u32;
                    tab.extend_from_slice(&s.name);
                    tab.push(0);
                    seen.insert(s.name.clone(), o);
                    o
                }
            };
            name_offs.push(off);
        }
        secs[shstrndx].body = tab;
    } else {
        name_offs.resize(secs.len(), 0);
    }

    let shnum = secs.len();
    let phnum = spec.segs.len() + spec.filler_segments;

    // ---- layout ----
    let mut bytes: Vec<u8> = vec![0u8; ehsize];
    let mut sec_off: Vec<u64> = vec![0; secs.len()];
    let mut sec_size: Vec<u64> = vec![0; secs.len()];
    let mut shoff = 0usize;
    let mut phoff = 0usize;
    let gap = |rng: &mut Rng, bytes: &mut Vec<u8>| {
        if spec.max_gap > 0 {
            let g = rng.usize_below(spec.max_gap + 1);
            for _ in 0..g {
                bytes.push(rng.next_u64() as u8);
            }
        }
    };
    for part in spec.order {
        match part {
            Part::Phdrs => {
                if spec.has_phdrs {
                    gap(rng, &mut bytes);
                    phoff = bytes.len();
                    bytes.resize(phoff + phnum * phentsize, 0);
                }
            }
            Part::Shdrs => {
                if spec.has_shdrs {
                    gap(rng, &mut bytes);
                    shoff = bytes.len();
                    bytes.resize(shoff + shnum * shentsize, 0);
                }
            }
            Part::Bodies => {
                for (i, s) in secs.iter().enumerate() {
                    if s.place != Place::Body || i == 0 {
                        continue;
                    }
                    gap(rng, &mut bytes);
                    let at = align_up(bytes.len(), s.file_align);
                    bytes.resize(at, 0);
                    sec_off[i] = at as u64;
                    sec_size[i] = s.body.len() as u64;
                    bytes.extend_from_slice(&s.body);
                }
            }
        }
    }
    for _ in 0..spec.trailing {
        bytes.push(rng.next_u64() as u8);
    }
    let file_len = bytes.len() as u64;
    // views
    for (i, s) in secs.iter().enumerate() {
        let (o, z) = match &s.place {
            Place::Body => continue,
            Place::ShareStart(j, size) => (sec_off[*j], *size),
            Place::ShareEnd(j, size) => ((sec_off[*j].wrapping_add(sec_size[*j])).saturating_sub(*size), *size),
            Place::TouchEof(size) => (file_len.saturating_sub(*size), (*size).min(file_len)),
            Place::PastEof(size, over) => ((file_len.wrapping_add(*over)).saturating_sub(*size), *size),
            Place::Abs(o, z) => (*o, *z),
        };
        sec_off[i] = o;
        sec_size[i] = z;
    }

    let mut fields: Vec<Field> = Vec::new();
    let mut put_rec = |bytes: &mut Vec<u8>, fields: &mut Vec<Field>, at: usize, rec: &Rec, label: &str, record_fields: bool| {
        let mut o = at;
        for (fd, v) in crate::codec::layout(rec.st, rec.c64).iter().zip(rec.v.iter()) {
            enc.put_at(bytes, o, *v, fd.w);
            if record_fields {
                fields.push(Field { off: o, w: fd.w, name: format!("{label}.{}", fd.name) });
            }
            o += fd.w;
        }
    };

    // ---- section headers ----
    let mut sec_truth: Vec<SecTruth> = Vec::with_capacity(secs.len());
    for (i, s) in secs.iter().enumerate() {
        let mut r = Rec::zero(St::Shdr, c64);
        let declared = s.size_override.unwrap_or(sec_size[i]);
        r.set("sh_name", name_offs[i] as u64)
            .set("sh_type", s.sh_type as u64)
            .set("sh_flags", s.flags)
            .set("sh_addr", s.addr)
            .set("sh_offset", sec_off[i])
            .set("sh_size", declared)
            .set("sh_link", s.link as u64)
            .set("sh_info", s.info as u64)
            .set("sh_addralign", s.addralign)
            .set("sh_entsize", s.entsize);
        if i == 0 {
            // extended numbering lives in shdr[0]
            if shnum as u64 >= k::SHN_LORESERVE {
                r.set("sh_size", shnum as u64);
            }
            if shstrndx as u64 >= k::SHN_LORESERVE {
                r.set("sh_link", shstrndx as u64);
            }
            if phnum as u64 >= k::PN_XNUM {
                r.set("sh_info", phnum as u64);
            }
        }
        if spec.has_shdrs {
            let rec_fields = i < 48 || i + 4 >= secs.len();
            put_rec(&mut bytes, &mut fields, shoff + i * shentsize, &r, &format!("shdr[{i}]"), rec_fields);
        }
        sec_truth.push(SecTruth { name: s.name.clone(), off: r.get("sh_offset"), size: r.get("sh_size"), hdr: r });
    }

    // ---- program headers ----
    let mut seg_truth: Vec<Rec> = Vec::with_capacity(phnum);
    for (j, g) in spec.segs.iter().enumerate() {
        let (o, z) = match &g.range {
            SegRange::OfSection(i) => (sec_off[*i], sec_size[*i]),
            SegRange::Span(a, b) => {
                let s = sec_off[*a];
                let e = sec_off[*b].wrapping_add(sec_size[*b]);
                (s, e.saturating_sub(s))
            }
            SegRange::Abs(o, z) => (*o, *z),
            SegRange::TouchEof(size) => (file_len.saturating_sub(*size), (*size).min(file_len)),
            SegRange::PastEof(size, over) => ((file_len.wrapping_add(*over)).saturating_sub(*size), *size),
        };
        let mut r = Rec::zero(St::Phdr, c64);
        r.set("p_type", g.p_type as u64)
            .set("p_flags", g.flags as u64)
            .set("p_offset", o)
            .set("p_vaddr", g.vaddr)
            .set("p_paddr", g.paddr)
            .set("p_filesz", z)
            .set("p_memsz", z.wrapping_add(g.memsz_extra))
            .set("p_align", g.align);
        if spec.has_phdrs {
            put_rec(&mut bytes, &mut fields, phoff + j * phentsize, &r, &format!("phdr[{j}]"), true);
        }
        seg_truth.push(r);
    }
    for j in spec.segs.len()..phnum {
        let r = Rec::zero(St::Phdr, c64);
        seg_truth.push(r);
        // PT_NULL fillers are all-zero: the bytes are already zero
        let _ = j;
    }

    // ---- ELF header ----
    // identity fields nobody chose (still at their defaults) are drawn from the constant pools: no answer of the
    // crate may depend on them, so every generated file varies them
    let (mut e_type, mut e_machine, mut osabi, mut abiversion) = (spec.e_type, spec.e_machine, spec.osabi, spec.abiversion);
    if e_type == 3 && e_machine == 62 && osabi == 0 && abiversion == 0 {
        e_type = crate::abi_table::pick(rng, "ET_", &[1, 2, 3, 4], 16) as u16;
        e_machine = crate::abi_table::pick(rng, "EM_", &[3, 40, 62, 183, 243, 8, 20], 16) as u16;
        osabi = crate::abi_table::pick(rng, "ELFOSABI_", &[0, 3, 9], 8) as u8;
        abiversion = if rng.chance(3, 4) { 0 } else { rng.next_u64() as u8 };
    }
    let ident = [0x7f, b'E', b'L', b'F', if c64 { 2 } else { 1 }, if enc.big { 2 } else { 1 }, 1, osabi, abiversion, 0, 0, 0, 0, 0, 0, 0];
    bytes[..16].copy_from_slice(&ident);
    for (i, n) in ["EI_MAG0", "EI_MAG1", "EI_MAG2", "EI_MAG3", "EI_CLASS", "EI_DATA", "EI_VERSION", "EI_OSABI", "EI_ABIVERSION"].iter().enumerate() {
        fields.push(Field { off: i, w: 1, name: format!("ident.{n}") });
    }
    let mut eh = Rec::zero(St::EhdrTail, c64);
    eh.set("e_type", e_type as u64)
        .set("e_machine", e_machine as u64)
        .set("e_version", 1)
        .set("e_entry", spec.e_entry)
        .set("e_phoff", if spec.has_phdrs { phoff as u64 } else { 0 })
        .set("e_shoff", if spec.has_shdrs { shoff as u64 } else { 0 })
        .set("e_flags", spec.e_flags as u64)
        .set("e_ehsize", ehsize as u64)
        .set("e_phentsize", if spec.has_phdrs { phentsize as u64 } else { 0 })
        .set("e_phnum", if !spec.has_phdrs { 0 } else if phnum as u64 >= k::PN_XNUM { k::PN_XNUM } else { phnum as u64 })
        .set("e_shentsize", if spec.has_shdrs { shentsize as u64 } else { 0 })
        .set("e_shnum", if !spec.has_shdrs || shnum as u64 >= k::SHN_LORESERVE { 0 } else { shnum as u64 })
        .set("e_shstrndx", if !spec.has_shdrs { 0 } else if shstrndx as u64 >= k::SHN_LORESERVE { k::SHN_XINDEX } else { shstrndx as u64 });
    put_rec(&mut bytes, &mut fields, 16, &eh, "ehdr", true);

    Built {
        enc,
        bytes,
        fields,
        secs: sec_truth,
        segs: seg_truth,
        shoff: if spec.has_shdrs { shoff as u64 } else { 0 },
        phoff: if spec.has_phdrs { phoff as u64 } else { 0 },
        shnum: if spec.has_shdrs { shnum } else { 0 },
        phnum: if spec.has_phdrs { phnum } else { 0 },
        shstrndx,
    }
}

impl Built {
    pub fn field(&self, name: &str) -> Option<&Field> {
        self.fields.iter().find(|f| f.name == name)
    }
    /// overwrite a header field in place
    pub fn poke(&mut self, name: &str, v: u64) -> bool {
        if let Some(f) = self.fields.iter().find(|f| f.name == name).cloned() {
            self.enc.put_at(&mut self.bytes, f.off, v, f.w);
            true
        } else {
            false
        }
    }
}

//! Linker-style builders for `.hash` (gABI) and `.gnu.hash` (GNU) sections.
use crate::codec::Enc;
use crate::reference::hash::{ref_gnu_hash, ref_sysv_hash};

/// gABI: nbucket, nchain, bucket[nbucket], chain[nchain]; nchain = number of symbols.
/// Symbols 1.. are all hashed.
pub fn build_sysv(enc: Enc, names: &[Vec<u8>], nbucket: u32) -> Vec<u8> {
    let nchain = names.len() as u32;
    let mut bucket = vec![0u32; nbucket as usize];
    let mut chain = vec![0u32; nchain as usize];
    // the gABI does not fix the order in which a chain visits its symbols: increasing index (ld prepends while walking
    // the symbols backwards), decreasing, or any other order (derived from the names, so a table is reproducible)
    let mut order: Vec<usize> = (1..names.len()).collect();
    let digest = names.iter().fold(0xcbf29ce484222325u64, |h, n| crate::rng::mix(h, crate::rng::fnv64(n)));
    match digest % 3 {
        0 => order.reverse(),
        1 => {}
        _ => order.sort_by_key(|i| crate::rng::mix(digest, *i as u64)),
    }
    for i in order {
        let b = (ref_sysv_hash(&names[i]) % nbucket) as usize;
        chain[i] = bucket[b];
        bucket[b] = i as u32;
    }
    let mut out = Vec::new();
    enc.put(&mut out, nbucket as u64, 4);
    enc.put(&mut out, nchain as u64, 4);
    for b in bucket {
        enc.put(&mut out, b as u64, 4);
    }
    for c in chain {
        enc.put(&mut out, c as u64, 4);
    }
    out
}

#[derive(Clone, Debug)]
pub struct GnuParams {
    pub nbucket: u32,
    pub symoffset: u32,
    pub bloom_size: u32,
    pub shift: u32,
}

/// Reorder `names` so that symbols >= symoffset are sorted by bucket, as `.gnu.hash` requires.
pub fn gnu_sort(names: &mut [Vec<u8>], p: &GnuParams) {
    let so = (p.symoffset as usize).min(names.len());
    names[so..].sort_by_key(|n| ref_gnu_hash(n) % p.nbucket);
}

/// GNU format: nbuckets, symoffset, bloom_size, bloom_shift, bloom[bloom_size] (class-size
/// words), buckets[nbuckets], chain[nsyms - symoffset]. `names` must already be gnu_sort-ed.
pub fn build_gnu(enc: Enc, names: &[Vec<u8>], p: &GnuParams) -> Vec<u8> {
    let c: u32 = if enc.c64 { 64 } else { 32 };
    let so = (p.symoffset as usize).min(names.len());
    let mut bloom = vec![0u64; p.bloom_size as usize];
    let mut buckets = vec![0u32; p.nbucket as usize];
    let mut chain = vec![0u32; names.len() - so];
    for i in so..names.len() {
        let h = ref_gnu_hash(&names[i]);
        if p.bloom_size > 0 {
            let w = ((h / c) % p.bloom_size) as usize;
            bloom[w] |= 1u64 << (h % c);
            bloom[w] |= 1u64 << ((h >> p.shift) % c);
        }
        let b = (h % p.nbucket) as usize;
        if buckets[b] == 0 {
            buckets[b] = i as u32;
        }
        let last = i + 1 == names.len() || ref_gnu_hash(&names[i + 1]) % p.nbucket != h % p.nbucket;
        chain[i - so] = (h & !1) | last as u32;
    }
    let mut out = Vec::new();
    enc.put(&mut out, p.nbucket as u64, 4);
    enc.put(&mut out, p.symoffset as u64, 4);
    enc.put(&mut out, p.bloom_size as u64, 4);
    enc.put(&mut out, p.shift as u64, 4);
    for w in bloom {
        enc.put(&mut out, w, if enc.c64 { 8 } else { 4 });
    }
    for b in buckets {
        enc.put(&mut out, b as u64, 4);
    }
    for ch in chain {
        enc.put(&mut out, ch as u64, 4);
    }
    out
}

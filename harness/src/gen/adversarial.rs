//! Adversarial link structures for C16/C01: cyclic hash chains, chains without stop bits,
//! version records with degenerate next-offsets and absurd counts, notes with huge sizes.
use crate::codec::{size_of, Enc, Rec, St};
use crate::gen::elf::{ObjSpec, Sec};
use crate::gen::symtab;
use crate::rng::Rng;
use crate::codec::k;

pub struct HashCase {
    pub hash: Vec<u8>,
    pub symtab: Vec<u8>,
    pub strtab: Vec<u8>,
    pub queries: Vec<Vec<u8>>,
    pub what: String,
}

/// SysV table whose chains contain a cycle of length `cycle` (1 = self-loop), with symbols
/// whose names never match the queries, so that a walk only ends by its own bound.
pub fn sysv_cycle(rng: &mut Rng, enc: Enc, nsyms: usize, cycle: usize, variant: u64) -> HashCase {
    let nsyms = nsyms.max(2);
    let names: Vec<Vec<u8>> = (0..nsyms).map(|i| if i == 0 { Vec::new() } else { format!("sym{i}").into_bytes() }).collect();
    let mut tab = symtab::build(enc, &names, rng);
    let arche = if rng.bool() { Some(symtab::apply_archetype(&mut tab, rng)) } else { None };
    let nbucket = 1 + rng.below(4) as u32;
    let mut nchain = nsyms as u64;
    let mut bucket = vec![0u64; nbucket as usize];
    let mut chain = vec![0u64; nsyms];
    let cyc = cycle.clamp(1, nsyms - 1);
    // cycle over symbols 1..=cyc
    for i in 1..=cyc {
        chain[i] = if i == cyc { 1 } else { (i + 1) as u64 };
    }
    for b in bucket.iter_mut() {
        *b = 1 + rng.below(cyc as u64);
    }
    let mut what = format!("sysv cycle of length {cyc} over {nsyms} symbols, nbucket {nbucket}");
    match variant % 5 {
        1 => {
            // chain pointing outside the symbol table / chain array
            chain[cyc] = nsyms as u64 + rng.below(1000);
            what.push_str(", chain escapes the table");
        }
        2 => {
            // nchain claims far more than present (table truncated)
            nchain = 0xffff_ffff;
            what.push_str(", nchain=2^32-1");
        }
        3 => {
            // bucket -> index 0
            bucket[0] = 0;
            what.push_str(", bucket[0]=0");
        }
        4 => {
            // huge cycle through high indexes
            for (i, c) in chain.iter_mut().enumerate() {
                *c = ((i + 1) % nsyms) as u64;
            }
            what.push_str(", one cycle through every symbol");
        }
        _ => {}
    }
    // the Alpha and s390x ELF64 ABIs use 8-byte hash words (sh_entsize 8): the same table with wide words now and then
    let w = if enc.c64 && (variant >> 12) % 4 == 0 { 8 } else { 4 };
    if w == 8 {
        what.push_str(", 64-bit hash words");
    }
    let mut hash = Vec::new();
    enc.put(&mut hash, nbucket as u64, w);
    enc.put(&mut hash, nchain, w);
    for b in &bucket {
        enc.put(&mut hash, *b, w);
    }
    for c in &chain {
        enc.put(&mut hash, *c, w);
    }
    if let Some(a) = arche {
        what.push_str(", ");
        what.push_str(&a);
    }
    let queries = vec![b"absent".to_vec(), b"".to_vec(), b"sym".to_vec(), format!("sym{}", nsyms + 5).into_bytes()];
    HashCase { hash, symtab: tab.symtab, strtab: tab.strtab, queries, what }
}

/// GNU table whose chains never carry a stop bit and whose hash words all match the query
/// hash modulo bit 0, so that every chain entry is compared.
pub fn gnu_nostop(rng: &mut Rng, enc: Enc, nsyms: usize, variant: u64) -> HashCase {
    use crate::reference::hash::ref_gnu_hash;
    let nsyms = nsyms.max(2);
    let names: Vec<Vec<u8>> = (0..nsyms).map(|i| if i == 0 { Vec::new() } else { format!("gsym{i}").into_bytes() }).collect();
    let mut tab = symtab::build(enc, &names, rng);
    let arche = if rng.bool() { Some(symtab::apply_archetype(&mut tab, rng)) } else { None };
    // the name every walker asks for (walk.rs NAMES) and that no generated symbol has
    let query = b"memset".to_vec();
    let h = ref_gnu_hash(&query);
    let nbucket = 1 + rng.below(3);
    // the table's index space sometimes sits at the very top of the 32-bit range: symbol index = start + chain index
    // then runs past 2^32 (the symbol table is far smaller; lookups must fail cleanly)
    let top = (variant >> 8) % 5 == 0;
    let symoffset = if top { 0xffff_ffffu64 - rng.below(4) } else { 1u64 };
    let bloom_size = 1u64 << rng.below(3);
    let shift = rng.below(32);
    let mut hash = Vec::new();
    enc.put(&mut hash, nbucket, 4);
    enc.put(&mut hash, symoffset, 4);
    enc.put(&mut hash, bloom_size, 4);
    enc.put(&mut hash, shift, 4);
    for _ in 0..bloom_size {
        enc.put(&mut hash, u64::MAX, if enc.c64 { 8 } else { 4 }); // saturated bloom filter
    }
    let mut what = format!("gnu chains without stop bit, {nsyms} symbols, nbucket {nbucket}");
    for b in 0..nbucket {
        let v = match variant % 4 {
            1 if b == 0 => {
                what.push_str(", bucket start beyond the chain array");
                nsyms as u64 + 1000
            }
            2 => 0xffff_ffff,
            _ if top => (symoffset + rng.below(3)).min(0xffff_ffff),
            _ => 1 + rng.below(nsyms as u64 - 1),
        };
        enc.put(&mut hash, v, 4);
    }
    if top {
        what.push_str(", symbol indexes start at 2^32-1-d");
    }
    let lead = if top { 1 + rng.below(4) } else { 0 };
    for i in 1..nsyms {
        // same hash as the query, stop bit clear (behind a few entries with another hash when the index space is at the
        // top, so that the first match is not the first chain entry)
        let w = if variant % 4 == 3 { rng.next_u64() & 0xffff_fffe } else if (i as u64) <= lead { ((h ^ 0x10) & !1) as u64 } else { (h & !1) as u64 };
        enc.put(&mut hash, w, 4);
    }
    if let Some(a) = arche {
        what.push_str(", ");
        what.push_str(&a);
    }
    HashCase { hash, symtab: tab.symtab, strtab: tab.strtab, queries: vec![query, b"".to_vec(), b"gsym1".to_vec()], what }
}

pub struct VerCase {
    pub versym: Vec<u8>,
    pub verneed: Vec<u8>,
    pub verdef: Vec<u8>,
    pub strtab: Vec<u8>,
    pub need_count: u64,
    pub def_count: u64,
    pub what: String,
}

/// Overlapping version records at a small stride, with large declared counts.
pub fn ver_overlap(rng: &mut Rng, enc: Enc, total: usize, variant: u64) -> VerCase {
    let total = total.max(64);
    let stride = 1 + rng.below(20);
    let mut verneed = vec![0u8; total];
    let mut verdef = vec![0u8; total];
    let (mut need_count, mut def_count) = (0xffff_ffffu64, 0xffff_ffffu64);
    let mut what = String::new();
    match variant % 8 {
        0 | 1 => {
            // the n^2 shape: the first half holds back-to-back top records (count 0xffff each), every
            // one of which points into the second half, which is filled with the 32-bit word `aux_stride`:
            // read as an aux record at any 4-aligned offset it links `aux_stride` bytes ahead.
            let aux_stride: u64 = 4 * (1 + rng.below(3));
            let half = (total / 2) & !3;
            for (buf, top, next_f, aux_f, cnt_f, ver_f, size) in [
                (&mut verneed, St::Verneed, "vn_next", "vn_aux", "vn_cnt", "vn_version", 16usize),
                (&mut verdef, St::Verdef, "vd_next", "vd_aux", "vd_cnt", "vd_version", 20usize),
            ] {
                let mut off = half;
                while off + 4 <= total {
                    enc.put_at(buf, off, aux_stride, 4);
                    off += 4;
                }
                let mut off = 0usize;
                while off + size <= half {
                    let mut r = Rec::zero(top, enc.c64).with(ver_f, 1).with(cnt_f, 0xffff).with(aux_f, (half - off) as u64).with(next_f, size as u64);
                    if top == St::Verdef {
                        r.set("vd_ndx", 0x7ffe);
                    }
                    let b = r.bytes(enc);
                    buf[off..off + size].copy_from_slice(&b);
                    off += size;
                }
            }
            let _ = stride;
            what = format!("{} back-to-back top records (cnt 0xffff) each pointing at an aux region of {} bytes with stride {aux_stride}; counts 2^32-1", half / 16, total - half);
        }
        2 => {
            // next = 0 on the first record, count huge
            Rec::zero(St::Verneed, enc.c64).with("vn_version", 1).with("vn_cnt", 0xffff).with("vn_aux", 16).with("vn_next", 0).bytes(enc).iter().enumerate().for_each(|(i, b)| verneed[i] = *b);
            Rec::zero(St::Verdef, enc.c64).with("vd_version", 1).with("vd_cnt", 0xffff).with("vd_aux", 20).with("vd_next", 0).bytes(enc).iter().enumerate().for_each(|(i, b)| verdef[i] = *b);
            what = "first record has next=0, counts 2^32-1, aux lists with next=0".to_string();
        }
        3 => {
            // fill everything with a pattern in which *every* byte offset parses as a record (version word 1 everywhere is impossible;
            // instead: 2-byte period 00 01 / 01 00 so that every even offset has version 1) and next = 2
            for (i, b) in verneed.iter_mut().enumerate() {
                *b = if (i % 2 == 1) != enc.big { 0 } else { 1 };
            }
            verdef.copy_from_slice(&verneed);
            what = "period-2 pattern: every even offset is a record with version 1 and tiny next".to_string();
        }
        4 => {
            // next-offsets up to 2^32-1
            Rec::zero(St::Verneed, enc.c64).with("vn_version", 1).with("vn_cnt", 3).with("vn_aux", 0xffff_ffff).with("vn_next", 0xffff_fff0).bytes(enc).iter().enumerate().for_each(|(i, b)| verneed[i] = *b);
            Rec::zero(St::Verdef, enc.c64).with("vd_version", 1).with("vd_cnt", 3).with("vd_aux", 0xffff_ffff).with("vd_next", 0xffff_fff0).bytes(enc).iter().enumerate().for_each(|(i, b)| verdef[i] = *b);
            what = "aux/next offsets near 2^32".to_string();
        }
        5 => {
            // a second record whose next-offset is near 2^32: on a 32-bit usize offset + next overflows
            let n2 = [0xffff_fff0u64, 0xffff_ffff, 0xffff_fffc, 0x8000_0000][rng.usize_below(4)];
            let a2 = [0xffff_fff0u64, 0x10, 0xffff_ffff][rng.usize_below(3)];
            Rec::zero(St::Verneed, enc.c64).with("vn_version", 1).with("vn_cnt", 1).with("vn_aux", 16).with("vn_next", 16).bytes(enc).iter().enumerate().for_each(|(i, b)| verneed[i] = *b);
            Rec::zero(St::Verneed, enc.c64).with("vn_version", 1).with("vn_cnt", 2).with("vn_aux", a2).with("vn_next", n2).bytes(enc).iter().enumerate().for_each(|(i, b)| verneed[16 + i] = *b);
            Rec::zero(St::Verdef, enc.c64).with("vd_version", 1).with("vd_cnt", 1).with("vd_aux", 20).with("vd_next", 20).bytes(enc).iter().enumerate().for_each(|(i, b)| verdef[i] = *b);
            Rec::zero(St::Verdef, enc.c64).with("vd_version", 1).with("vd_cnt", 2).with("vd_aux", a2).with("vd_next", n2).bytes(enc).iter().enumerate().for_each(|(i, b)| verdef[20 + i] = *b);
            what = format!("second record has next={n2:#x}, aux={a2:#x} (offset + next overflows a 32-bit usize)");
        }
        6 => {
            // small declared counts over chains that go on: top records with cnt 0..3 (and any vd_ndx / vn_file) whose
            // aux chains never end, in a top chain longer than the declared number of records
            let aux_stride: u64 = 4 * (1 + rng.below(3));
            let half = (total / 2) & !3;
            for (buf, top, next_f, aux_f, cnt_f, ver_f, size) in [
                (&mut verneed, St::Verneed, "vn_next", "vn_aux", "vn_cnt", "vn_version", 16usize),
                (&mut verdef, St::Verdef, "vd_next", "vd_aux", "vd_cnt", "vd_version", 20usize),
            ] {
                let mut off = half;
                while off + 4 <= total {
                    enc.put_at(buf, off, aux_stride, 4);
                    off += 4;
                }
                let mut off = 0usize;
                while off + size <= half {
                    let mut r = Rec::zero(top, enc.c64).with(ver_f, 1).with(cnt_f, rng.below(4)).with(aux_f, (half - off) as u64).with(next_f, size as u64);
                    if top == St::Verdef {
                        r.set("vd_ndx", *rng.pick(&[1u64, 2, 5, 9, 0x7fff, 0xffff]));
                        r.set("vd_flags", rng.below(4));
                    } else {
                        r.set("vn_file", *rng.pick(&[1u64, 5, 9, 0xffff]));
                    }
                    let b = r.bytes(enc);
                    buf[off..off + size].copy_from_slice(&b);
                    off += size;
                }
            }
            need_count = rng.below(4);
            def_count = rng.below(4);
            what = format!("top records with cnt 0..3 over endless aux chains (stride {aux_stride}); declared counts {need_count} / {def_count} over {} chained records", half / 20);
        }
        _ => {
            rng.fill(&mut verneed);
            rng.fill(&mut verdef);
            // make the first record valid so that iteration starts
            enc.put_at(&mut verneed, 0, 1, 2);
            enc.put_at(&mut verdef, 0, 1, 2);
            need_count = rng.boundary(32);
            def_count = rng.boundary(32);
            what = "random bytes with a valid first version word".to_string();
        }
    }
    let nsym = 8 + rng.usize_below(16);
    let mut versym = Vec::new();
    for i in 0..nsym {
        // indexes that match nothing, so that every scan runs to the end
        enc.put(&mut versym, (0x7000 + i as u64) | if i % 3 == 0 { 0x8000 } else { 0 }, 2);
    }
    let mut strtab = vec![0u8];
    strtab.extend_from_slice(b"lib.so\0V1\0");
    VerCase { versym, verneed, verdef, strtab, need_count, def_count, what }
}

/// Notes whose sizes claim up to 2^32-1 bytes.
pub fn huge_notes(rng: &mut Rng, enc: Enc) -> (Vec<u8>, u64) {
    let mut out = Vec::new();
    let n = 1 + rng.usize_below(4);
    for _ in 0..n {
        let namesz = if rng.bool() { rng.boundary(32) } else { rng.below(8) };
        let descsz = if rng.bool() { rng.boundary(32) } else { rng.below(8) };
        enc.put(&mut out, namesz, 4);
        enc.put(&mut out, descsz, 4);
        enc.put(&mut out, rng.boundary(32), 4);
        let real = rng.usize_below(24);
        let t = rng.bytes(real);
        out.extend_from_slice(&t);
    }
    let align = crate::gen::notes::ALIGNS[rng.usize_below(crate::gen::notes::ALIGNS.len())];
    (out, align)
}

/// Wrap adversarial pieces in a full object so that the file-level accessors reach them.
pub fn wrap_in_object(enc: Enc, hash: Option<(&HashCase, bool)>, ver: Option<&VerCase>, notes: Option<(&[u8], u64)>) -> ObjSpec {
    let mut spec = ObjSpec::new(enc);
    let symsize = size_of(St::Sym, enc.c64) as u64;
    if let Some((h, gnu)) = hash {
        let strs = spec.add(Sec::new(b".dynstr", k::SHT_STRTAB, h.strtab.clone()));
        let mut ds = Sec::new(b".dynsym", k::SHT_DYNSYM, h.symtab.clone());
        ds.link = strs as u32;
        ds.entsize = symsize;
        let dsi = spec.add(ds);
        let mut hs = Sec::new(if gnu { b".gnu.hash" } else { b".hash" }, if gnu { k::SHT_GNU_HASH } else { k::SHT_HASH }, h.hash.clone());
        hs.link = dsi as u32;
        spec.add(hs);
    }
    if let Some(v) = ver {
        let strs = spec.add(Sec::new(b".verstr", k::SHT_STRTAB, v.strtab.clone()));
        let mut vs = Sec::new(b".gnu.version", k::SHT_GNU_VERSYM, v.versym.clone());
        vs.entsize = 2;
        spec.add(vs);
        let mut vr = Sec::new(b".gnu.version_r", k::SHT_GNU_VERNEED, v.verneed.clone());
        vr.link = strs as u32;
        vr.info = v.need_count as u32;
        spec.add(vr);
        let mut vd = Sec::new(b".gnu.version_d", k::SHT_GNU_VERDEF, v.verdef.clone());
        vd.link = strs as u32;
        vd.info = v.def_count as u32;
        spec.add(vd);
    }
    if let Some((b, align)) = notes {
        let mut s = Sec::new(b".note.x", k::SHT_NOTE, b.to_vec());
        s.addralign = align;
        spec.add(s);
    }
    spec
}

/// Cyclic `sh_link` structures between section headers: two or three sections of one type linked in a ring (or one to
/// itself), and the other sections' links redirected into the ring. Whatever follows links from header to header
/// (string table of a symbol table, symbol table of a hash or version section, ...) must not follow them forever.
pub fn link_cycles(spec: &mut ObjSpec, rng: &mut Rng) -> String {
    let types = [k::SHT_DYNSYM, k::SHT_SYMTAB, k::SHT_STRTAB, k::SHT_GNU_VERNEED, k::SHT_GNU_VERDEF, k::SHT_GNU_VERSYM, k::SHT_HASH, k::SHT_GNU_HASH, k::SHT_DYNAMIC, k::SHT_REL, k::SHT_RELA];
    let present: Vec<u32> = types.iter().copied().filter(|t| spec.secs.iter().any(|s| s.sh_type == *t)).collect();
    if present.is_empty() {
        return "no typed sections".to_string();
    }
    let t = present[rng.usize_below(present.len())];
    let want = 2 + rng.usize_below(2);
    loop {
        let members: Vec<usize> = (0..spec.secs.len()).filter(|i| spec.secs[*i].sh_type == t).collect();
        if members.len() >= want {
            break;
        }
        let mut d = spec.secs[members[0]].clone();
        d.name.extend_from_slice(b".c");
        spec.add(d);
    }
    let members: Vec<usize> = (0..spec.secs.len()).filter(|i| spec.secs[*i].sh_type == t).take(want).collect();
    let self_loop = rng.chance(1, 6);
    for (j, &m) in members.iter().enumerate() {
        let next = if self_loop { m } else { members[(j + 1) % members.len()] };
        spec.secs[m].link = (next + 1) as u32;
    }
    let mut redirected = 0;
    for i in 0..spec.secs.len() {
        if !members.contains(&i) && spec.secs[i].link != 0 && rng.bool() {
            spec.secs[i].link = (members[rng.usize_below(members.len())] + 1) as u32;
            redirected += 1;
        }
    }
    format!("{} sections of type {t:#x} linked in a ring{}, {redirected} other links redirected into it", members.len(), if self_loop { " (self links)" } else { "" })
}

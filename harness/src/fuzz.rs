//! Entry point of the libFuzzer targets (/verif/fuzz) and of `elfmon fuzzcase`: judge one
//! coverage-guided input with the oracle of a property. Returns (property, signature, detail).
use crate::codec::Enc;
use crate::ctx::{Ctx, Tier};
use crate::monitor::io::Policy;
use crate::props;
use crate::rng::{fnv64, Rng};

pub const TARGETS: [&str; 8] = ["walker", "decode", "tostr", "notes", "strtab", "stream", "ranges", "locate"];

fn ctx_for(prop: &'static str, data: &[u8]) -> Ctx {
    let mut c = Ctx::new(prop, Tier::Quick, 1, 1, 1); // shard 1: no samples
    c.rng = Rng::new(fnv64(data));
    c
}

fn collect(out: &mut Vec<(String, String, String)>, c: &Ctx) {
    for v in &c.violations {
        out.push((v.property.clone(), v.sig.clone(), v.detail.replace('\n', " ")));
    }
}

pub fn fuzz_one(target: &str, data: &[u8]) -> Vec<(String, String, String)> {
    crate::monitor::panic::install_quiet_only_if_unset();
    let mut out = Vec::new();
    match target {
        "walker" => {
            let n = data.len() as u64;
            let salt = n.wrapping_mul(0x9E37_79B9_7F4A_7C15) ^ data.first().copied().unwrap_or(0) as u64;
            let mut c = ctx_for("C01", data);
            props::c01::walk_all_specs(&mut c, data, "fuzz input", salt, 256);
            collect(&mut out, &c);
            let mut c = ctx_for("C16", data);
            props::c16::walk_one(&mut c, data, "fuzz input", salt, 256);
            collect(&mut out, &c);
        }
        "decode" => {
            if data.len() < 2 {
                return out;
            }
            let mut c = ctx_for("C02", data);
            let enc = Enc::ALL[(data[1] & 3) as usize];
            props::c02::decode_bytes(&mut c, data[0] as u64, enc, data[1] & 4 != 0, &data[2..]);
            collect(&mut out, &c);
        }
        "tostr" => {
            if data.len() < 9 {
                return out;
            }
            let mut c = ctx_for("C19", data);
            let which = (data[0] % 10) as u64;
            let mut v = [0u8; 8];
            v.copy_from_slice(&data[1..9]);
            let raw = u64::from_le_bytes(v);
            let val: i128 = match which {
                0 | 5 | 6 | 7 => (raw & 0xff) as i128,
                1 | 2 => (raw & 0xffff) as i128,
                3 | 4 | 8 => (raw & 0xffff_ffff) as i128,
                _ => raw as i64 as i128,
            };
            let names = props::c19::names();
            props::c19::check_value(&mut c, &names, which, val);
            collect(&mut out, &c);
        }
        "notes" => {
            if data.is_empty() {
                return out;
            }
            let mut c = ctx_for("C14", data);
            let enc = Enc::ALL[(data[0] & 3) as usize];
            let align = [4u64, 8, 1, 2, 16, 3, 0, 32][((data[0] >> 2) & 7) as usize];
            props::c14::standalone(&mut c, enc, align, &data[1..], data[0] & 0x80 != 0);
            collect(&mut out, &c);
        }
        "strtab" => {
            if data.len() < 3 {
                return out;
            }
            let mut c = ctx_for("C15", data);
            let table = &data[3..];
            let lo = u16::from_le_bytes([data[1], data[2]]) as usize;
            let off = match data[0] & 7 {
                0 => lo,
                1 => table.len().wrapping_sub(lo & 7),
                2 => usize::MAX - (lo & 15),
                3 => (1usize << (usize::BITS / 2)) | lo,
                4 => ((lo >> 8) << (usize::BITS - 8)) | (lo & 0xff),
                _ => lo % (table.len() + 2),
            };
            props::c15::check_lookup(&mut c, table, off);
            collect(&mut out, &c);
        }
        "stream" => {
            let mut c = ctx_for("C07", data);
            props::c07::judge_file(&mut c, data, "fuzz input", 24);
            collect(&mut out, &c);
            let mut c = ctx_for("C08", data);
            props::c08::judge_file(&mut c, data, "fuzz input", Policy::default(), true);
            collect(&mut out, &c);
        }
        "ranges" => {
            let mut c = ctx_for("C03", data);
            props::c03::judge_bytes(&mut c, data);
            collect(&mut out, &c);
        }
        "locate" => {
            let mut c = ctx_for("C05", data);
            props::c05::judge_open(&mut c, data, "fuzz input");
            collect(&mut out, &c);
        }
        _ => {}
    }
    out
}

/// Seed corpus for a target, from the same generators the checks use.
pub fn seed_inputs(target: &str, seed: u64, count: u64) -> Vec<Vec<u8>> {
    use crate::codec::{layout, size_of, ALL_ST};
    let mut v = Vec::new();
    for i in 0..count {
        let mut rng = Rng::from_parts(&[seed, fnv64(target.as_bytes()), i]);
        let b: Vec<u8> = match target {
            "decode" => {
                let ty = rng.below(17);
                let encb = rng.below(8) as u8;
                let enc = Enc::ALL[(encb & 3) as usize];
                let st = [crate::codec::St::Shdr, crate::codec::St::Phdr, crate::codec::St::Sym, crate::codec::St::Rel, crate::codec::St::Rela, crate::codec::St::Dyn, crate::codec::St::Chdr, crate::codec::St::SysvHashHdr, crate::codec::St::GnuHashHdr, crate::codec::St::Versym, crate::codec::St::Verdef, crate::codec::St::Verdaux, crate::codec::St::Verneed, crate::codec::St::Vernaux, crate::codec::St::AbiTag, crate::codec::St::Word32, crate::codec::St::Word64][ty as usize];
                let _ = (layout(st, enc.c64), ALL_ST);
                let mut b = vec![ty as u8, encb];
                let n = size_of(st, enc.c64) + rng.usize_below(4);
                b.extend_from_slice(&rng.bytes(n));
                if matches!(st, crate::codec::St::Verdef | crate::codec::St::Verneed) {
                    enc.put_at(&mut b, 2, 1, 2);
                }
                b
            }
            "tostr" => {
                let mut b = vec![rng.below(10) as u8];
                b.extend_from_slice(&rng.boundary(64).to_le_bytes());
                b
            }
            "notes" => {
                let enc = Enc::ALL[rng.usize_below(4)];
                let al = [4usize, 8, 1, 2, 16][rng.usize_below(5)];
                let sel = enc.idx() as u8 | (([4usize, 8, 1, 2, 16].iter().position(|a| *a == al).unwrap() as u8) << 2);
                let model = crate::gen::notes::gen_model(&mut rng, enc, 5);
                let mut b = vec![sel];
                b.extend_from_slice(&crate::gen::notes::emit(enc, al, &model, &mut rng, true));
                b
            }
            "strtab" => {
                let mut b = vec![rng.below(8) as u8, rng.next_u64() as u8, 0];
                let l = rng.usize_below(200);
                for _ in 0..l {
                    b.push(if rng.chance(1, 6) { 0 } else { 0x21 + rng.below(0x5e) as u8 });
                }
                b
            }
            _ => {
                let input = crate::corpus::gen_input(&mut rng, i % crate::corpus::KINDS, i % 3 == 0);
                if input.bytes.len() > 8192 {
                    continue;
                }
                input.bytes
            }
        };
        v.push(b);
    }
    v
}

//! Deterministic PRNG (splitmix64 seeding, xoshiro256**). Every random choice of the
//! harness derives from (VERIF_SEED, property, stratum, case index).

#[derive(Clone, Debug)]
pub struct Rng {
    s: [u64; 4],
}

pub fn splitmix(x: &mut u64) -> u64 {
    *x = x.wrapping_add(0x9E37_79B9_7F4A_7C15);
    let mut z = *x;
    z = (z ^ (z >> 30)).wrapping_mul(0xBF58_476D_1CE4_E5B9);
    z = (z ^ (z >> 27)).wrapping_mul(0x94D0_49BB_1331_11EB);
    z ^ (z >> 31)
}

/// 64-bit FNV-1a, used for digests of inputs and for deriving per-case seeds.
pub fn fnv64(data: &[u8]) -> u64 {
    let mut h: u64 = 0xcbf2_9ce4_8422_2325;
    for b in data {
        h ^= *b as u64;
        h = h.wrapping_mul(0x0000_0100_0000_01B3);
    }
    h
}

pub fn mix(a: u64, b: u64) -> u64 {
    let mut x = a ^ b.rotate_left(32) ^ 0x5851_F42D_4C95_7F2D;
    let r = splitmix(&mut x);
    r ^ splitmix(&mut x)
}

impl Rng {
    pub fn new(seed: u64) -> Self {
        let mut x = seed;
        let s = [splitmix(&mut x), splitmix(&mut x), splitmix(&mut x), splitmix(&mut x)];
        Rng { s }
    }
    pub fn from_parts(parts: &[u64]) -> Self {
        let mut h = 0x1234_5678_9abc_def0u64;
        for p in parts {
            h = mix(h, *p);
        }
        Rng::new(h)
    }
    pub fn next_u64(&mut self) -> u64 {
        let result = self.s[1].wrapping_mul(5).rotate_left(7).wrapping_mul(9);
        let t = self.s[1] << 17;
        self.s[2] ^= self.s[0];
        self.s[3] ^= self.s[1];
        self.s[1] ^= self.s[2];
        self.s[0] ^= self.s[3];
        self.s[2] ^= t;
        self.s[3] = self.s[3].rotate_left(45);
        result
    }
    pub fn next_u32(&mut self) -> u32 {
        (self.next_u64() >> 32) as u32
    }
    /// uniform in 0..n (n > 0)
    pub fn below(&mut self, n: u64) -> u64 {
        if n == 0 {
            return 0;
        }
        ((self.next_u64() as u128 * n as u128) >> 64) as u64
    }
    pub fn usize_below(&mut self, n: usize) -> usize {
        self.below(n as u64) as usize
    }
    /// uniform in lo..=hi
    pub fn range(&mut self, lo: u64, hi: u64) -> u64 {
        if hi <= lo {
            return lo;
        }
        let span = hi - lo;
        if span == u64::MAX {
            return self.next_u64();
        }
        lo + self.below(span + 1)
    }
    pub fn chance(&mut self, num: u64, den: u64) -> bool {
        self.below(den) < num
    }
    pub fn bool(&mut self) -> bool {
        self.next_u64() & 1 == 1
    }
    pub fn pick<'a, T>(&mut self, xs: &'a [T]) -> &'a T {
        &xs[self.usize_below(xs.len())]
    }
    pub fn fill(&mut self, buf: &mut [u8]) {
        for chunk in buf.chunks_mut(8) {
            let v = self.next_u64().to_le_bytes();
            let n = chunk.len();
            chunk.copy_from_slice(&v[..n]);
        }
    }
    pub fn bytes(&mut self, n: usize) -> Vec<u8> {
        let mut v = vec![0u8; n];
        self.fill(&mut v);
        v
    }
    pub fn shuffle<T>(&mut self, xs: &mut [T]) {
        for i in (1..xs.len()).rev() {
            let j = self.usize_below(i + 1);
            xs.swap(i, j);
        }
    }
    /// A value biased to boundaries of a `bits`-wide unsigned integer.
    pub fn boundary(&mut self, bits: u32) -> u64 {
        let max: u64 = if bits >= 64 { u64::MAX } else { (1u64 << bits) - 1 };
        let top: u64 = 1u64 << (bits - 1);
        let v = match self.below(14) {
            0 => 0,
            1 => 1,
            2 => 2,
            3 => top - 1,
            4 => top,
            5 => top + 1,
            6 => max,
            7 => max - 1,
            8 => 0x7f,
            9 => 0x80,
            10 => 0xff,
            11 => 0xffff,
            12 => 1u64 << self.below(bits as u64),
            _ => self.next_u64(),
        };
        v & max
    }
}

/// The boundary values the property quantifiers name for size/offset/count/link fields.
pub const FIELD_BOUNDARIES: [u64; 16] = [
    0,
    1,
    2,
    0x7f,
    0x80,
    0xff00,
    0xffff,
    0x7fff_ffff,
    0x8000_0000,
    0xffff_ffff,
    0x1_0000_0000,
    0x7fff_ffff_ffff_ffff,
    0x8000_0000_0000_0000,
    0xffff_ffff_ffff_fffe,
    0xffff_ffff_ffff_ffff,
    0xffff_ffff_ffff_fff0,
];

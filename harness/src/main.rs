//! elfmon — runtime monitors for cole14/rust-elf (see /verif/DESIGN.md).
//!
//!   elfmon run <Cxx> --tier quick|thorough|miri --seed N --shard i/n --out <file|->
//!   elfmon replay <Cxx> --tier T --seed N --stratum S --case K
//!   elfmon canary <monitor>...
//!   elfmon list
#![allow(clippy::all)]


use elfmon::ctx::{Ctx, Tier};
use elfmon::monitor::panic::{guard, PanicKind};
use elfmon::rng::{fnv64, Rng};
use elfmon::{monitor, props};


#[global_allocator]
static GLOBAL: monitor::alloc::CountingAlloc = monitor::alloc::CountingAlloc;

fn arg_val(args: &[String], name: &str) -> Option<String> {
    args.iter().position(|a| a == name).and_then(|i| args.get(i + 1).cloned())
}

fn parse_tier(s: &str) -> Tier {
    match s {
        "quick" => Tier::Quick,
        "thorough" => Tier::Thorough,
        "miri" => Tier::Miri,
        _ => {
            eprintln!("unknown tier {s}");
            std::process::exit(2)
        }
    }
}

pub fn case_rng(seed: u64, prop: &str, exhaustive: bool, stratum: usize, case: u64) -> Rng {
    let s = if exhaustive { 0 } else { seed };
    Rng::from_parts(&[s, fnv64(prop.as_bytes()), stratum as u64, case])
}

fn run_one(def: &props::PropDef, ctx: &mut Ctx, si: usize, exhaustive: bool, case: u64) {
    ctx.begin_case(case);
    #[cfg(not(miri))]
    monitor::hang::begin_case(&ctx.cur_stratum, case);
    ctx.rng = case_rng(ctx.seed, def.id, exhaustive, si, case);
    monitor::steps::reset(u64::MAX);
    let r = guard(|| (def.run)(ctx, si, case));
    // a monitored window may have been cut by a panic: make sure nothing stays armed
    let _ = monitor::alloc::disarm();
    if let Err(p) = r {
        match p.kind {
            PanicKind::Harness => ctx.inconclusive(format!("harness panic at {}:{}: {}", p.file, p.line, p.msg)),
            PanicKind::Budget => ctx.inconclusive(format!("unattributed step-budget cut: {}", p.msg)),
            PanicKind::IoBudget => ctx.violation("io-calls:unbounded", format!("the stream parser kept calling the reader without end: {}", p.msg)),
            PanicKind::Crate => {
                let sig = p.sig();
                ctx.violation(&sig, format!("panic escaped a monitored call: {} at {}:{}", p.msg, p.file, p.line));
            }
        }
    }
}

fn cmd_run(args: &[String]) -> i32 {
    let id = args.get(0).cloned().unwrap_or_default();
    let tier = parse_tier(&arg_val(args, "--tier").unwrap_or("quick".into()));
    let seed: u64 = arg_val(args, "--seed").and_then(|s| s.parse().ok()).unwrap_or(1);
    let shard_s = arg_val(args, "--shard").unwrap_or("0/1".into());
    let (shard, nshards) = {
        let mut it = shard_s.split('/');
        let a: u64 = it.next().and_then(|s| s.parse().ok()).unwrap_or(0);
        let b: u64 = it.next().and_then(|s| s.parse().ok()).unwrap_or(1);
        (a, b.max(1))
    };
    let out = arg_val(args, "--out").unwrap_or("-".into());
    let only_stratum = arg_val(args, "--only-stratum");
    let defs = props::all();
    let def = match defs.iter().find(|d| d.id == id) {
        Some(d) => d,
        None => {
            eprintln!("unknown property {id}");
            return 2;
        }
    };
    monitor::panic::install();
    let t0 = std::time::Instant::now();
    let mut ctx = Ctx::new(def.id, tier, seed, shard, nshards);
    ctx.progress_path = arg_val(args, "--progress");
    (def.setup)(&mut ctx);
    // --hang-limit S: a case that runs for S seconds of wall clock ends the worker with status 97 (see monitor::hang)
    #[cfg(not(miri))]
    if let Some(l) = arg_val(args, "--hang-limit").and_then(|s| s.parse::<u64>().ok()) {
        monitor::hang::start(l.max(1), ctx.progress_path.clone());
    }
    let strata = (def.strata)(tier);
    // --cases-div N: a reduced pass (used for the per-feature-configuration runs): every N-th case of every stratum
    // (same case addressing, so replays work); exhaustive strata are then not reported as exhaustive
    let div: u64 = arg_val(args, "--cases-div").and_then(|s| s.parse().ok()).unwrap_or(1).max(1);
    let was_exhaustive: Vec<bool> = strata.iter().map(|s| s.exhaustive).collect();
    for (si, s) in strata.iter().enumerate() {
        if let Some(o) = &only_stratum {
            if o != s.name {
                continue;
            }
        }
        ctx.begin_stratum(s.name);
        if s.exhaustive && div == 1 {
            ctx.exhaustive_strata.push(s.name.to_string());
        }
        let mut case = shard + nshards * (seed % div);
        while case < s.cases {
            run_one(def, &mut ctx, si, was_exhaustive[si], case);
            case += nshards * div;
        }
    }
    #[cfg(not(miri))]
    monitor::hang::finish();
    let json = ctx.to_json(t0.elapsed().as_secs_f64());
    if out == "-" {
        println!("@@REPORT@@ {json}");
    } else if let Err(e) = std::fs::write(&out, json) {
        eprintln!("cannot write {out}: {e}");
        return 2;
    }
    0
}

fn cmd_replay(args: &[String]) -> i32 {
    let id = args.get(0).cloned().unwrap_or_default();
    let tier = parse_tier(&arg_val(args, "--tier").unwrap_or("quick".into()));
    let seed: u64 = arg_val(args, "--seed").and_then(|s| s.parse().ok()).unwrap_or(1);
    let stratum = arg_val(args, "--stratum").unwrap_or_default();
    let case: u64 = arg_val(args, "--case").and_then(|s| s.parse().ok()).unwrap_or(0);
    let defs = props::all();
    let def = match defs.iter().find(|d| d.id == id) {
        Some(d) => d,
        None => {
            eprintln!("unknown property {id}");
            return 2;
        }
    };
    monitor::panic::install();
    let mut ctx = Ctx::new(def.id, tier, seed, 0, 1);
    ctx.verbose = true;
    (def.setup)(&mut ctx);
    #[cfg(not(miri))]
    if let Some(l) = arg_val(args, "--hang-limit").and_then(|s| s.parse::<u64>().ok()) {
        monitor::hang::start(l.max(1), None);
    }
    let strata = (def.strata)(tier);
    let si = match strata.iter().position(|s| s.name == stratum) {
        Some(i) => i,
        None => {
            eprintln!("unknown stratum {stratum}");
            return 2;
        }
    };
    ctx.begin_stratum(strata[si].name);
    run_one(def, &mut ctx, si, strata[si].exhaustive, case);
    println!("replay {id} stratum={stratum} case={case}: evaluations={} violations={} inconclusive={}", ctx.evaluations, ctx.violations.len(), ctx.inconclusive.len());
    for v in &ctx.violations {
        println!("VIOLATION property={} sig={} detail={}", v.property, v.sig, v.detail);
        println!("  input[{}B]={}", v.input_hex.len() / 2, if v.input_hex.len() > 400 { &v.input_hex[..400] } else { &v.input_hex });
    }
    for i in &ctx.inconclusive {
        println!("INCONCLUSIVE {i}");
    }
    if !ctx.violations.is_empty() {
        1
    } else if !ctx.inconclusive.is_empty() {
        2
    } else {
        0
    }
}

fn cmd_list() -> i32 {
    for d in props::all() {
        for t in [Tier::Quick, Tier::Thorough, Tier::Miri] {
            let s = (d.strata)(t);
            let total: u64 = s.iter().map(|s| s.cases).sum();
            println!("{} {:?}: {} strata, {} cases; canaries {:?}", d.id, t, s.len(), total, d.canaries);
        }
    }
    0
}

/// Write generator inputs as seed corpus files for a libFuzzer target.
#[cfg(feature = "full")]
fn cmd_emit_corpus(args: &[String]) -> i32 {
    let dir = args.get(0).cloned().unwrap_or_default();
    let seed: u64 = arg_val(args, "--seed").and_then(|s| s.parse().ok()).unwrap_or(1);
    let count: u64 = arg_val(args, "--count").and_then(|s| s.parse().ok()).unwrap_or(300);
    let target = arg_val(args, "--target").unwrap_or("walker".into());
    for (i, b) in elfmon::fuzz::seed_inputs(&target, seed, count).iter().enumerate() {
        if std::fs::write(format!("{dir}/seed-{i:05}"), b).is_err() {
            return 2;
        }
    }
    0
}

/// Re-judge one libFuzzer artifact with the oracle of its target; prints `FUZZ-VIOLATION <prop> <sig> <detail>`.
#[cfg(feature = "full")]
fn cmd_fuzzcase(args: &[String]) -> i32 {
    let target = args.get(0).cloned().unwrap_or_default();
    let path = args.get(1).cloned().unwrap_or_default();
    let data = match std::fs::read(&path) {
        Ok(d) => d,
        Err(e) => {
            eprintln!("{path}: {e}");
            return 2;
        }
    };
    monitor::panic::install();
    let r = guard(|| elfmon::fuzz::fuzz_one(&target, &data));
    match r {
        Ok(v) => {
            for (prop, sig, detail) in &v {
                println!("FUZZ-VIOLATION {prop} {sig} {detail}");
            }
            if v.is_empty() { 0 } else { 1 }
        }
        Err(p) => {
            // a panic that escaped the oracle's own guards: attribute it like run_one does
            if p.kind == PanicKind::Crate {
                let prop = match target.as_str() { "walker" => "C01", "decode" => "C02", "tostr" => "C19", "notes" => "C14", "strtab" => "C15", "stream" => "C08", "ranges" => "C03", _ => "C05" };
                println!("FUZZ-VIOLATION {prop} {} panic escaped a monitored call: {} at {}:{}", p.sig(), p.msg, p.file, p.line);
                1
            } else {
                eprintln!("harness panic while replaying: {} at {}:{}", p.msg, p.file, p.line);
                2
            }
        }
    }
}

fn main() {
    let args: Vec<String> = std::env::args().skip(1).collect();
    let code = match args.get(0).map(|s| s.as_str()) {
        Some("run") => cmd_run(&args[1..]),
        Some("replay") => cmd_replay(&args[1..]),
        Some("canary") => monitor::canary::run(&args[1..]),
        Some("list") => cmd_list(),
        #[cfg(feature = "full")]
        Some("emit-corpus") => cmd_emit_corpus(&args[1..]),
        #[cfg(feature = "full")]
        Some("fuzzcase") => cmd_fuzzcase(&args[1..]),
        _ => {
            eprintln!("usage: elfmon run|replay|canary|list …");
            2
        }
    };
    std::process::exit(code);
}

//! Reference hash functions (transliterated from the gABI / GNU documents) and the
//! linear-scan lookup oracle.

/// gABI figure 5-13, `elf_hash`, in 32-bit arithmetic.
pub fn ref_sysv_hash(name: &[u8]) -> u32 {
    let mut h: u32 = 0;
    for &c in name {
        h = (h << 4).wrapping_add(c as u32);
        let g = h & 0xf000_0000;
        if g != 0 {
            h ^= g >> 24;
        }
        h &= !g;
    }
    h
}

/// GNU hash: djb2, h = h*33 + c, seed 5381, bytes unsigned.
pub fn ref_gnu_hash(name: &[u8]) -> u32 {
    let mut h: u32 = 5381;
    for &c in name {
        h = (h << 5).wrapping_add(h).wrapping_add(c as u32);
    }
    h
}

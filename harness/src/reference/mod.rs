//! Independent reference models used as oracles.
pub mod hash;
pub mod notes;
#[cfg(feature = "full")]
pub mod structs;
pub mod locator;

//! Independent reference models used as oracles.
pub mod hash;
pub mod notes;
pub mod structs;
pub mod locator;

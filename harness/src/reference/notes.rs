//! Reference note walker (u128 arithmetic, own codec).
use crate::codec::{get_int, k};

#[derive(Clone, Debug, PartialEq, Eq)]
pub struct RefNote {
    pub n_type: u64,
    pub name: (usize, usize), // start, len
    pub desc: (usize, usize),
}

#[derive(Clone, Debug, Default)]
pub struct RefWalk {
    /// notes that certainly must be yielded, in order
    pub notes: Vec<RefNote>,
    /// a further record whose header, name and descriptor fit but whose data ends inside the
    /// padding that follows its name or descriptor: the statement is silent, either outcome
    /// (yielded or iteration ended) is accepted
    pub ambiguous: Option<RefNote>,
}

fn pad_to(off: u128, align: u128) -> u128 {
    let r = off % align;
    if r == 0 { off } else { off + (align - r) }
}

pub fn walk(big: bool, align: u64, data: &[u8]) -> RefWalk {
    let mut w = RefWalk::default();
    if align == 0 {
        return w;
    }
    let len = data.len() as u128;
    let al = align as u128;
    let mut off: u128 = 0;
    loop {
        if off + 12 > len {
            return w;
        }
        let o = off as usize;
        let namesz = get_int(data, o, 4, big).unwrap() as u128;
        let descsz = get_int(data, o + 4, 4, big).unwrap() as u128;
        let ntype = get_int(data, o + 8, 4, big).unwrap();
        let name_start = off + 12;
        let name_end = name_start + namesz;
        if name_end > len {
            return w;
        }
        let desc_start = pad_to(name_end, al);
        let desc_end = desc_start + descsz;
        let next = pad_to(desc_end, al);
        if desc_start > len || desc_end > len {
            // the record does not fit. If the *unpadded* layout would have fit, the data ends
            // inside the padding after the name: silent zone, but nothing can be yielded
            // consistently (the descriptor bytes are not there) unless descsz == 0.
            if descsz == 0 && name_end <= len {
                w.ambiguous = Some(RefNote { n_type: ntype, name: (name_start as usize, namesz as usize), desc: (len as usize, 0) });
            }
            return w;
        }
        let note = RefNote { n_type: ntype, name: (name_start as usize, namesz as usize), desc: (desc_start as usize, descsz as usize) };
        if next > len {
            // data ends inside the padding after the descriptor
            w.ambiguous = Some(note);
            return w;
        }
        w.notes.push(note);
        off = next;
    }
}

#[derive(Clone, Debug, PartialEq, Eq)]
pub enum RefTyped {
    AbiTag { os: u32, major: u32, minor: u32, subminor: u32 },
    BuildId(Vec<u8>),
    Unknown { n_type: u64, name: Vec<u8>, desc: Vec<u8>, name_str: Option<String> },
    /// "GNU\0"/NT_GNU_ABI_TAG with a descriptor shorter than 16 bytes: outside the statement
    Unjudged,
}

pub fn typed(big: bool, data: &[u8], n: &RefNote) -> RefTyped {
    let name = &data[n.name.0..n.name.0 + n.name.1];
    let desc = &data[n.desc.0..n.desc.0 + n.desc.1];
    if name == b"GNU\0" && n.n_type == k::NT_GNU_ABI_TAG {
        if desc.len() < 16 {
            return RefTyped::Unjudged;
        }
        return RefTyped::AbiTag {
            os: get_int(desc, 0, 4, big).unwrap() as u32,
            major: get_int(desc, 4, 4, big).unwrap() as u32,
            minor: get_int(desc, 8, 4, big).unwrap() as u32,
            subminor: get_int(desc, 12, 4, big).unwrap() as u32,
        };
    }
    if name == b"GNU\0" && n.n_type == k::NT_GNU_BUILD_ID {
        return RefTyped::BuildId(desc.to_vec());
    }
    let name_str = match std::str::from_utf8(name) {
        Ok(s) => {
            let mut t = s;
            while let Some(stripped) = t.strip_suffix('\0') {
                t = stripped;
            }
            Some(t.to_string())
        }
        Err(_) => None,
    };
    RefTyped::Unknown { n_type: n.n_type, name: name.to_vec(), desc: desc.to_vec(), name_str }
}

//! Reference locator: from raw bytes, where the header tables are (own decoder, u128 math).
//!
//! Written from the gABI rules quoted in property C05: e_shoff/e_phoff of 0 mean "absent";
//! e_shnum == 0 -> shdr[0].sh_size; e_phnum == 0xffff -> shdr[0].sh_info;
//! e_shstrndx == 0xffff -> shdr[0].sh_link; a present table must have the class's entry size
//! and must fit in the file.
use crate::codec::{k, size_of, Enc, Rec, St};

#[derive(Clone, Debug, PartialEq, Eq)]
pub enum IdentDefect {
    TooShort,
    BadMagic([u8; 4]),
    BadClass(u8),
    BadData(u8),
    BadVersion(u8),
}

#[derive(Clone, Debug, PartialEq, Eq)]
pub enum OpenFail {
    Ident(Vec<IdentDefect>),
    HeaderTruncated,
    Shdr0Unreadable,
    ShEntsize(u64),
    ShTableOutOfFile,
    PhEntsize(u64),
    PhTableOutOfFile,
}

#[derive(Clone, Debug)]
pub struct RefFile<'a> {
    pub data: &'a [u8],
    pub enc: Enc,
    pub osabi: u8,
    pub abiversion: u8,
    pub ehdr: Rec,
    /// (file offset, entry count) of the section header table, None = absent
    pub shdrs: Option<(usize, usize)>,
    pub phdrs: Option<(usize, usize)>,
    /// e_phnum == 0xffff while e_shoff == 0: the property leaves this case undefined
    pub undefined_phnum_case: bool,
    /// which extended-numbering rules were used
    pub xnum_sh: bool,
    pub xnum_ph: bool,
}

/// All ident defects of the first 16 bytes (empty = fine). `accept` = allowed EI_DATA values.
pub fn ident_defects(data: &[u8], accept: &[u8]) -> Vec<IdentDefect> {
    let mut d = Vec::new();
    if data.len() < k::EI_NIDENT {
        d.push(IdentDefect::TooShort);
        return d;
    }
    if data[0..4] != [0x7f, b'E', b'L', b'F'] {
        d.push(IdentDefect::BadMagic([data[0], data[1], data[2], data[3]]));
    }
    if data[4] != 1 && data[4] != 2 {
        d.push(IdentDefect::BadClass(data[4]));
    }
    if !accept.contains(&data[5]) {
        d.push(IdentDefect::BadData(data[5]));
    }
    if data[6] != 1 {
        d.push(IdentDefect::BadVersion(data[6]));
    }
    d
}

pub fn ref_open<'a>(data: &'a [u8], accept: &[u8]) -> Result<RefFile<'a>, OpenFail> {
    let defects = ident_defects(data, accept);
    if !defects.is_empty() {
        return Err(OpenFail::Ident(defects));
    }
    let enc = Enc { c64: data[4] == 2, big: data[5] == 2 };
    let len = data.len() as u128;
    let ehdr = Rec::decode(St::EhdrTail, enc, data, k::EI_NIDENT).ok_or(OpenFail::HeaderTruncated)?;
    let shoff = ehdr.get("e_shoff") as u128;
    let phoff = ehdr.get("e_phoff") as u128;
    let shsz = size_of(St::Shdr, enc.c64) as u128;
    let phsz = size_of(St::Phdr, enc.c64) as u128;
    let shdr0 = || -> Option<Rec> {
        if shoff + shsz > len {
            return None;
        }
        Rec::decode(St::Shdr, enc, data, shoff as usize)
    };
    let mut xnum_sh = false;
    let mut xnum_ph = false;
    let shdrs = if shoff == 0 {
        None
    } else {
        let mut shnum = ehdr.get("e_shnum") as u128;
        if shnum == 0 {
            xnum_sh = true;
            shnum = shdr0().ok_or(OpenFail::Shdr0Unreadable)?.get("sh_size") as u128;
        }
        if ehdr.get("e_shentsize") as u128 != shsz {
            return Err(OpenFail::ShEntsize(ehdr.get("e_shentsize")));
        }
        if shoff + shnum * shsz > len {
            return Err(OpenFail::ShTableOutOfFile);
        }
        Some((shoff as usize, shnum as usize))
    };
    let mut undefined_phnum_case = false;
    let phdrs = if phoff == 0 {
        None
    } else {
        let mut phnum = ehdr.get("e_phnum") as u128;
        if phnum as u64 == k::PN_XNUM {
            xnum_ph = true;
            if shoff == 0 {
                undefined_phnum_case = true;
            }
            phnum = shdr0().ok_or(OpenFail::Shdr0Unreadable)?.get("sh_info") as u128;
        }
        if ehdr.get("e_phentsize") as u128 != phsz {
            return Err(OpenFail::PhEntsize(ehdr.get("e_phentsize")));
        }
        if phoff + phnum * phsz > len {
            return Err(OpenFail::PhTableOutOfFile);
        }
        Some((phoff as usize, phnum as usize))
    };
    Ok(RefFile { data, enc, osabi: data[7], abiversion: data[8], ehdr, shdrs, phdrs, undefined_phnum_case, xnum_sh, xnum_ph })
}

/// Whether the undefined case (e_phnum == 0xffff, e_phoff != 0, e_shoff == 0) applies to these bytes,
/// judged from the raw header only (also when opening fails).
pub fn is_undefined_phnum_case(data: &[u8]) -> bool {
    if data.len() < 16 || (data[4] != 1 && data[4] != 2) || (data[5] != 1 && data[5] != 2) {
        return false;
    }
    let enc = Enc { c64: data[4] == 2, big: data[5] == 2 };
    match Rec::decode(St::EhdrTail, enc, data, k::EI_NIDENT) {
        Some(e) => e.get("e_phnum") == k::PN_XNUM && e.get("e_phoff") != 0 && e.get("e_shoff") == 0,
        None => false,
    }
}

#[derive(Clone, Debug, PartialEq, Eq)]
pub enum ShStrtab {
    /// no section headers
    NoShdrs,
    /// e_shstrndx == SHN_UNDEF
    NoStrtab,
    /// designated section's byte range (start, len)
    Range(usize, usize),
    /// the designated index is outside the table, or its range does not fit in the file
    MustFail(&'static str),
}

impl<'a> RefFile<'a> {
    pub fn shnum(&self) -> usize {
        self.shdrs.map(|s| s.1).unwrap_or(0)
    }
    pub fn phnum(&self) -> usize {
        self.phdrs.map(|s| s.1).unwrap_or(0)
    }
    pub fn shdr(&self, i: usize) -> Option<Rec> {
        let (off, n) = self.shdrs?;
        if i >= n {
            return None;
        }
        Rec::decode(St::Shdr, self.enc, self.data, off + i * size_of(St::Shdr, self.enc.c64))
    }
    pub fn phdr(&self, i: usize) -> Option<Rec> {
        let (off, n) = self.phdrs?;
        if i >= n {
            return None;
        }
        Rec::decode(St::Phdr, self.enc, self.data, off + i * size_of(St::Phdr, self.enc.c64))
    }
    /// byte range [off, off+size) if it fits in the file
    pub fn fits(&self, off: u64, size: u64) -> Option<(usize, usize)> {
        let end = off as u128 + size as u128;
        if end > self.data.len() as u128 {
            return None;
        }
        Some((off as usize, size as usize))
    }
    pub fn sec_range(&self, sh: &Rec) -> Option<(usize, usize)> {
        self.fits(sh.get("sh_offset"), sh.get("sh_size"))
    }
    pub fn seg_range(&self, ph: &Rec) -> Option<(usize, usize)> {
        self.fits(ph.get("p_offset"), ph.get("p_filesz"))
    }
    /// index of the section-name string table per e_shstrndx / shdr[0].sh_link
    pub fn shstrndx(&self) -> Option<usize> {
        let v = self.ehdr.get("e_shstrndx");
        if v == 0 {
            return None;
        }
        if v == k::SHN_XINDEX {
            return self.shdr(0).map(|s| s.get("sh_link") as usize);
        }
        Some(v as usize)
    }
    pub fn shstrtab(&self) -> ShStrtab {
        if self.shdrs.is_none() {
            return ShStrtab::NoShdrs;
        }
        if self.ehdr.get("e_shstrndx") == 0 {
            return ShStrtab::NoStrtab;
        }
        let idx = match self.shstrndx() {
            Some(i) => i,
            None => return ShStrtab::MustFail("shdr[0] unreadable for SHN_XINDEX"),
        };
        let sh = match self.shdr(idx) {
            Some(s) => s,
            None => return ShStrtab::MustFail("shstrndx outside the section header table"),
        };
        match self.sec_range(&sh) {
            Some((s, l)) => ShStrtab::Range(s, l),
            None => ShStrtab::MustFail("section-name string table range does not fit in the file"),
        }
    }
    /// name bytes of section i via the reference shstrtab (None if unavailable)
    pub fn sec_name(&self, sh: &Rec) -> Option<&'a [u8]> {
        if let ShStrtab::Range(s, l) = self.shstrtab() {
            let tab = &self.data[s..s + l];
            let off = sh.get("sh_name") as usize;
            if off >= tab.len() {
                return None;
            }
            let rest = &tab[off..];
            let end = rest.iter().position(|b| *b == 0)?;
            return Some(&rest[..end]);
        }
        None
    }
    pub fn first_section_of_type(&self, ty: u32) -> Option<(usize, Rec)> {
        for i in 0..self.shnum() {
            let s = self.shdr(i)?;
            if s.get("sh_type") == ty as u64 {
                return Some((i, s));
            }
        }
        None
    }
}

//! Mapping between the crate's native structures and the ABI field lists of `codec.rs`.
//!
//! `Fields::fields` lists what the crate exposes, by ABI field name; `expected_fields`
//! computes the same list from an ABI record (`Rec`), applying the ABI macros for packed
//! fields (ELF32_R_SYM/TYPE, ELF64_R_SYM/TYPE) and sign/zero extension.
use crate::codec::{Rec, St};
use elf::compression::CompressionHeader;
use elf::dynamic::Dyn;
use elf::file::FileHeader;
use elf::gnu_symver::{VerDef, VerDefAux, VerNeed, VerNeedAux, VersionIndex};
use elf::hash::{GnuHashHeader, SysVHashHeader};
use elf::note::NoteGnuAbiTag;
use elf::relocation::{Rel, Rela};
use elf::section::SectionHeader;
use elf::segment::ProgramHeader;
use elf::symbol::Symbol;

pub type FieldList = Vec<(&'static str, i128)>;

pub trait Fields {
    const ST: St;
    const NAME: &'static str;
    fn fields(&self) -> FieldList;
}

impl Fields for SectionHeader {
    const ST: St = St::Shdr;
    const NAME: &'static str = "SectionHeader";
    fn fields(&self) -> FieldList {
        vec![
            ("sh_name", self.sh_name as i128),
            ("sh_type", self.sh_type as i128),
            ("sh_flags", self.sh_flags as i128),
            ("sh_addr", self.sh_addr as i128),
            ("sh_offset", self.sh_offset as i128),
            ("sh_size", self.sh_size as i128),
            ("sh_link", self.sh_link as i128),
            ("sh_info", self.sh_info as i128),
            ("sh_addralign", self.sh_addralign as i128),
            ("sh_entsize", self.sh_entsize as i128),
        ]
    }
}

impl Fields for ProgramHeader {
    const ST: St = St::Phdr;
    const NAME: &'static str = "ProgramHeader";
    fn fields(&self) -> FieldList {
        vec![
            ("p_type", self.p_type as i128),
            ("p_offset", self.p_offset as i128),
            ("p_vaddr", self.p_vaddr as i128),
            ("p_paddr", self.p_paddr as i128),
            ("p_filesz", self.p_filesz as i128),
            ("p_memsz", self.p_memsz as i128),
            ("p_flags", self.p_flags as i128),
            ("p_align", self.p_align as i128),
        ]
    }
}

impl Fields for Symbol {
    const ST: St = St::Sym;
    const NAME: &'static str = "Symbol";
    fn fields(&self) -> FieldList {
        vec![
            ("st_name", self.st_name as i128),
            ("st_value", self.st_value as i128),
            ("st_size", self.st_size as i128),
            ("st_info", self.st_info as i128),
            ("st_other", self.st_other as i128),
            ("st_shndx", self.st_shndx as i128),
        ]
    }
}

impl Fields for Rel {
    const ST: St = St::Rel;
    const NAME: &'static str = "Rel";
    fn fields(&self) -> FieldList {
        vec![("r_offset", self.r_offset as i128), ("r_sym", self.r_sym as i128), ("r_type", self.r_type as i128)]
    }
}

impl Fields for Rela {
    const ST: St = St::Rela;
    const NAME: &'static str = "Rela";
    fn fields(&self) -> FieldList {
        vec![
            ("r_offset", self.r_offset as i128),
            ("r_sym", self.r_sym as i128),
            ("r_type", self.r_type as i128),
            ("r_addend", self.r_addend as i128),
        ]
    }
}

impl Fields for Dyn {
    const ST: St = St::Dyn;
    const NAME: &'static str = "Dyn";
    fn fields(&self) -> FieldList {
        vec![("d_tag", self.d_tag as i128), ("d_un", self.d_val() as i128), ("d_ptr", self.d_ptr() as i128)]
    }
}

impl Fields for CompressionHeader {
    const ST: St = St::Chdr;
    const NAME: &'static str = "CompressionHeader";
    fn fields(&self) -> FieldList {
        vec![("ch_type", self.ch_type as i128), ("ch_size", self.ch_size as i128), ("ch_addralign", self.ch_addralign as i128)]
    }
}

impl Fields for SysVHashHeader {
    const ST: St = St::SysvHashHdr;
    const NAME: &'static str = "SysVHashHeader";
    fn fields(&self) -> FieldList {
        vec![("nbucket", self.nbucket as i128), ("nchain", self.nchain as i128)]
    }
}

impl Fields for GnuHashHeader {
    const ST: St = St::GnuHashHdr;
    const NAME: &'static str = "GnuHashHeader";
    fn fields(&self) -> FieldList {
        vec![
            ("nbucket", self.nbucket as i128),
            ("symoffset", self.table_start_idx as i128),
            ("bloom_size", self.nbloom as i128),
            ("bloom_shift", self.nshift as i128),
        ]
    }
}

impl Fields for VersionIndex {
    const ST: St = St::Versym;
    const NAME: &'static str = "VersionIndex";
    fn fields(&self) -> FieldList {
        vec![("versym", self.0 as i128)]
    }
}

impl Fields for VerDef {
    const ST: St = St::Verdef;
    const NAME: &'static str = "VerDef";
    fn fields(&self) -> FieldList {
        vec![
            ("vd_flags", self.vd_flags as i128),
            ("vd_ndx", self.vd_ndx as i128),
            ("vd_cnt", self.vd_cnt as i128),
            ("vd_hash", self.vd_hash as i128),
        ]
    }
}

impl Fields for VerDefAux {
    const ST: St = St::Verdaux;
    const NAME: &'static str = "VerDefAux";
    fn fields(&self) -> FieldList {
        vec![("vda_name", self.vda_name as i128)]
    }
}

impl Fields for VerNeed {
    const ST: St = St::Verneed;
    const NAME: &'static str = "VerNeed";
    fn fields(&self) -> FieldList {
        vec![("vn_cnt", self.vn_cnt as i128), ("vn_file", self.vn_file as i128)]
    }
}

impl Fields for VerNeedAux {
    const ST: St = St::Vernaux;
    const NAME: &'static str = "VerNeedAux";
    fn fields(&self) -> FieldList {
        vec![
            ("vna_hash", self.vna_hash as i128),
            ("vna_flags", self.vna_flags as i128),
            ("vna_other", self.vna_other as i128),
            ("vna_name", self.vna_name as i128),
        ]
    }
}

impl Fields for NoteGnuAbiTag {
    const ST: St = St::AbiTag;
    const NAME: &'static str = "NoteGnuAbiTag";
    fn fields(&self) -> FieldList {
        vec![("os", self.os as i128), ("major", self.major as i128), ("minor", self.minor as i128), ("subminor", self.subminor as i128)]
    }
}

impl Fields for u32 {
    const ST: St = St::Word32;
    const NAME: &'static str = "u32";
    fn fields(&self) -> FieldList {
        vec![("v", *self as i128)]
    }
}

impl Fields for u64 {
    const ST: St = St::Word64;
    const NAME: &'static str = "u64";
    fn fields(&self) -> FieldList {
        vec![("v", *self as i128)]
    }
}

pub fn ehdr_fields<E: elf::endian::EndianParse>(h: &FileHeader<E>) -> FieldList {
    vec![
        ("e_type", h.e_type as i128),
        ("e_machine", h.e_machine as i128),
        ("e_version", h.version as i128),
        ("e_entry", h.e_entry as i128),
        ("e_phoff", h.e_phoff as i128),
        ("e_shoff", h.e_shoff as i128),
        ("e_flags", h.e_flags as i128),
        ("e_ehsize", h.e_ehsize as i128),
        ("e_phentsize", h.e_phentsize as i128),
        ("e_phnum", h.e_phnum as i128),
        ("e_shentsize", h.e_shentsize as i128),
        ("e_shnum", h.e_shnum as i128),
        ("e_shstrndx", h.e_shstrndx as i128),
    ]
}

/// What the crate must expose for an ABI record, by the same names as `Fields::fields`.
pub fn expected_fields(rec: &Rec) -> FieldList {
    let c64 = rec.c64;
    match rec.st {
        St::Rel | St::Rela => {
            let info = rec.get("r_info");
            // ELF32_R_SYM(i) = i >> 8, ELF32_R_TYPE(i) = (unsigned char) i
            // ELF64_R_SYM(i) = i >> 32, ELF64_R_TYPE(i) = i & 0xffffffff
            let (sym, ty) = if c64 { (info >> 32, info & 0xffff_ffff) } else { (info >> 8, info & 0xff) };
            let mut v: FieldList = vec![("r_offset", rec.native("r_offset")), ("r_sym", sym as i128), ("r_type", ty as i128)];
            if rec.st == St::Rela {
                v.push(("r_addend", rec.native("r_addend")));
            }
            v
        }
        St::Dyn => vec![("d_tag", rec.native("d_tag")), ("d_un", rec.native("d_un")), ("d_ptr", rec.native("d_un"))],
        St::Chdr => vec![("ch_type", rec.native("ch_type")), ("ch_size", rec.native("ch_size")), ("ch_addralign", rec.native("ch_addralign"))],
        St::Verdef => vec![
            ("vd_flags", rec.native("vd_flags")),
            ("vd_ndx", rec.native("vd_ndx")),
            ("vd_cnt", rec.native("vd_cnt")),
            ("vd_hash", rec.native("vd_hash")),
        ],
        St::Verdaux => vec![("vda_name", rec.native("vda_name"))],
        St::Verneed => vec![("vn_cnt", rec.native("vn_cnt")), ("vn_file", rec.native("vn_file"))],
        St::Vernaux => vec![
            ("vna_hash", rec.native("vna_hash")),
            ("vna_flags", rec.native("vna_flags")),
            ("vna_other", rec.native("vna_other")),
            ("vna_name", rec.native("vna_name")),
        ],
        St::Sym => vec![
            ("st_name", rec.native("st_name")),
            ("st_value", rec.native("st_value")),
            ("st_size", rec.native("st_size")),
            ("st_info", rec.native("st_info")),
            ("st_other", rec.native("st_other")),
            ("st_shndx", rec.native("st_shndx")),
        ],
        St::Phdr => vec![
            ("p_type", rec.native("p_type")),
            ("p_offset", rec.native("p_offset")),
            ("p_vaddr", rec.native("p_vaddr")),
            ("p_paddr", rec.native("p_paddr")),
            ("p_filesz", rec.native("p_filesz")),
            ("p_memsz", rec.native("p_memsz")),
            ("p_flags", rec.native("p_flags")),
            ("p_align", rec.native("p_align")),
        ],
        _ => crate::codec::layout(rec.st, c64).iter().map(|fd| (fd.name, rec.native(fd.name))).collect(),
    }
}

/// First mismatch between what the crate exposed and the ABI record, if any.
pub fn mismatch(got: &FieldList, rec: &Rec) -> Option<String> {
    let exp = expected_fields(rec);
    if got.len() != exp.len() {
        return Some(format!("field count {} != {}", got.len(), exp.len()));
    }
    for ((gn, gv), (en, ev)) in got.iter().zip(exp.iter()) {
        if gn != en {
            return Some(format!("field order {gn} vs {en}"));
        }
        if gv != ev {
            return Some(format!("{gn}: got {gv:#x}, ABI value {ev:#x}"));
        }
    }
    None
}

/// name of the first mismatching field (for stable violation signatures)
pub fn mismatch_field(got: &FieldList, rec: &Rec) -> Option<&'static str> {
    let exp = expected_fields(rec);
    for ((gn, gv), (_, ev)) in got.iter().zip(exp.iter()) {
        if gv != ev {
            return Some(gn);
        }
    }
    None
}

//! One module per property: workload + oracle + event counters.
use crate::ctx::{Ctx, Tier};

pub struct Stratum {
    pub name: &'static str,
    pub cases: u64,
    /// the stratum enumerates a finite space completely and does not depend on the seed
    pub exhaustive: bool,
}

pub fn st(name: &'static str, cases: u64) -> Stratum {
    Stratum { name, cases, exhaustive: false }
}
pub fn ex(name: &'static str, cases: u64) -> Stratum {
    Stratum { name, cases, exhaustive: true }
}

/// scale a quick-tier case count for the tier
pub fn scale(tier: Tier, quick: u64, thorough: u64, miri: u64) -> u64 {
    match tier {
        Tier::Quick => quick,
        Tier::Thorough => thorough,
        Tier::Miri => miri,
    }
}

pub struct PropDef {
    pub id: &'static str,
    pub strata: fn(Tier) -> Vec<Stratum>,
    pub run: fn(&mut Ctx, usize, u64),
    /// declares coverage floors (counter, minimum over the whole run)
    pub setup: fn(&mut Ctx),
    /// monitors whose canaries must pass before this property is judged
    pub canaries: &'static [&'static str],
}

pub mod c01;
pub mod c02;
pub mod c03;
pub mod c04;
#[cfg(feature = "full")]
pub mod c05;
pub mod c06;
#[cfg(feature = "full")]
pub mod c07;
#[cfg(feature = "full")]
pub mod c08;
pub mod c09;
pub mod c16;
#[cfg(feature = "full")]
pub mod c17;
#[cfg(feature = "full")]
pub mod c18;
#[cfg(feature = "elf_to_str")]
pub mod c19;
#[cfg(feature = "full")]
pub mod c20;
pub mod util;
#[cfg(feature = "full")]
pub mod c10;
pub mod c11;
pub mod c12;
pub mod c13;
pub mod c14;
pub mod c15;

pub fn all() -> Vec<PropDef> {
    let mut v = vec![c01::DEF, c02::DEF, c03::DEF, c04::DEF, c06::DEF, c09::DEF, c11::DEF, c12::DEF, c13::DEF, c14::DEF, c15::DEF, c16::DEF];
    #[cfg(feature = "elf_to_str")]
    v.push(c19::DEF);
    #[cfg(feature = "full")]
    {
        v.extend(full());
    }
    v
}

#[cfg(feature = "full")]
fn full() -> Vec<PropDef> {
    vec![c05::DEF, c07::DEF, c08::DEF, c10::DEF, c17::DEF, c18::DEF, c20::DEF]
}

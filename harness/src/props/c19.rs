//! C19 — exported ABI definitions agree with the ELF ABI reference.
use super::{ex, scale, st, PropDef, Stratum};
use crate::codec::{layout, size_of, St};
use crate::ctx::{Ctx, Tier};
use core::mem::{align_of, offset_of, size_of as msize};
use std::collections::HashMap;

use crate::abi_table::{ABI_CONSTS, ABI_CONSTS_SCANNED};

pub const DEF: PropDef = PropDef { id: "C19", strata, run, setup, canaries: &["panic"] };

const REF_PATH: &str = "/verif/ref/abi_reference.txt";
const REF_ALL_PATH: &str = "/verif/ref/abi_reference_all.txt";
const REF_DISAGREE_PATH: &str = "/verif/ref/abi_reference_disagree.txt";
const FAMILIES: [&str; 10] = ["ELFOSABI_", "ET_", "EM_", "SHT_", "PT_", "STT_", "STB_", "STV_", "ELFCOMPRESS_", "DT_"];

/// every value any reference header assigns to a name of the function's family, exported by the crate or not
fn family_values(which: u64) -> Vec<i128> {
    let mut v = Vec::new();
    if let Ok(txt) = std::fs::read_to_string(REF_ALL_PATH) {
        for line in txt.lines() {
            let mut it = line.split_whitespace();
            if let (Some(n), Some(val)) = (it.next(), it.next()) {
                if n.starts_with(FAMILIES[which as usize]) {
                    if let Ok(x) = val.parse::<u64>() {
                        v.push(x as i128);
                    }
                }
            }
        }
    }
    v
}

fn setup(ctx: &mut Ctx) {
    ctx.floor("constants:compared", 1000);
    ctx.floor("constants:compared-with-either-header", 4);
    ctx.floor("structs:compared", 16);
    ctx.floor("struct-fields:compared", 90);
    ctx.floor("to_str:some-checked", 400);
    ctx.floor("to_str:none", 10_000);
    ctx.floor("to_string:checked", 10_000);
    ctx.floor("nonint-constants:compared", 4);
    ctx.floor("to_str:probe-values-from-reference-families", 200);
}

const TO_STR_FNS: u64 = 10;

fn strata(t: Tier) -> Vec<Stratum> {
    vec![ex("constants", 1), ex("struct-layouts", 1), ex("to_str-domains", scale(t, TO_STR_FNS, TO_STR_FNS, 0)), st("to_str-domains-sampled", scale(t, 0, 0, 32)), st("to_str-random", scale(t, 160, 1600, 0))]
}

fn load_ref() -> Result<HashMap<String, (u64, String)>, String> {
    let txt = std::fs::read_to_string(REF_PATH).map_err(|e| format!("{REF_PATH}: {e}"))?;
    let mut m = HashMap::new();
    for line in txt.lines() {
        let mut it = line.split_whitespace();
        if let (Some(n), Some(v), Some(s)) = (it.next(), it.next(), it.next()) {
            if let Ok(v) = v.parse::<u64>() {
                m.insert(n.to_string(), (v, s.to_string()));
            }
        }
    }
    Ok(m)
}

fn width_mask(ty: &str) -> u64 {
    match ty {
        "u8" => 0xff,
        "u16" => 0xffff,
        "u32" | "i32" => 0xffff_ffff,
        _ => u64::MAX,
    }
}

fn check_constants(ctx: &mut Ctx) {
    let r = match load_ref() {
        Ok(r) => r,
        Err(e) => {
            ctx.inconclusive(format!("cannot load the reference table: {e}"));
            return;
        }
    };
    ctx.sample(|| format!("{} integer constants scanned from /repo/src/abi.rs, {} reference values (glibc <elf.h>, LLVM BinaryFormat, supplement)", ABI_CONSTS.len(), r.len()));
    let mut unchecked = 0u64;
    let mut all_ref: HashMap<String, Vec<u64>> = HashMap::new();
    if let Ok(txt) = std::fs::read_to_string(REF_ALL_PATH) {
        for line in txt.lines() {
            let mut it = line.split_whitespace();
            if let (Some(n), Some(v)) = (it.next(), it.next()) {
                if let Ok(v) = v.parse::<u64>() {
                    all_ref.entry(n.to_string()).or_default().push(v);
                }
            }
        }
    }
    for (name, ty, val) in ABI_CONSTS {
        ctx.eval();
        let pattern = (*val as u64) & width_mask(ty);
        match r.get(*name) {
            Some((want, src)) => {
                ctx.count("constants:compared");
                ctx.count(&format!("constants:source:{src}"));
                ctx.nontrivial(crate::rng::fnv64(name.as_bytes()));
                if pattern != *want & width_mask(ty) {
                    ctx.violation(&format!("const:{name}"), format!("elf::abi::{name} = {pattern:#x} ({pattern}), the reference ({src}) says {want:#x} ({want})"));
                }
            }
            None => {
                // a name the curated table does not know (added to the crate later): every value any reference header
                // gives that name
                let cands: Vec<u64> = all_ref.get(*name).cloned().unwrap_or_default();
                if cands.is_empty() {
                    unchecked += 1;
                } else {
                    ctx.count("constants:compared-with-the-full-header-tables");
                    if !cands.iter().any(|w| pattern == *w & width_mask(ty)) {
                        ctx.violation(&format!("const:{name}"), format!("elf::abi::{name} = {pattern:#x} ({pattern}), the reference headers say {:?}", cands));
                    }
                }
            }
        }
    }
    ctx.count_n("constants:unchecked(not-in-reference)", unchecked);
    // every name of the curated reference must have been enumerated from the crate (a constant that moved out of sight
    // of the enumeration — re-exported, renamed, generated — would otherwise silently go unchecked)
    let have: std::collections::HashSet<&str> = ABI_CONSTS.iter().map(|(n, _, _)| *n).collect();
    let mut missing: Vec<&String> = r.keys().filter(|n| !have.contains(n.as_str())).collect();
    missing.sort();
    ctx.count_n("constants:reference-names-not-enumerated", missing.len() as u64);
    if !missing.is_empty() {
        ctx.inconclusive(format!("{} names of the reference table were not found among the constants enumerated from elf::abi (first: {:?}): their values are unchecked", missing.len(), missing.iter().take(5).collect::<Vec<_>>()));
    }
    // names on which the two reference headers disagree: either header's value is accepted; names whose candidate
    // values are each other's permutation (a swapped pair) must follow one header together, so that they stay distinct
    if let Ok(txt) = std::fs::read_to_string(REF_DISAGREE_PATH) {
        let cands: Vec<(String, u64, u64)> = txt
            .lines()
            .filter_map(|l| {
                let mut it = l.split_whitespace();
                Some((it.next()?.to_string(), it.next()?.parse().ok()?, it.next()?.parse().ok()?))
            })
            .collect();
        let value_of = |n: &str| ABI_CONSTS.iter().find(|(name, _, _)| *name == n).map(|(_, ty, v)| (*v as u64) & width_mask(ty));
        for (n, g, l) in &cands {
            let Some(v) = value_of(n) else { continue };
            ctx.eval();
            ctx.count("constants:compared-with-either-header");
            if v != *g && v != *l {
                ctx.violation(&format!("const:{n}"), format!("elf::abi::{n} = {v:#x} ({v}); glibc says {g}, LLVM says {l}"));
                continue;
            }
            for (n2, g2, l2) in &cands {
                if n2 != n && g2 == l && l2 == g {
                    if let Some(v2) = value_of(n2) {
                        let follows_glibc = v == *g && v2 == *g2;
                        let follows_llvm = v == *l && v2 == *l2;
                        if !follows_glibc && !follows_llvm && n < n2 {
                            ctx.violation(&format!("const:{n}+{n2}"), format!("elf::abi::{n} = {v} and elf::abi::{n2} = {v2}: glibc assigns {g}/{g2}, LLVM assigns {l}/{l2}; the crate follows neither for the pair"));
                        }
                    }
                }
            }
        }
    }
    // non-integer constants, compared literally
    let nonint: [(&str, bool); 4] = [
        ("ELFMAGIC", elf::abi::ELFMAGIC == [0x7f, b'E', b'L', b'F']),
        ("ELF_NOTE_GNU", elf::abi::ELF_NOTE_GNU == b"GNU\0"),
        ("SHT_AARCH64_ATTRIBUTES_SECTION_NAME", elf::abi::SHT_AARCH64_ATTRIBUTES_SECTION_NAME == ".ARM.attributes"),
        ("SHT_RISCV_ATTRIBUTES_SECTION_NAME", elf::abi::SHT_RISCV_ATTRIBUTES_SECTION_NAME == ".riscv.attributes"),
    ];
    for (n, ok) in nonint {
        ctx.eval();
        ctx.count("nonint-constants:compared");
        if !ok {
            ctx.violation(&format!("const:{n}"), format!("elf::abi::{n} differs from its ABI literal"));
        }
    }
}

macro_rules! check_struct {
    ($ctx:expr, $ty:path, $name:expr, $st:expr, $c64:expr, $prefix:expr, [$($field:ident),*]) => {{
        $ctx.eval();
        $ctx.count("structs:compared");
        let lay = layout($st, $c64);
        let want_size = $prefix + size_of($st, $c64);
        $ctx.nontrivial(crate::rng::fnv64($name.as_bytes()));
        if msize::<$ty>() != want_size {
            $ctx.violation(&format!("struct:{}:size", $name), format!("size_of::<{}>() = {}, the ABI structure is {} bytes", $name, msize::<$ty>(), want_size));
        }
        let want_align = lay.iter().map(|f| f.w).max().unwrap_or(1);
        if align_of::<$ty>() != want_align {
            $ctx.violation(&format!("struct:{}:align", $name), format!("align_of::<{}>() = {}, the ABI structure's alignment is {}", $name, align_of::<$ty>(), want_align));
        }
        let mut off = $prefix;
        let mut k = 0usize;
        $(
            let fd = lay[k];
            $ctx.count("struct-fields:compared");
            if stringify!($field) != fd.name {
                $ctx.violation(&format!("struct:{}:field-order", $name), format!("{}: field #{} is `{}` in the crate, `{}` in the ABI", $name, k, stringify!($field), fd.name));
            }
            if offset_of!($ty, $field) != off {
                $ctx.violation(&format!("struct:{}:{}", $name, fd.name), format!("offset_of!({}, {}) = {}, the ABI offset is {}", $name, fd.name, offset_of!($ty, $field), off));
            }
            off += fd.w;
            k += 1;
        )*
        if k != lay.len() {
            $ctx.violation(&format!("struct:{}:field-count", $name), format!("{} has {} fields in the crate, {} in the ABI", $name, k, lay.len()));
        }
        let _ = off;
    }};
}

fn check_structs(ctx: &mut Ctx) {
    use elf::compression::{Elf32_Chdr, Elf64_Chdr};
    use elf::dynamic::{Elf32_Dyn, Elf64_Dyn};
    use elf::file::{Elf32_Ehdr, Elf64_Ehdr};
    use elf::relocation::{Elf32_Rel, Elf32_Rela, Elf64_Rel, Elf64_Rela};
    use elf::section::{Elf32_Shdr, Elf64_Shdr};
    use elf::segment::{Elf32_Phdr, Elf64_Phdr};
    use elf::symbol::{Elf32_Sym, Elf64_Sym};
    ctx.sample(|| "size_of / align_of / offset_of! of the 16 #[repr(C)] structs vs the ABI layout table".to_string());
    // e_ident precedes the tail fields
    if offset_of!(Elf32_Ehdr, e_ident) != 0 || offset_of!(Elf64_Ehdr, e_ident) != 0 {
        ctx.violation("struct:Ehdr:e_ident", "e_ident is not at offset 0".to_string());
    }
    check_struct!(ctx, Elf32_Ehdr, "Elf32_Ehdr", St::EhdrTail, false, 16, [e_type, e_machine, e_version, e_entry, e_phoff, e_shoff, e_flags, e_ehsize, e_phentsize, e_phnum, e_shentsize, e_shnum, e_shstrndx]);
    check_struct!(ctx, Elf64_Ehdr, "Elf64_Ehdr", St::EhdrTail, true, 16, [e_type, e_machine, e_version, e_entry, e_phoff, e_shoff, e_flags, e_ehsize, e_phentsize, e_phnum, e_shentsize, e_shnum, e_shstrndx]);
    check_struct!(ctx, Elf32_Shdr, "Elf32_Shdr", St::Shdr, false, 0, [sh_name, sh_type, sh_flags, sh_addr, sh_offset, sh_size, sh_link, sh_info, sh_addralign, sh_entsize]);
    check_struct!(ctx, Elf64_Shdr, "Elf64_Shdr", St::Shdr, true, 0, [sh_name, sh_type, sh_flags, sh_addr, sh_offset, sh_size, sh_link, sh_info, sh_addralign, sh_entsize]);
    check_struct!(ctx, Elf32_Phdr, "Elf32_Phdr", St::Phdr, false, 0, [p_type, p_offset, p_vaddr, p_paddr, p_filesz, p_memsz, p_flags, p_align]);
    check_struct!(ctx, Elf64_Phdr, "Elf64_Phdr", St::Phdr, true, 0, [p_type, p_flags, p_offset, p_vaddr, p_paddr, p_filesz, p_memsz, p_align]);
    check_struct!(ctx, Elf32_Sym, "Elf32_Sym", St::Sym, false, 0, [st_name, st_value, st_size, st_info, st_other, st_shndx]);
    check_struct!(ctx, Elf64_Sym, "Elf64_Sym", St::Sym, true, 0, [st_name, st_info, st_other, st_shndx, st_value, st_size]);
    check_struct!(ctx, Elf32_Rel, "Elf32_Rel", St::Rel, false, 0, [r_offset, r_info]);
    check_struct!(ctx, Elf64_Rel, "Elf64_Rel", St::Rel, true, 0, [r_offset, r_info]);
    check_struct!(ctx, Elf32_Rela, "Elf32_Rela", St::Rela, false, 0, [r_offset, r_info, r_addend]);
    check_struct!(ctx, Elf64_Rela, "Elf64_Rela", St::Rela, true, 0, [r_offset, r_info, r_addend]);
    check_struct!(ctx, Elf32_Dyn, "Elf32_Dyn", St::Dyn, false, 0, [d_tag, d_un]);
    check_struct!(ctx, Elf64_Dyn, "Elf64_Dyn", St::Dyn, true, 0, [d_tag, d_un]);
    check_struct!(ctx, Elf32_Chdr, "Elf32_Chdr", St::Chdr, false, 0, [ch_type, ch_size, ch_addralign]);
    check_struct!(ctx, Elf64_Chdr, "Elf64_Chdr", St::Chdr, true, 0, [ch_type, ch_reserved, ch_size, ch_addralign]);
}

pub struct Names {
    by_name: HashMap<&'static str, i128>,
}

pub fn names() -> Names {
    let mut by_name = HashMap::new();
    for (n, _, v) in ABI_CONSTS {
        by_name.insert(*n, *v);
    }
    Names { by_name }
}

// the owned `_to_string` variants exist only when the crate is built with `alloc`
#[cfg(feature = "elf_alloc")]
macro_rules! own {
    ($e:expr) => {
        Some($e)
    };
}
#[cfg(not(feature = "elf_alloc"))]
macro_rules! own {
    ($e:expr) => {
        None
    };
}

fn to_str_fn(which: u64, v: i128) -> (Option<&'static str>, Option<String>, &'static str) {
    use elf::to_str::*;
    match which {
        0 => (e_osabi_to_str(v as u8), own!(e_osabi_to_string(v as u8)), "e_osabi"),
        1 => (e_type_to_str(v as u16), own!(e_type_to_string(v as u16)), "e_type"),
        2 => (e_machine_to_str(v as u16), own!(e_machine_to_string(v as u16)), "e_machine"),
        3 => (sh_type_to_str(v as u32), own!(sh_type_to_string(v as u32)), "sh_type"),
        4 => (p_type_to_str(v as u32), own!(p_type_to_string(v as u32)), "p_type"),
        5 => (st_symtype_to_str(v as u8), own!(st_symtype_to_string(v as u8)), "st_symtype"),
        6 => (st_bind_to_str(v as u8), own!(st_bind_to_string(v as u8)), "st_bind"),
        7 => (st_vis_to_str(v as u8), own!(st_vis_to_string(v as u8)), "st_vis"),
        8 => (ch_type_to_str(v as u32), None, "ch_type"),
        _ => (d_tag_to_str(v as i64), None, "d_tag"),
    }
}

fn domain_bits(which: u64) -> u32 {
    match which {
        0 | 5 | 6 | 7 => 8,
        1 | 2 => 16,
        3 | 4 | 8 => 32,
        _ => 64,
    }
}

pub fn check_value(ctx: &mut Ctx, n: &Names, which: u64, v: i128) -> bool {
    ctx.eval();
    let (s, string, fname) = to_str_fn(which, v);
    match s {
        Some(id) => {
            ctx.count("to_str:some-checked");
            ctx.nontrivial(crate::rng::mix(which, v as u64));
            match n.by_name.get(id) {
                Some(cv) if *cv == v => {}
                Some(cv) => {
                    ctx.violation(&format!("to_str:{fname}:{id}"), format!("{fname}_to_str({v:#x}) = {id:?}, but elf::abi::{id} = {cv:#x}"));
                    return false;
                }
                None => {
                    ctx.violation(&format!("to_str:{fname}:not-an-identifier"), format!("{fname}_to_str({v:#x}) = {id:?}, which is not the identifier of an exported constant"));
                    return false;
                }
            }
            if let Some(st) = &string {
                ctx.count("to_string:checked");
                if st != id {
                    ctx.violation(&format!("to_string:{fname}:differs"), format!("{fname}_to_string({v:#x}) = {st:?} but {fname}_to_str gives {id:?}"));
                    return false;
                }
            }
        }
        None => {
            ctx.count("to_str:none");
            if let Some(st) = &string {
                ctx.count("to_string:checked");
                let low = st.to_lowercase();
                let dec = format!("{}", v);
                let hex = format!("{:x}", v);
                if !low.contains(&dec) && !low.contains(&hex) {
                    ctx.violation(&format!("to_string:{fname}:no-number"), format!("{fname}_to_string({v:#x}) = {st:?} does not contain the number"));
                    return false;
                }
            }
        }
    }
    true
}

fn totality(ctx: &mut Ctx, v: u64) {
    use elf::to_str::*;
    // prose helpers: only totality (and the number for unknown p_flags)
    let _ = e_type_to_human_str(v as u16);
    let _ = e_machine_to_human_str(v as u16);
    let _ = note_abi_tag_os_to_str(v as u32);
    #[cfg(not(feature = "elf_alloc"))]
    let s = format!("{}", v as u32);
    #[cfg(feature = "elf_alloc")]
    let s = p_flags_to_string(v as u32);
    ctx.eval();
    if (v as u32) >= 8 {
        let low = s.to_lowercase();
        if !low.contains(&format!("{}", v as u32)) && !low.contains(&format!("{:x}", v as u32)) {
            ctx.violation("to_string:p_flags:no-number", format!("p_flags_to_string({:#x}) = {s:?} does not contain the number", v as u32));
        }
    }
}

fn run(ctx: &mut Ctx, si: usize, case: u64) {
    match si {
        0 => check_constants(ctx),
        1 => check_structs(ctx),
        2 => {
            let n = names();
            let which = case;
            let bits = domain_bits(which);
            ctx.sample(|| format!("to_str function #{which} over its {}-bit domain{}", bits, if bits <= 16 { " (exhaustive)" } else { " (all constant values, their +-1 neighbours, powers of two)" }));
            if bits <= 16 {
                for v in 0..(1u32 << bits) {
                    if !check_value(ctx, &n, which, v as i128) {
                        return;
                    }
                    if v < 70000 && which == 1 {
                        totality(ctx, v as u64);
                    }
                }
            } else {
                let mask: i128 = if bits == 32 { 0xffff_ffff } else { -1 };
                let mut vals: Vec<i128> = Vec::new();
                for (_, _, cv) in ABI_CONSTS {
                    for d in [-1i128, 0, 1] {
                        vals.push(cv + d);
                    }
                }
                for b in 0..bits {
                    vals.push(1i128 << b);
                    vals.push((1i128 << b) - 1);
                }
                vals.push(-1);
                vals.push(i64::MIN as i128);
                let fam = family_values(which);
                ctx.count_n("to_str:probe-values-from-reference-families", fam.len() as u64);
                for x in fam {
                    for d in [-1i128, 0, 1] {
                        vals.push(x + d);
                    }
                    // and the same low word in other 4 GiB windows (for the 64-bit domain)
                    vals.push(x + (1i128 << 32));
                    vals.push(x - (1i128 << 32));
                }
                for v in vals {
                    let v = if bits == 32 { v & mask } else { (v as i64) as i128 };
                    if !check_value(ctx, &n, which, v) {
                        return;
                    }
                    totality(ctx, v as u64);
                }
            }
        }
        3 => {
            // reduced tier (Miri): every constant value and its neighbours for one function, no 65536 sweeps
            let n = names();
            let which = ctx.rng.below(10);
            for (_, _, cv) in ABI_CONSTS.iter() {
                if !ctx.rng.chance(1, 6) {
                    continue;
                }
                for d in [-1i128, 0, 1] {
                    let bits = domain_bits(which);
                    let v = match bits { 8 => (cv + d) & 0xff, 16 => (cv + d) & 0xffff, 32 => (cv + d) & 0xffff_ffff, _ => ((cv + d) as i64) as i128 };
                    if !check_value(ctx, &n, which, v) {
                        return;
                    }
                }
            }
        }
        _ => {
            let n = names();
            ctx.sample(|| "10^4 random values per wide to_str function".to_string());
            for _ in 0..10_000 {
                let which = [3u64, 4, 8, 9][ctx.rng.usize_below(4)];
                let v: i128 = if which == 9 { ctx.rng.next_u64() as i64 as i128 } else { ctx.rng.next_u32() as i128 };
                if !check_value(ctx, &n, which, v) {
                    return;
                }
            }
        }
    }
}

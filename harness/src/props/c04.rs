//! C04 — endian-aware integer reads return the exact value and advance exactly.
use super::{ex, scale, st, PropDef, Stratum};
use crate::codec::get_int;
use crate::ctx::{Ctx, Tier};
use elf::endian::{AnyEndian, BigEndian, EndianParse, LittleEndian, NativeEndian};

pub const DEF: PropDef = PropDef { id: "C04", strata, run, setup, canaries: &["panic"] };

fn setup(ctx: &mut Ctx) {
    #[cfg(all(target_pointer_width = "64", not(miri)))]
    ctx.floor("reads-at-offsets>=2^32-16", 32);
    ctx.floor("reads_ok", 1000);
    ctx.floor("reads_short_err", 100);
    ctx.floor("reads_offset_overflow_err", 10);
    ctx.floor("spec:NativeEndian", 100);
    ctx.floor("spec:AnyEndian::Big", 100);
    ctx.floor("concrete-type-calls", 10_000);
    ctx.floor("offset:2^k+d", 1000);
}

fn sweep_cases() -> u64 {
    // (len 0..=6) x (offsets 0..=len+9 and usize::MAX-8..=usize::MAX)
    (0..=6u64).map(|l| l + 10 + 9).sum()
}

fn strata(t: Tier) -> Vec<Stratum> {
    vec![
        ex("u8-u16-exhaustive", scale(t, sweep_cases(), sweep_cases(), 2)),
        ex("wide-boundary", scale(t, 25, 25, 2)),
        // every offset 2^k + d, k = 1..BITS-1, d in -9..=len+9, on buffers of length 0..=16
        ex("power-of-two-offsets", scale(t, usize::BITS as u64 - 1, usize::BITS as u64 - 1, 4)),
        st("wide-random", scale(t, 600_000, 6_000_000, 16)),
        // reads at offsets around and beyond 2^32 of a buffer that really is longer than 4 GiB (native 64-bit only)
        st("beyond-4GiB", scale(t, 64, 640, 0)),
    ]
}

fn sweep_case(case: u64) -> (usize, usize) {
    let mut c = case;
    for l in 0..=6u64 {
        let n = l + 19;
        if c < n {
            let off = if c < l + 10 { c as usize } else { usize::MAX - 8 + (c - (l + 10)) as usize };
            return (l as usize, off);
        }
        c -= n;
    }
    (0, 0)
}

#[derive(Clone, Copy)]
enum Ty {
    U8,
    U16,
    U32,
    U64,
    I32,
    I64,
}

impl Ty {
    fn w(self) -> usize {
        match self {
            Ty::U8 => 1,
            Ty::U16 => 2,
            Ty::U32 | Ty::I32 => 4,
            Ty::U64 | Ty::I64 => 8,
        }
    }
    fn name(self) -> &'static str {
        match self {
            Ty::U8 => "parse_u8_at",
            Ty::U16 => "parse_u16_at",
            Ty::U32 => "parse_u32_at",
            Ty::U64 => "parse_u64_at",
            Ty::I32 => "parse_i32_at",
            Ty::I64 => "parse_i64_at",
        }
    }
}

/// Calls the crate; returns (value as raw 64-bit pattern sign-/zero-extended to i128, new offset).
fn call<E: EndianParse>(e: E, ty: Ty, off: usize, buf: &[u8]) -> (Result<i128, String>, usize) {
    let mut o = off;
    let r = match ty {
        Ty::U8 => e.parse_u8_at(&mut o, buf).map(|v| v as i128),
        Ty::U16 => e.parse_u16_at(&mut o, buf).map(|v| v as i128),
        Ty::U32 => e.parse_u32_at(&mut o, buf).map(|v| v as i128),
        Ty::U64 => e.parse_u64_at(&mut o, buf).map(|v| v as i128),
        Ty::I32 => e.parse_i32_at(&mut o, buf).map(|v| v as i128),
        Ty::I64 => e.parse_i64_at(&mut o, buf).map(|v| v as i128),
    };
    (r.map_err(|e| format!("{e:?}")), o)
}

fn expected(ty: Ty, off: usize, buf: &[u8], big: bool) -> Option<i128> {
    let raw = get_int(buf, off, ty.w(), big)?;
    Some(match ty {
        Ty::I32 => crate::codec::sext(raw, 4) as i128,
        Ty::I64 => raw as i64 as i128,
        _ => raw as i128,
    })
}

fn check_one<E: EndianParse>(ctx: &mut Ctx, spec: &str, e: E, big: bool, ty: Ty, off: usize, buf: &[u8], record: bool) {
    ctx.eval();
    let (got, new_off) = call(e, ty, off, buf);
    let exp = expected(ty, off, buf, big);
    match exp {
        Some(v) => {
            if record {
                ctx.count("reads_ok");
                let win = &buf[off..off + ty.w()];
                if ty.w() > 1 && win.iter().any(|b| *b != win[0]) {
                    let mut key = [0u8; 10];
                    key[..ty.w()].copy_from_slice(win);
                    key[8] = ty.w() as u8 | ((big as u8) << 7);
                    key[9] = spec.len() as u8;
                    ctx.nontrivial_bytes(&key);
                }
            }
            let ok_val = got.as_ref().ok() == Some(&v);
            if !ok_val {
                ctx.set_input(buf);
                ctx.violation(
                    &format!("{}:{}:value", ty.name(), spec),
                    format!("{} with {} at offset {} of {}: expected {:#x}, got {:?}", ty.name(), spec, off, hexw(buf, off), v, got),
                );
            } else if new_off != off + ty.w() {
                ctx.set_input(buf);
                ctx.violation(
                    &format!("{}:{}:advance", ty.name(), spec),
                    format!("{} with {} at offset {}: offset advanced to {} instead of {}", ty.name(), spec, off, new_off, off + ty.w()),
                );
            }
        }
        None => {
            if record {
                if off.checked_add(ty.w()).is_none() {
                    ctx.count("reads_offset_overflow_err");
                } else {
                    ctx.count("reads_short_err");
                }
            }
            if got.is_ok() {
                ctx.set_input(buf);
                ctx.violation(
                    &format!("{}:{}:no-error", ty.name(), spec),
                    format!("{} with {} at offset {} of a {}-byte buffer returned {:?} although fewer than {} bytes remain", ty.name(), spec, off, buf.len(), got, ty.w()),
                );
            } else if new_off != off {
                ctx.set_input(buf);
                ctx.violation(
                    &format!("{}:{}:err-moved-offset", ty.name(), spec),
                    format!("{} with {} failed at offset {} but left the offset at {}", ty.name(), spec, off, new_off),
                );
            }
        }
    }
}

/// The same reads through method-call syntax on the concrete spec values, the way user code calls them (an
/// inherent method would shadow the trait method here, and only here).
fn check_concrete(ctx: &mut Ctx, ty: Ty, off: usize, buf: &[u8]) {
    macro_rules! direct {
        ($spec:expr, $name:expr, $big:expr) => {{
            let mut o = off;
            let r: Result<i128, String> = match ty {
                Ty::U8 => $spec.parse_u8_at(&mut o, buf).map(|v| v as i128).map_err(|e| format!("{e:?}")),
                Ty::U16 => $spec.parse_u16_at(&mut o, buf).map(|v| v as i128).map_err(|e| format!("{e:?}")),
                Ty::U32 => $spec.parse_u32_at(&mut o, buf).map(|v| v as i128).map_err(|e| format!("{e:?}")),
                Ty::U64 => $spec.parse_u64_at(&mut o, buf).map(|v| v as i128).map_err(|e| format!("{e:?}")),
                Ty::I32 => $spec.parse_i32_at(&mut o, buf).map(|v| v as i128).map_err(|e| format!("{e:?}")),
                Ty::I64 => $spec.parse_i64_at(&mut o, buf).map(|v| v as i128).map_err(|e| format!("{e:?}")),
            };
            ctx.eval();
            ctx.count("concrete-type-calls");
            let exp = expected(ty, off, buf, $big);
            let ok = match (&exp, &r) {
                (Some(v), Ok(g)) => v == g && o == off + ty.w(),
                (None, Err(_)) => o == off,
                _ => false,
            };
            if !ok {
                ctx.set_input(buf);
                ctx.violation(
                    &format!("{}:{}:direct-call", ty.name(), $name),
                    format!("{}.{}(&mut {off}, {}) returned {:?} and left the offset at {o}; expected {:?} and offset {}", $name, ty.name(), hexw(buf, off), r, exp, if exp.is_some() { off + ty.w() } else { off }),
                );
            }
        }};
    }
    direct!(LittleEndian, "LittleEndian", false);
    direct!(BigEndian, "BigEndian", true);
    direct!(AnyEndian::Little, "AnyEndian::Little", false);
    direct!(AnyEndian::Big, "AnyEndian::Big", true);
    direct!(NativeEndian, "NativeEndian", cfg!(target_endian = "big"));
}

fn check_all_specs(ctx: &mut Ctx, ty: Ty, off: usize, buf: &[u8], record: bool) {
    if record {
        check_concrete(ctx, ty, off, buf);
    }
    check_one(ctx, "LittleEndian", LittleEndian, false, ty, off, buf, record);
    check_one(ctx, "BigEndian", BigEndian, true, ty, off, buf, record);
    check_one(ctx, "AnyEndian::Little", AnyEndian::Little, false, ty, off, buf, record);
    check_one(ctx, "AnyEndian::Big", AnyEndian::Big, true, ty, off, buf, record);
    check_one(ctx, "NativeEndian", NativeEndian, cfg!(target_endian = "big"), ty, off, buf, record);
    // specs defined outside the crate (they inherit the provided readers of the public trait)
    check_one(ctx, "user-defined little-endian spec", super::util::UserLittle, false, ty, off, buf, record);
    check_one(ctx, "user-defined big-endian spec", super::util::UserBig, true, ty, off, buf, record);
    if record {
        ctx.count_n("spec:NativeEndian", 1);
        ctx.count_n("spec:AnyEndian::Big", 1);
    }
}

const TYPES: [Ty; 6] = [Ty::U8, Ty::U16, Ty::U32, Ty::U64, Ty::I32, Ty::I64];

const WIDE_PATTERNS: [u64; 25] = [
    0, 1, 2, 0x7f, 0x80, 0xff, 0x7fff, 0x8000, 0xffff, 0x7fff_ffff, 0x8000_0000, 0xffff_ffff, 0x1_0000_0000,
    0x7fff_ffff_ffff_ffff, 0x8000_0000_0000_0000, 0xffff_ffff_ffff_ffff, 0x0102_0304_0506_0708, 0xf1f2_f3f4_f5f6_f7f8,
    0x8000_0000_0000_0001, 0x0000_0000_8000_0000, 0xffff_ffff_0000_0000, 0x0000_0001_0000_0000, 0x00ff_00ff_00ff_00ff,
    0xfffe_fdfc_fbfa_f9f8, 0x8081_8283_8485_8687,
];

/// the buffer in hex, or for a large buffer the 32 bytes around `off`
fn hexw(buf: &[u8], off: usize) -> String {
    if buf.len() <= 256 {
        crate::ctx::hex(buf)
    } else {
        let a = off.saturating_sub(16).min(buf.len());
        let b = off.saturating_add(16).min(buf.len());
        format!("a {}-byte buffer, bytes [{a:#x},{b:#x}) = {}", buf.len(), crate::ctx::hex(&buf[a..b]))
    }
}

fn huge_case(ctx: &mut Ctx) {
    let seed = ctx.rng.next_u64();
    let done = super::util::with_huge_buffer(|buf| {
        let len = buf.len();
        let mut rng = crate::rng::Rng::new(seed);
        // a 96-byte window of random bytes straddling 2^32 (or the end of the buffer, or 2^32 exactly)
        let base: usize = match rng.below(4) {
            0 => super::util::G4.wrapping_sub(48),
            1 => super::util::G4.wrapping_sub(8 + rng.usize_below(8)),
            2 => super::util::G4,
            _ => len - 96,
        };
        for i in 0..96 {
            buf[base + i] = rng.next_u64() as u8;
        }
        let view: &[u8] = buf;
        for off in base.saturating_sub(9)..base + 100 {
            for ty in [Ty::U8, Ty::U16, Ty::U32, Ty::U64, Ty::I32, Ty::I64] {
                check_all_specs(ctx, ty, off, view, off % 32 == 0);
            }
        }
        ctx.count("reads-at-offsets>=2^32-16");
        for i in 0..96 {
            buf[base + i] = 0;
        }
    });
    if done.is_none() {
        ctx.count("beyond-4GiB:not-on-this-target");
    }
}

fn run(ctx: &mut Ctx, si: usize, case: u64) {
    match si {
        4 => huge_case(ctx),
        0 => {
            let (len, off) = sweep_case(case);
            let mut buf: Vec<u8> = (0..len).map(|i| ((i * 37 + 11) & 0xff) as u8).collect();
            ctx.sample(|| format!("len={len} off={off:#x}: all 256 u8 and all 65536 u16 byte combinations at that offset x 5 specs"));
            // u8: all 256 values at `off` (if inside), else the error path
            if off < len {
                for v in 0..=255u8 {
                    buf[off] = v;
                    check_all_specs(ctx, Ty::U8, off, &buf, v < 2);
                }
            } else {
                check_all_specs(ctx, Ty::U8, off, &buf, true);
            }
            if off < len && off + 1 < len {
                // (under Miri every 251st value: the sweep is exhaustive natively)
                let step = if ctx.tier == Tier::Miri { 1021 } else { 1 };
                for v in (0..=0xffffu32).step_by(step) {
                    buf[off] = (v >> 8) as u8;
                    buf[off + 1] = v as u8;
                    check_all_specs(ctx, Ty::U16, off, &buf, v % 4099 == 1);
                }
            } else {
                check_all_specs(ctx, Ty::U16, off, &buf, true);
            }
            // the wider types on the same short buffers (mostly error paths)
            for ty in [Ty::U32, Ty::U64, Ty::I32, Ty::I64] {
                check_all_specs(ctx, ty, off, &buf, true);
            }
        }
        1 => {
            // every boundary pattern, stored in both orders, at every offset of buffers 0..=24
            let pat = WIDE_PATTERNS[(case as usize) % WIDE_PATTERNS.len()];
            ctx.sample(|| format!("pattern {pat:#018x} stored LE and BE at every offset of buffers of length 0..=24"));
            for len in 0..=(if ctx.tier == Tier::Miri { 4usize } else { 24 }) {
                for big in [false, true] {
                    for at in 0..=len {
                        let mut buf = vec![0xA5u8; len];
                        for i in 0..8 {
                            if at + i < len {
                                let shift = if big { 8 * (7 - i) } else { 8 * i };
                                buf[at + i] = (pat >> shift) as u8;
                            }
                        }
                        for off in (0..=len + 9).chain(usize::MAX - 8..=usize::MAX) {
                            for ty in TYPES {
                                check_all_specs(ctx, ty, off, &buf, len == 24);
                            }
                        }
                    }
                }
            }
        }
        2 => {
            let k = 1 + (case as u32 % (usize::BITS - 1));
            let base = 1usize << k;
            ctx.sample(|| format!("offsets 2^{k} + d for d in -9..=len+9, buffers of length 0..=16, 6 types x 5 specs"));
            for len in if ctx.tier == Tier::Miri { vec![0usize, 8] } else { vec![0usize, 1, 2, 7, 8, 16] } {
                let buf: Vec<u8> = (0..len).map(|i| (i * 29 + 3) as u8).collect();
                for d in -9i64..=(len as i64 + 9) {
                    let off = if d < 0 { base.wrapping_sub((-d) as usize) } else { base.wrapping_add(d as usize) };
                    ctx.count("offset:2^k+d");
                    for ty in TYPES {
                        check_all_specs(ctx, ty, off, &buf, false);
                    }
                }
            }
        }
        _ => {
            let len = ctx.rng.usize_below(65);
            let mut buf = ctx.rng.bytes(len);
            if ctx.rng.chance(1, 6) {
                // byte patterns with period 1, 2 or 4 (what memset-like fills and mask constants look like)
                let p = [1usize, 2, 2, 4][ctx.rng.usize_below(4)];
                for i in p..len {
                    buf[i] = buf[i - p];
                }
            }
            if ctx.rng.chance(1, 4) && len >= 8 {
                // plant a boundary value
                let at = ctx.rng.usize_below(len - 7);
                let v = ctx.rng.boundary(64);
                let big = ctx.rng.bool();
                for i in 0..8 {
                    let shift = if big { 8 * (7 - i) } else { 8 * i };
                    buf[at + i] = (v >> shift) as u8;
                }
            }
            ctx.sample(|| format!("buf={} offsets 0..len+9 and near usize::MAX, 6 types x 5 specs", crate::ctx::hex(&buf)));
            for _ in 0..8 {
                let off = match ctx.rng.below(8) {
                    0 => usize::MAX - ctx.rng.usize_below(9),
                    1 => len + ctx.rng.usize_below(10),
                    2 => len.saturating_sub(ctx.rng.usize_below(9)),
                    _ => ctx.rng.usize_below(len + 1),
                };
                for ty in TYPES {
                    check_all_specs(ctx, ty, off, &buf, true);
                }
            }
        }
    }
}

//! C13 — GNU symbol-version queries resolve to the right requirement/definition.
use super::c09::class_of;
use super::{scale, st, PropDef, Stratum};
use crate::codec::Enc;
use crate::ctx::{hex_trunc, Ctx, Tier};
use crate::gen::symver::{gen_model, model_definition, model_requirement, VersionBytes, VersionModel};
use elf::endian::{AnyEndian, BigEndian, EndianParse, LittleEndian};
use elf::gnu_symver::{SymbolVersionTable, VerDefIterator, VerNeedIterator, VersionIndexTable};
use elf::string_table::StringTable;

pub const DEF: PropDef = PropDef { id: "C13", strata, run, setup, canaries: &["panic"] };

fn setup(ctx: &mut Ctx) {
    ctx.floor("standalone:tables-at-a-nonzero-starting-offset", 1000);
    ctx.floor("requirement:some", 2000);
    ctx.floor("requirement:none", 2000);
    ctx.floor("definition:some", 2000);
    ctx.floor("definition:none", 2000);
    ctx.floor("hidden-bit-set", 500);
    ctx.floor("versym:local0", 200);
    ctx.floor("versym:global1-unlisted", 100);
    ctx.floor("versym:global1-listed", 20);
    ctx.floor("versym:unknown-index", 200);
    ctx.floor("beyond-versym", 500);
    ctx.floor("layout:scattered", 100);
    ctx.floor("layout:contiguous", 100);
    ctx.floor("no-verneed-section", 20);
    ctx.floor("no-verdef-section", 20);
    ctx.floor("def:multiple-names", 200);
    ctx.floor("via:ElfBytes", 500);
    ctx.floor("via:ElfStream", 500);
    ctx.floor("via:separate-strtabs-for-verneed-and-verdef", 100);
    for e in Enc::ALL {
        ctx.floor(&format!("enc:{}", e.name()), 50);
    }
}

fn strata(t: Tier) -> Vec<Stratum> {
    vec![
        st("standalone-small", scale(t, 1_200_000, 12_000_000, 10)),
        st("standalone-large", scale(t, 60_000, 600_000, 1)),
        #[cfg(feature = "full")]
        st("via-elf-file", scale(t, 300_000, 3_000_000, 3)),
    ]
}

/// Judge every query of a version table against the model.
pub fn judge<E: EndianParse>(ctx: &mut Ctx, via: &str, m: &VersionModel, table: &SymbolVersionTable<'_, E>) -> bool {
    let n = m.versym.len();
    // in-range indices, each followed by indices that alias it modulo 2^16 / 2^32 (a query must not depend on
    // what was asked before), then the far out-of-range ones
    let mut order: Vec<usize> = Vec::new();
    for i in 0..n + 3 {
        order.push(i);
        if i < n && i % 3 == 0 {
            order.push(i.wrapping_add(1 << 16));
            #[cfg(target_pointer_width = "64")]
            {
                order.push(i.wrapping_add(1 << 32));
                order.push(i.wrapping_add(5 << 32));
            }
            order.push(i | (1usize << (usize::BITS - 1)));
        }
    }
    order.extend([usize::MAX / 2, usize::MAX - 1, usize::MAX]);
    for i in order {
        ctx.evals(2);
        let req = table.get_requirement(i);
        let def = table.get_definition(i);
        if i >= n {
            ctx.count("beyond-versym");
            if matches!(req, Ok(Some(_))) || matches!(def, Ok(Some(_))) {
                ctx.violation(&format!("{via}:record-beyond-versym"), format!("{via}: symbol index {i} >= versym length {n} yielded a record: req {:?} def-some {}", req, matches!(def, Ok(Some(_)))));
                return false;
            }
            continue;
        }
        let v = m.versym[i];
        let idx = v & 0x7fff;
        let hidden = v & 0x8000 != 0;
        if hidden {
            ctx.count("hidden-bit-set");
        }
        match idx {
            0 => ctx.count("versym:local0"),
            1 => {
                if m.defs.iter().any(|d| d.ndx == 1) {
                    ctx.count("versym:global1-listed")
                } else {
                    ctx.count("versym:global1-unlisted")
                }
            }
            _ => {}
        }
        let want_req = if m.has_needs { model_requirement(m, v) } else { None };
        let want_def = if m.has_defs { model_definition(m, v) } else { None };
        if want_req.is_none() && want_def.is_none() && idx > 1 {
            ctx.count("versym:unknown-index");
        }
        if want_req.is_some() && want_def.is_some() {
            ctx.count("versym:index-in-both-sections");
        }
        match (want_req, req) {
            (None, Ok(None)) => ctx.count("requirement:none"),
            (Some((need, aux)), Ok(Some(r))) => {
                ctx.count("requirement:some");
                if r.file != need.file || r.name != aux.name || r.hash != aux.hash || r.flags != aux.flags || r.hidden != hidden {
                    ctx.violation(
                        &format!("{via}:requirement:wrong-record"),
                        format!("{via}: get_requirement({i}) versym={v:#x}: got {:?}, model file={:?} name={:?} hash={:#x} flags={:#x} hidden={}", r, need.file, aux.name, aux.hash, aux.flags, hidden),
                    );
                    return false;
                }
            }
            (w, g) => {
                ctx.violation(
                    &format!("{via}:requirement:{}", if w.is_some() { "missing" } else { "spurious" }),
                    format!("{via}: get_requirement({i}) versym={v:#x}: got {:?}, model says {:?}", g, w.map(|(n, a)| (&n.file, &a.name, a.other))),
                );
                return false;
            }
        }
        match (want_def, def) {
            (None, Ok(None)) => ctx.count("definition:none"),
            (Some(d), Ok(Some(g))) => {
                ctx.count("definition:some");
                if d.names.len() > 1 {
                    ctx.count("def:multiple-names");
                }
                let names: Vec<Result<String, String>> = g.names.take(d.names.len() + 3).map(|r| r.map(|s| s.to_string()).map_err(|e| format!("{e:?}"))).collect();
                let want: Vec<Result<String, String>> = d.names.iter().map(|s| Ok(s.clone())).collect();
                if g.hash != d.hash || g.flags != d.flags || g.hidden != hidden || names != want {
                    ctx.violation(
                        &format!("{via}:definition:wrong-record"),
                        format!("{via}: get_definition({i}) versym={v:#x}: got hash={:#x} flags={:#x} hidden={} names={:?}; model hash={:#x} flags={:#x} hidden={} names={:?}", g.hash, g.flags, g.hidden, names, d.hash, d.flags, hidden, d.names),
                    );
                    return false;
                }
            }
            (w, g) => {
                ctx.violation(
                    &format!("{via}:definition:{}", if w.is_some() { "missing" } else { "spurious" }),
                    format!("{via}: get_definition({i}) versym={v:#x}: got {}, model says {:?}", match &g { Ok(Some(_)) => "Some".to_string(), Ok(None) => "None".to_string(), Err(e) => format!("Err({e:?})") }, w.map(|d| (d.ndx, &d.names))),
                );
                return false;
            }
        }
    }
    true
}

fn standalone<E: EndianParse>(ctx: &mut Ctx, e: E, enc: Enc, m: &VersionModel, vb: &VersionBytes) {
    let class = class_of(enc);
    let strs = StringTable::new(&vb.strtab);
    let dstrs = StringTable::new(vb.strtab_def.as_deref().unwrap_or(&vb.strtab));
    let needs = if m.has_needs { Some((VerNeedIterator::new(e, class, m.needs.len() as u64, 0, &vb.verneed), strs)) } else { None };
    let defs = if m.has_defs { Some((VerDefIterator::new(e, class, m.defs.len() as u64, 0, &vb.verdef), dstrs)) } else { None };
    let table = SymbolVersionTable::new(VersionIndexTable::new(e, class, &vb.versym), needs, defs);
    if !judge(ctx, "standalone", m, &table) {
        return;
    }
    // the same tables inside a larger image (a loaded segment, a whole file), handed over with their starting offsets
    {
        let (pn, pd) = (1 + ctx.rng.usize_below(40), 1 + ctx.rng.usize_below(40));
        let mut nbuf = ctx.rng.bytes(pn);
        nbuf.extend_from_slice(&vb.verneed);
        nbuf.extend_from_slice(&ctx.rng.bytes(7));
        let mut dbuf = ctx.rng.bytes(pd);
        dbuf.extend_from_slice(&vb.verdef);
        dbuf.extend_from_slice(&ctx.rng.bytes(7));
        let needs = if m.has_needs { Some((VerNeedIterator::new(e, class, m.needs.len() as u64, pn, &nbuf), strs)) } else { None };
        let defs = if m.has_defs { Some((VerDefIterator::new(e, class, m.defs.len() as u64, pd, &dbuf), dstrs)) } else { None };
        let table = SymbolVersionTable::new(VersionIndexTable::new(e, class, &vb.versym), needs, defs);
        ctx.count("standalone:tables-at-a-nonzero-starting-offset");
        if !judge(ctx, "standalone-at-offset", m, &table) {
            return;
        }
    }
    // the record iterators under the std Iterator protocol
    if m.has_needs && m.needs.len() <= 12 {
        let nb = &vb.verneed[..];
        if !super::util::iter_protocol(ctx, "VerNeedIterator", || VerNeedIterator::new(e, class, m.needs.len() as u64, 0, nb), |(vn, aux)| format!("{:?}", (vn, aux.collect::<Vec<_>>())), m.needs.len() + 3, false) {
            return;
        }
    }
    if m.has_defs && m.defs.len() <= 12 {
        let db = &vb.verdef[..];
        if !super::util::iter_protocol(ctx, "VerDefIterator", || VerDefIterator::new(e, class, m.defs.len() as u64, 0, db), |(vd, aux)| format!("{:?}", (vd, aux.collect::<Vec<_>>())), m.defs.len() + 3, false) {
            return;
        }
        // the names of the first definition
        let idx0 = m.versym.iter().position(|v| m.defs.first().map(|d| d.ndx == v & 0x7fff).unwrap_or(false));
        if let Some(i) = idx0 {
            if table.get_definition(i).ok().flatten().is_some() {
                let _ = super::util::iter_protocol(ctx, "SymbolNamesIterator", || table.get_definition(i).unwrap().unwrap().names, |r| format!("{:?}", r.map(|s| s.to_string()).map_err(|e| format!("{e:?}"))), 8, false);
            }
        }
    }
}

pub fn note_model(ctx: &mut Ctx, enc: Enc, m: &VersionModel, vb: &VersionBytes) {
    ctx.count(&format!("enc:{}", enc.name()));
    ctx.count(if vb.scattered { "layout:scattered" } else { "layout:contiguous" });
    if !m.has_needs {
        ctx.count("no-verneed-section");
    }
    if !m.has_defs {
        ctx.count("no-verdef-section");
    }
    let mut input = vb.versym.clone();
    input.extend_from_slice(&vb.verneed);
    input.extend_from_slice(&vb.verdef);
    input.extend_from_slice(&vb.strtab);
    ctx.set_input(&input);
    if m.needs.len() + m.defs.len() >= 2 && !m.versym.is_empty() {
        ctx.nontrivial_bytes(&input);
    }
}

fn run(ctx: &mut Ctx, si: usize, _case: u64) {
    let enc = Enc::ALL[ctx.rng.usize_below(4)];
    let any = ctx.rng.bool();
    match si {
        0 | 1 => {
            let m = if si == 0 { gen_model(&mut ctx.rng, 6, 5, 6) } else { gen_model(&mut ctx.rng, 40, 20, 40) };
            let scattered = ctx.rng.bool();
            let split = ctx.rng.chance(1, 3);
            let vb = crate::gen::symver::emit_opt(enc, &m, &mut ctx.rng, scattered, split);
            note_model(ctx, enc, &m, &vb);
            ctx.sample(|| format!("{} needs={} auxes={} defs={} versym={} scattered={} any={} verneed={}", enc.name(), m.needs.len(), m.needs.iter().map(|n| n.auxes.len()).sum::<usize>(), m.defs.len(), m.versym.len(), scattered, any, hex_trunc(&vb.verneed, 32)));
            match (any, enc.big) {
                (true, false) => standalone(ctx, AnyEndian::Little, enc, &m, &vb),
                (true, true) => standalone(ctx, AnyEndian::Big, enc, &m, &vb),
                (false, false) => standalone(ctx, LittleEndian, enc, &m, &vb),
                (false, true) => standalone(ctx, BigEndian, enc, &m, &vb),
            }
        }
        _ => via_file(ctx, enc, any),
    }
}

/// The same model wrapped in a full ELF and queried through both parsers.
fn via_file(ctx: &mut Ctx, enc: Enc, _any: bool) {
    use crate::codec::k;
    use crate::gen::elf::{build, ObjSpec, Part, Sec};
    let m = gen_model(&mut ctx.rng, 6, 5, 6);
    let scattered = ctx.rng.bool();
    let split = ctx.rng.chance(1, 2);
    let vb = crate::gen::symver::emit_opt(enc, &m, &mut ctx.rng, scattered, split);
    note_model(ctx, enc, &m, &vb);
    if split {
        ctx.count("via:separate-strtabs-for-verneed-and-verdef");
    }
    let mut spec = ObjSpec::new(enc);
    spec.max_gap = [0usize, 4, 9][ctx.rng.usize_below(3)];
    let mut order = [Part::Phdrs, Part::Bodies, Part::Shdrs];
    ctx.rng.shuffle(&mut order);
    spec.order = order;
    if ctx.rng.bool() {
        spec.add(Sec::new(b".text", k::SHT_PROGBITS, ctx.rng.bytes(9)));
    }
    let verstr = spec.add(Sec::new(b".gnu.verstr", k::SHT_STRTAB, vb.strtab.clone()));
    let defstr = match &vb.strtab_def {
        Some(t) => spec.add(Sec::new(b".gnu.defstr", k::SHT_STRTAB, t.clone())),
        None => verstr,
    };
    // the three version sections in a random order
    let mut kinds = vec![0u8];
    if m.has_needs {
        kinds.push(1);
    }
    if m.has_defs {
        kinds.push(2);
    }
    ctx.rng.shuffle(&mut kinds);
    for kd in kinds {
        match kd {
            0 => {
                let mut vs = Sec::new(b".gnu.version", k::SHT_GNU_VERSYM, vb.versym.clone());
                vs.entsize = 2;
                vs.addralign = 2;
                spec.add(vs);
            }
            1 => {
                let mut vr = Sec::new(b".gnu.version_r", k::SHT_GNU_VERNEED, vb.verneed.clone());
                vr.link = verstr as u32;
                vr.info = m.needs.len() as u32;
                spec.add(vr);
            }
            _ => {
                let mut vd = Sec::new(b".gnu.version_d", k::SHT_GNU_VERDEF, vb.verdef.clone());
                vd.link = defstr as u32;
                vd.info = m.defs.len() as u32;
                spec.add(vd);
            }
        }
    }
    // a .dynamic section (and PT_DYNAMIC) with the entries a link editor writes for the version sections
    if ctx.rng.chance(2, 3) {
        use crate::gen::elf::{Seg, SegRange};
        let mut entries: Vec<(u64, u64)> = vec![(1, 1), (0x6fff_fff0, 0x2000)];
        if m.has_needs {
            entries.push((0x6fff_fffe, 0x3000));
            entries.push((0x6fff_ffff, m.needs.len() as u64));
        }
        if m.has_defs {
            entries.push((0x6fff_fffc, 0x4000));
            entries.push((0x6fff_fffd, m.defs.len() as u64));
        }
        ctx.rng.shuffle(&mut entries);
        entries.push((0, 0));
        let mut d = Sec::new(b".dynamic", k::SHT_DYNAMIC, crate::gen::object::dyn_bytes(enc, &entries));
        d.entsize = crate::codec::size_of(crate::codec::St::Dyn, enc.c64) as u64;
        d.link = verstr as u32;
        let di = spec.add(d);
        spec.segs.push(Seg { p_type: k::PT_DYNAMIC, flags: 6, range: SegRange::OfSection(di), vaddr: 0x5000, paddr: 0x5000, memsz_extra: 0, align: 8 });
        ctx.count("via:with-.dynamic(DT_VERNEEDNUM/DT_VERDEFNUM)");
    }
    let b = build(&spec, &mut ctx.rng);
    ctx.set_input(&b.bytes);
    ctx.sample(|| format!("{} object ({} bytes): needs={} defs={} versym={} scattered={}", enc.name(), b.bytes.len(), m.needs.len(), m.defs.len(), m.versym.len(), scattered));
    match super::util::open_slice(&b.bytes) {
        Ok(f) => match f.symbol_version_table() {
            Ok(Some(t)) => {
                ctx.count("via:ElfBytes");
                if !judge(ctx, "ElfBytes", &m, &t) {
                    return;
                }
            }
            other => {
                ctx.violation("ElfBytes:symbol_version_table:unavailable", format!("a well-formed versioned object gave {:?}", other.map(|o| o.is_some())));
                return;
            }
        },
        Err(e) => {
            ctx.inconclusive(format!("generated versioned object does not open: {e}"));
            return;
        }
    }
    #[cfg(feature = "elf_std")]
    match super::util::open_stream(&b.bytes) {
        Ok(mut f) => match f.symbol_version_table() {
            Ok(Some(t)) => {
                ctx.count("via:ElfStream");
                judge(ctx, "ElfStream", &m, &t);
            }
            other => ctx.violation("ElfStream:symbol_version_table:unavailable", format!("a well-formed versioned object gave {:?}", other.map(|o| o.is_some()))),
        },
        Err(e) => ctx.inconclusive(format!("generated versioned object does not open as a stream: {e}")),
    }
}

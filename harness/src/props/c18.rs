//! C18 — a truncated file yields errors or unchanged answers, never different answers.
use super::c07::name_queries;
use super::util::{open_slice, open_stream};
use super::{scale, st, PropDef, Stratum};
use crate::codec::Enc;
use crate::corpus::seeds;
use crate::ctx::{Ctx, Tier};
use crate::gen::elf::build;
use crate::gen::object::{gen_object, GenOpts};
use crate::observe::{full_query_set, obs_slice, obs_stream, NoMonitor, Obs, Query};
use crate::reference::locator::ref_open;

pub const DEF: PropDef = PropDef { id: "C18", strata, run, setup, canaries: &["panic"] };

fn setup(ctx: &mut Ctx) {
    ctx.floor("counts-expressed-through-shdr0", 100);
    ctx.floor("name-table-without-final-terminator", 100);
    ctx.floor("files", 100);
    ctx.floor("prefixes-evaluated", 20_000);
    ctx.floor("prefix:opens", 5_000);
    ctx.floor("prefix:query-ok-equal", 50_000);
    ctx.floor("prefix:query-err-where-full-ok", 10_000);
    ctx.floor("files:more-than-half-of-prefixes-open", 20);
    ctx.floor("extension:checked", 100);
    ctx.floor("stream:prefixes-evaluated", 2_000);
    ctx.floor("big-count-file-prefixes", 100);
}

fn strata(t: Tier) -> Vec<Stratum> {
    vec![st("generated-all-prefixes", scale(t, 6_400, 64_000, 1)), st("seed-boundary-prefixes", scale(t, 320, 3_200, 0)), st("big-count-files", scale(t, 16, 64, 0))]
}

fn relation_ok(prefix: &Obs, full: &Obs) -> bool {
    match (prefix, full) {
        (Err(_), _) => true,
        (Ok(a), Ok(b)) => a == b,
        (Ok(_), Err(_)) => false,
    }
}

fn short(o: &Obs) -> String {
    let s = match o {
        Ok(s) => format!("Ok({s})"),
        Err(e) => format!("Err({e})"),
    };
    if s.len() > 220 {
        let mut c = 220;
        while !s.is_char_boundary(c) {
            c -= 1;
        }
        format!("{}…", &s[..c])
    } else {
        s
    }
}

/// Compare every query on `prefix` with the recorded answers on the full file.
fn judge_prefix(ctx: &mut Ctx, what: &str, full_len: usize, prefix: &[u8], queries: &[Query], full: &[Obs], full_stream: &[Option<Obs>], with_stream: bool) -> bool {
    ctx.count("prefixes-evaluated");
    let l = prefix.len();
    match open_slice(prefix) {
        Ok(f) => {
            ctx.count("prefix:opens");
            for (q, want) in queries.iter().zip(full.iter()) {
                ctx.eval();
                let got = obs_slice(&f, q);
                if !relation_ok(&got, want) {
                    ctx.set_input(prefix);
                    ctx.violation(
                        &format!("slice:{}:prefix-answer-differs", q.label()),
                        format!("{what}: first {l} of {full_len} bytes: {:?} returned {} but on the complete file it returns {}", q, short(&got), short(want)),
                    );
                    return false;
                }
                match (&got, want) {
                    (Ok(_), _) => ctx.count("prefix:query-ok-equal"),
                    (Err(_), Ok(_)) => ctx.count("prefix:query-err-where-full-ok"),
                    _ => {}
                }
            }
        }
        Err(_) => {}
    }
    if with_stream {
        ctx.count("stream:prefixes-evaluated");
        if let Ok(mut f) = open_stream(prefix) {
            for (q, want) in queries.iter().zip(full_stream.iter()) {
                let Some(want) = want else { continue };
                ctx.eval();
                let got = obs_stream(&mut f, q, &mut NoMonitor);
                if !relation_ok(&got, want) {
                    ctx.set_input(prefix);
                    ctx.violation(
                        &format!("stream:{}:prefix-answer-differs", q.label()),
                        format!("{what}: stream over the first {l} of {full_len} bytes: {:?} returned {} but on the complete stream it returns {}", q, short(&got), short(want)),
                    );
                    return false;
                }
            }
        }
    }
    true
}

fn judge_file(ctx: &mut Ctx, data: &[u8], what: &str, lengths: &[usize], stream_every: usize) {
    ctx.count("files");
    let r = match ref_open(data, &[1, 2]) {
        Ok(r) => r,
        Err(_) => return,
    };
    let names = name_queries(&r, &mut ctx.rng, 5);
    let queries = full_query_set(r.shnum().min(40), r.phnum().min(12), &names, false);
    let f = match open_slice(data) {
        Ok(f) => f,
        Err(e) => {
            ctx.inconclusive(format!("complete file does not open: {e}"));
            return;
        }
    };
    let full: Vec<Obs> = queries.iter().map(|q| obs_slice(&f, q)).collect();
    let full_stream: Vec<Option<Obs>> = match open_stream(data) {
        Ok(mut s) => queries.iter().map(|q| if q.stream_supported() { Some(obs_stream(&mut s, q, &mut NoMonitor)) } else { None }).collect(),
        Err(_) => queries.iter().map(|_| None).collect(),
    };
    ctx.nontrivial_bytes(data);
    ctx.sample(|| format!("{what}: {} bytes, {} queries, {} prefix lengths", data.len(), queries.len(), lengths.len()));
    let mut opens = 0usize;
    for (k, &l) in lengths.iter().enumerate() {
        let before = ctx.counters.get("prefix:opens").copied().unwrap_or(0);
        if !judge_prefix(ctx, what, data.len(), &data[..l], &queries, &full, &full_stream, stream_every > 0 && k % stream_every == 0) {
            return;
        }
        if ctx.counters.get("prefix:opens").copied().unwrap_or(0) > before {
            opens += 1;
        }
    }
    if opens * 2 > lengths.len() {
        ctx.count("files:more-than-half-of-prefixes-open");
    }
    // extension: the file is a proper prefix of file ++ suffix
    let mut ext = data.to_vec();
    let n = 1 + ctx.rng.usize_below(64);
    ext.extend_from_slice(&ctx.rng.bytes(n));
    if let Ok(fe) = open_slice(&ext) {
        ctx.count("extension:checked");
        for (q, got) in queries.iter().zip(full.iter()) {
            ctx.eval();
            let want = obs_slice(&fe, q);
            if !relation_ok(got, &want) {
                ctx.set_input(&ext);
                ctx.violation(
                    &format!("slice:{}:extension-changes-answer", q.label()),
                    format!("{what}: appending {n} bytes changed {:?}: before {} after {}", q, short(got), short(&want)),
                );
                return;
            }
        }
    } else {
        ctx.violation("open:extension-breaks-open", format!("{what}: the file opens but the file with {n} appended bytes does not"));
    }
}

fn run(ctx: &mut Ctx, si: usize, case: u64) {
    match si {
        0 => {
            let enc = Enc::ALL[ctx.rng.usize_below(4)];
            let mut o = GenOpts::unmodelled();
            o.early_tables = true;
            o.max_syms = 4;
            o.density = 4;
            o.weird_views = ctx.rng.bool();
            let (spec, _) = gen_object(&mut ctx.rng, enc, &o);
            let mut b = build(&spec, &mut ctx.rng);
            if b.shstrndx != 0 && ctx.rng.chance(1, 4) {
                // the name table's declared size stops short of its last terminator: the last name is cut off and the
                // bytes behind the table (the rest of that name, other content) are no part of any name
                let z = b.secs[b.shstrndx].size;
                let cut = 1 + ctx.rng.below(3);
                if z > cut && b.poke(&format!("shdr[{}].sh_size", b.shstrndx), z - cut) {
                    ctx.count("name-table-without-final-terminator");
                }
            }
            let mut enc_log = Vec::new();
            if ctx.rng.chance(1, 4) {
                enc_log = crate::gen::mutate::extended_encoding(&mut ctx.rng, &mut b);
                if !enc_log.is_empty() {
                    ctx.count("counts-expressed-through-shdr0");
                }
            }
            let lengths: Vec<usize> = if ctx.tier == Tier::Miri {
                (0..24).map(|_| ctx.rng.usize_below(b.bytes.len())).collect()
            } else if b.bytes.len() <= 4096 {
                (0..b.bytes.len()).collect()
            } else {
                let mut v: Vec<usize> = b.fields.iter().flat_map(|f| [f.off.saturating_sub(1), f.off, f.off + f.w]).filter(|l| *l < b.bytes.len()).collect();
                for _ in 0..256 {
                    v.push(ctx.rng.usize_below(b.bytes.len()));
                }
                v.sort();
                v.dedup();
                v
            };
            judge_file(ctx, &b.bytes, &format!("generated {} {:?}", enc.name(), enc_log), &lengths, 4);
        }
        2 => {
            // megabyte-sized files with extended numbering: prefixes around every structure boundary
            use crate::gen::elf::{ObjSpec, Part, Sec};
            let enc = Enc::ALL[ctx.rng.usize_below(4)];
            let mut spec = ObjSpec::new(enc);
            spec.e_type = [1u16, 2, 3, 4][ctx.rng.usize_below(4)];
            spec.add(Sec::new(b".text", crate::codec::k::SHT_PROGBITS, ctx.rng.bytes(24)));
            match ctx.rng.below(3) {
                0 => spec.filler_segments = 0xffff + ctx.rng.usize_below(4),
                1 => spec.filler_sections = 0xff00 + ctx.rng.usize_below(0x200),
                _ => {
                    spec.filler_segments = 0xffff + 2;
                    spec.filler_sections = 0xff01;
                }
            }
            let orders = [[Part::Phdrs, Part::Bodies, Part::Shdrs], [Part::Shdrs, Part::Bodies, Part::Phdrs], [Part::Bodies, Part::Phdrs, Part::Shdrs], [Part::Bodies, Part::Shdrs, Part::Phdrs]];
            spec.order = orders[ctx.rng.usize_below(4)];
            let b = build(&spec, &mut ctx.rng);
            let len = b.bytes.len();
            let phsz = crate::codec::size_of(crate::codec::St::Phdr, enc.c64);
            let shsz = crate::codec::size_of(crate::codec::St::Shdr, enc.c64);
            let mut v: Vec<usize> = Vec::new();
            for base in [b.shoff as usize, b.phoff as usize, b.shoff as usize + b.shnum * shsz, b.phoff as usize + b.phnum * phsz, b.phoff as usize + 0xffff * phsz, b.shoff as usize + 0xff00 * shsz, b.shoff as usize + shsz, len] {
                for d in [-2i64, -1, 0, 1, 2] {
                    let l = base as i64 + d;
                    if l >= 0 && (l as usize) < len {
                        v.push(l as usize);
                    }
                }
            }
            for _ in 0..6 {
                v.push(ctx.rng.usize_below(len));
            }
            v.sort();
            v.dedup();
            ctx.count_n("big-count-file-prefixes", v.len() as u64);
            judge_file(ctx, &b.bytes, &format!("{} big-count file (e_type {}, shnum {}, phnum {}, {} bytes)", enc.name(), spec.e_type, b.shnum, b.phnum, len), &v, 4);
        }
        _ => {
            let s = seeds();
            if s.is_empty() {
                ctx.inconclusive("no sample objects".to_string());
                return;
            }
            let (name, bytes) = &s[(case as usize) % s.len()];
            // every structure boundary +-1 from the field map plus random lengths
            let mut v: Vec<usize> = Vec::new();
            if let Some((_, fields)) = crate::corpus::fieldmap_of(bytes) {
                for f in fields.iter() {
                    if ctx.rng.chance(1, 6) {
                        v.extend([f.off.saturating_sub(1), f.off, f.off + f.w]);
                    }
                }
            }
            if let Ok(r) = ref_open(bytes, &[1, 2]) {
                for i in 0..r.shnum() {
                    if let Some(sh) = r.shdr(i) {
                        let (o, z) = (sh.get("sh_offset") as usize, sh.get("sh_size") as usize);
                        v.extend([o.saturating_sub(1), o, o + 1, (o + z).saturating_sub(1), o + z, o + z + 1]);
                    }
                }
            }
            for _ in 0..64 {
                v.push(ctx.rng.usize_below(bytes.len()));
            }
            v.retain(|l| *l < bytes.len());
            v.sort();
            v.dedup();
            if v.len() > 160 {
                ctx.rng.shuffle(&mut v);
                v.truncate(160);
            }
            judge_file(ctx, bytes, &format!("seed {name}"), &v, 8);
        }
    }
}

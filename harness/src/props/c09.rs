//! C09 — lazy tables are coherent: len, get, iteration and emptiness agree.
use super::{ex, scale, st, PropDef, Stratum};
use crate::codec::{size_of, Enc, Rec};
use crate::ctx::{hex_trunc, Ctx, Tier};
use crate::reference::structs::{mismatch, Fields};
use elf::dynamic::Dyn;
use elf::endian::{AnyEndian, BigEndian, EndianParse, LittleEndian};
use elf::file::Class;
use elf::gnu_symver::VersionIndex;
use elf::parse::{ParseAt, ParsingIterator, ParsingTable};
use elf::relocation::{Rel, Rela};
use elf::section::SectionHeader;
use elf::segment::ProgramHeader;
use elf::symbol::Symbol;

pub const DEF: PropDef = PropDef { id: "C09", strata, run, setup, canaries: &["panic"] };

const NTYPES: u64 = 9;
const TYPE_NAMES: [&str; 9] = ["SectionHeader", "ProgramHeader", "Symbol", "Dyn", "VersionIndex", "u32", "u64", "Rel", "Rela"];

fn setup(ctx: &mut Ctx) {
    for t in TYPE_NAMES {
        ctx.floor(&format!("tables:{t}"), 8);
    }
    ctx.floor("trailing-partial-entry", 100);
    ctx.floor("empty-table", 10);
    ctx.floor("get:index-near-usize-max", 100);
    ctx.floor("shuffled-access", 100);
}

fn strata(t: Tier) -> Vec<Stratum> {
    vec![
        // (type, encoding) pairs; each case sweeps every byte length 0..=5*entsize-1
        ex("small-lengths-exhaustive", NTYPES * 4),
        st("random-larger", scale(t, 400_000, 4_000_000, 8)),
    ]
}

pub fn class_of(enc: Enc) -> Class {
    if enc.c64 { Class::ELF64 } else { Class::ELF32 }
}

fn check_items<P: ParseAt + Fields>(ctx: &mut Ctx, what: &str, enc: Enc, bytes: &[u8], items: &[P], n: usize, entsize: usize) {
    if items.len() != n {
        ctx.set_input(bytes);
        ctx.violation(
            &format!("{}:{}:count", P::NAME, what),
            format!("{} over {} bytes ({}; entsize {}) yielded {} items, whole entries = {}", what, bytes.len(), enc.name(), entsize, items.len(), n),
        );
        return;
    }
    for (i, it) in items.iter().enumerate() {
        let rec = match Rec::decode(P::ST, enc, bytes, i * entsize) {
            Some(r) => r,
            None => {
                ctx.inconclusive(format!("reference decode failed for entry {i}"));
                return;
            }
        };
        if let Some(m) = mismatch(&it.fields(), &rec) {
            ctx.set_input(bytes);
            ctx.violation(
                &format!("{}:{}:item-value", P::NAME, what),
                format!("{} item {} of {} ({}): {}; bytes {}", what, i, P::NAME, enc.name(), m, hex_trunc(&bytes[i * entsize..(i + 1) * entsize], 64)),
            );
            return;
        }
    }
}

fn check_table<P: ParseAt + Fields, E: EndianParse>(ctx: &mut Ctx, e: E, enc: Enc, bytes: &[u8]) {
    let class = class_of(enc);
    let entsize = size_of(P::ST, enc.c64);
    let n = bytes.len() / entsize;
    ctx.eval();
    ctx.count(&format!("tables:{}", P::NAME));
    if bytes.len() % entsize != 0 {
        ctx.count("trailing-partial-entry");
    }
    if n == 0 {
        ctx.count("empty-table");
    }
    if n >= 2 {
        let mut key = bytes[..bytes.len().min(64)].to_vec();
        key.extend_from_slice(P::NAME.as_bytes());
        key.push(enc.idx() as u8);
        key.extend_from_slice(&(bytes.len() as u32).to_le_bytes());
        ctx.nontrivial_bytes(&key);
    }
    if P::size_for(class) != entsize {
        ctx.violation(&format!("{}:size_for", P::NAME), format!("{}::size_for({:?}) = {}, ABI size {}", P::NAME, class, P::size_for(class), entsize));
        return;
    }
    let table = ParsingTable::<E, P>::new(e, class, bytes);
    if table.len() != n {
        ctx.set_input(bytes);
        ctx.violation(&format!("{}:len", P::NAME), format!("len() = {} for {} bytes of {} (entsize {}), whole entries = {}", table.len(), bytes.len(), P::NAME, entsize, n));
    }
    if table.is_empty() != (n == 0) {
        ctx.set_input(bytes);
        ctx.violation(&format!("{}:is_empty", P::NAME), format!("is_empty() = {} but whole entries = {}", table.is_empty(), n));
    }
    // get(i) succeeds exactly for i < len
    let mut got: Vec<P> = Vec::new();
    let probe = (0..n + 3).chain([usize::MAX / entsize - 1, usize::MAX / entsize, usize::MAX / entsize + 1, usize::MAX - 1, usize::MAX]);
    for i in probe {
        ctx.eval();
        if i > n + 2 {
            ctx.count("get:index-near-usize-max");
        }
        match table.get(i) {
            Ok(v) => {
                if i >= n {
                    ctx.set_input(bytes);
                    ctx.violation(&format!("{}:get:beyond-len", P::NAME), format!("get({i}) succeeded on a table of {n} whole entries ({} bytes, {})", bytes.len(), enc.name()));
                } else {
                    got.push(v);
                }
            }
            Err(err) => {
                if i < n {
                    ctx.set_input(bytes);
                    ctx.violation(&format!("{}:get:inside-len", P::NAME), format!("get({i}) failed with {err:?} on a table of {n} whole entries ({} bytes, {})", bytes.len(), enc.name()));
                }
            }
        }
    }
    check_items(ctx, "get", enc, bytes, &got, n, entsize);
    // iteration yields exactly len items, item i == get(i) == reference
    let mut it = table.iter();
    let mut items: Vec<P> = Vec::new();
    while let Some(v) = it.next() {
        items.push(v);
        if items.len() > n + 4 {
            break;
        }
    }
    check_items(ctx, "iter", enc, bytes, &items, n, entsize);
    for k in 0..3 {
        if it.next().is_some() {
            ctx.set_input(bytes);
            ctx.violation(&format!("{}:iter:resurrects", P::NAME), format!("iterator yielded an item on poll {} after returning None", k + 1));
            break;
        }
    }
    let into: Vec<P> = ParsingTable::<E, P>::new(e, class, bytes).into_iter().take(n + 4).collect();
    check_items(ctx, "into_iter", enc, bytes, &into, n, entsize);
    // repeated / re-ordered accesses return the same values
    if n >= 2 {
        ctx.count("shuffled-access");
        let mut order: Vec<usize> = (0..n).collect();
        ctx.rng.shuffle(&mut order);
        for &i in order.iter().take(16) {
            let a = table.get(i).ok().map(|v| v.fields());
            let b = table.get(i).ok().map(|v| v.fields());
            let c = items.get(i).map(|v| v.fields());
            if a != b || a != c || a.is_none() {
                ctx.set_input(bytes);
                ctx.violation(&format!("{}:get:unstable", P::NAME), format!("get({i}) in shuffled order: {:?} vs repeated {:?} vs iterated {:?}", a, b, c));
                break;
            }
        }
    }
}

fn check_plain_iter<P: ParseAt + Fields, E: EndianParse>(ctx: &mut Ctx, e: E, enc: Enc, bytes: &[u8]) {
    let class = class_of(enc);
    let entsize = size_of(P::ST, enc.c64);
    let n = bytes.len() / entsize;
    ctx.eval();
    ctx.count(&format!("tables:{}", P::NAME));
    if bytes.len() % entsize != 0 {
        ctx.count("trailing-partial-entry");
    }
    if n == 0 {
        ctx.count("empty-table");
    }
    if n >= 2 {
        let mut key = bytes[..bytes.len().min(64)].to_vec();
        key.extend_from_slice(P::NAME.as_bytes());
        key.push(enc.idx() as u8);
        ctx.nontrivial_bytes(&key);
    }
    let mut it = ParsingIterator::<E, P>::new(e, class, bytes);
    let mut items: Vec<P> = Vec::new();
    while let Some(v) = it.next() {
        items.push(v);
        if items.len() > n + 4 {
            break;
        }
    }
    check_items(ctx, "iterator", enc, bytes, &items, n, entsize);
    for k in 0..3 {
        if it.next().is_some() {
            ctx.set_input(bytes);
            ctx.violation(&format!("{}:iter:resurrects", P::NAME), format!("iterator yielded an item on poll {} after returning None", k + 1));
            break;
        }
    }
}

fn dispatch_e<E: EndianParse>(ctx: &mut Ctx, ty: u64, e: E, enc: Enc, bytes: &[u8]) {
    match ty {
        0 => check_table::<SectionHeader, E>(ctx, e, enc, bytes),
        1 => check_table::<ProgramHeader, E>(ctx, e, enc, bytes),
        2 => check_table::<Symbol, E>(ctx, e, enc, bytes),
        3 => check_table::<Dyn, E>(ctx, e, enc, bytes),
        4 => check_table::<VersionIndex, E>(ctx, e, enc, bytes),
        5 => check_table::<u32, E>(ctx, e, enc, bytes),
        6 => check_table::<u64, E>(ctx, e, enc, bytes),
        7 => check_plain_iter::<Rel, E>(ctx, e, enc, bytes),
        _ => check_plain_iter::<Rela, E>(ctx, e, enc, bytes),
    }
}

fn dispatch(ctx: &mut Ctx, ty: u64, enc: Enc, bytes: &[u8], any: bool) {
    match (any, enc.big) {
        (true, false) => dispatch_e(ctx, ty, AnyEndian::Little, enc, bytes),
        (true, true) => dispatch_e(ctx, ty, AnyEndian::Big, enc, bytes),
        (false, false) => dispatch_e(ctx, ty, LittleEndian, enc, bytes),
        (false, true) => dispatch_e(ctx, ty, BigEndian, enc, bytes),
    }
}

fn entsize_of(ty: u64, enc: Enc) -> usize {
    use crate::codec::St;
    let st = [St::Shdr, St::Phdr, St::Sym, St::Dyn, St::Versym, St::Word32, St::Word64, St::Rel, St::Rela][ty as usize];
    size_of(st, enc.c64)
}

fn run(ctx: &mut Ctx, si: usize, case: u64) {
    match si {
        0 => {
            let ty = case / 4;
            let enc = Enc::ALL[(case % 4) as usize];
            let es = entsize_of(ty, enc);
            ctx.sample(|| format!("{} {}: every byte length 0..={} (k=0..4 whole entries plus every partial tail), fixed and run-time endian spec", TYPE_NAMES[ty as usize], enc.name(), 5 * es - 1));
            for len in 0..5 * es {
                // per-byte distinct content so that entries differ and swapped fields show
                let bytes: Vec<u8> = (0..len).map(|i| (i as u8).wrapping_mul(29).wrapping_add(len as u8 ^ 0x5a)).collect();
                dispatch(ctx, ty, enc, &bytes, false);
                dispatch(ctx, ty, enc, &bytes, true);
            }
        }
        _ => {
            let ty = ctx.rng.below(NTYPES);
            let enc = Enc::ALL[ctx.rng.usize_below(4)];
            let es = entsize_of(ty, enc);
            let k = match ctx.rng.below(3) {
                0 => ctx.rng.usize_below(8),
                1 => ctx.rng.usize_below(64),
                _ => ctx.rng.usize_below(400),
            };
            let tail = if ctx.rng.bool() { ctx.rng.usize_below(es) } else { 0 };
            let bytes = ctx.rng.bytes(k * es + tail);
            let any = ctx.rng.bool();
            ctx.sample(|| format!("{} {} k={} tail={} bytes={}", TYPE_NAMES[ty as usize], enc.name(), k, tail, hex_trunc(&bytes, 32)));
            dispatch(ctx, ty, enc, &bytes, any);
        }
    }
}

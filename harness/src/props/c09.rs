//! C09 — lazy tables are coherent: len, get, iteration and emptiness agree.
use super::{ex, scale, st, PropDef, Stratum};
use crate::codec::{size_of, Enc, Rec};
use crate::ctx::{hex_trunc, Ctx, Tier};
use crate::reference::structs::{mismatch, Fields};
use elf::dynamic::Dyn;
use elf::endian::{AnyEndian, BigEndian, EndianParse, LittleEndian};
use elf::file::Class;
use elf::gnu_symver::VersionIndex;
use elf::parse::{ParseAt, ParsingIterator, ParsingTable};
use elf::relocation::{Rel, Rela};
use elf::section::SectionHeader;
use elf::segment::ProgramHeader;
use elf::symbol::Symbol;

pub const DEF: PropDef = PropDef { id: "C09", strata, run, setup, canaries: &["panic"] };

const NTYPES: u64 = 9;
const TYPE_NAMES: [&str; 9] = ["SectionHeader", "ProgramHeader", "Symbol", "Dyn", "VersionIndex", "u32", "u64", "Rel", "Rela"];

fn setup(ctx: &mut Ctx) {
    ctx.floor("user-entry-type-tables", 1000);
    #[cfg(all(target_pointer_width = "64", not(miri)))]
    ctx.floor("entries-at-byte-offsets>=2^32", 100);
    ctx.floor("clone-checked", 1000);
    for t in TYPE_NAMES {
        ctx.floor(&format!("tables:{t}"), 8);
    }
    ctx.floor("trailing-partial-entry", 100);
    ctx.floor("empty-table", 10);
    ctx.floor("get:index-near-usize-max", 100);
    ctx.floor("shuffled-access", 100);
    ctx.floor("iterator-protocol:iterators", 500);
    ctx.floor("via:tables-checked", 1000);
    ctx.floor("via:stream-repeat-or-reorder", 500);
}

fn strata(t: Tier) -> Vec<Stratum> {
    vec![
        // (type, encoding) pairs; each case sweeps every byte length 0..=5*entsize-1
        ex("small-lengths-exhaustive", NTYPES * 4),
        st("random-larger", scale(t, 400_000, 4_000_000, 8)),
        // the tables and entry iterators both parsers hand out for generated files whose sections are
        // ragged, overlap or share a start, accessed in random order and repeatedly
        st("tables-via-parsers", scale(t, 60_000, 600_000, 2)),
        // tables over a slice that really is longer than 4 GiB: entries whose byte offset is >= 2^32
        st("tables-beyond-4GiB", scale(t, 160, 1600, 0)),
    ]
}

pub fn class_of(enc: Enc) -> Class {
    if enc.c64 { Class::ELF64 } else { Class::ELF32 }
}

fn check_items<P: ParseAt + Fields>(ctx: &mut Ctx, what: &str, enc: Enc, bytes: &[u8], items: &[P], n: usize, entsize: usize) {
    if items.len() != n {
        ctx.set_input(bytes);
        ctx.violation(
            &format!("{}:{}:count", P::NAME, what),
            format!("{} over {} bytes ({}; entsize {}) yielded {} items, whole entries = {}", what, bytes.len(), enc.name(), entsize, items.len(), n),
        );
        return;
    }
    for (i, it) in items.iter().enumerate() {
        let rec = match Rec::decode(P::ST, enc, bytes, i * entsize) {
            Some(r) => r,
            None => {
                ctx.inconclusive(format!("reference decode failed for entry {i}"));
                return;
            }
        };
        if let Some(m) = mismatch(&it.fields(), &rec) {
            ctx.set_input(bytes);
            ctx.violation(
                &format!("{}:{}:item-value", P::NAME, what),
                format!("{} item {} of {} ({}): {}; bytes {}", what, i, P::NAME, enc.name(), m, hex_trunc(&bytes[i * entsize..(i + 1) * entsize], 64)),
            );
            return;
        }
    }
}

fn check_table<P: ParseAt + Fields, E: EndianParse>(ctx: &mut Ctx, e: E, enc: Enc, bytes: &[u8]) {
    let class = class_of(enc);
    let entsize = size_of(P::ST, enc.c64);
    let n = bytes.len() / entsize;
    ctx.eval();
    ctx.count(&format!("tables:{}", P::NAME));
    if bytes.len() % entsize != 0 {
        ctx.count("trailing-partial-entry");
    }
    if n == 0 {
        ctx.count("empty-table");
    }
    if n >= 2 {
        let mut key = bytes[..bytes.len().min(64)].to_vec();
        key.extend_from_slice(P::NAME.as_bytes());
        key.push(enc.idx() as u8);
        key.extend_from_slice(&(bytes.len() as u32).to_le_bytes());
        ctx.nontrivial_bytes(&key);
    }
    if P::size_for(class) != entsize {
        ctx.violation(&format!("{}:size_for", P::NAME), format!("{}::size_for({:?}) = {}, ABI size {}", P::NAME, class, P::size_for(class), entsize));
        return;
    }
    let table = ParsingTable::<E, P>::new(e, class, bytes);
    if table.len() != n {
        ctx.set_input(bytes);
        ctx.violation(&format!("{}:len", P::NAME), format!("len() = {} for {} bytes of {} (entsize {}), whole entries = {}", table.len(), bytes.len(), P::NAME, entsize, n));
    }
    if table.is_empty() != (n == 0) {
        ctx.set_input(bytes);
        ctx.violation(&format!("{}:is_empty", P::NAME), format!("is_empty() = {} but whole entries = {}", table.is_empty(), n));
    }
    // get(i) succeeds exactly for i < len
    let mut got: Vec<P> = Vec::new();
    let half = 1usize << (usize::BITS - 1);
    let wrap = (usize::MAX / entsize).wrapping_add(1); // smallest index whose byte offset wraps
    let probe = (0..n + 3).chain([usize::MAX / entsize - 1, usize::MAX / entsize, wrap, wrap.wrapping_add(1), wrap.wrapping_add(n / 2), usize::MAX - 1, usize::MAX, half, half.wrapping_add(1), half / entsize.next_power_of_two(), (half / entsize.next_power_of_two()).wrapping_mul(2), 1usize << (usize::BITS / 2), (1usize << (usize::BITS / 2)).wrapping_add(n / 2)]);
    for i in probe {
        ctx.eval();
        if i > n + 2 {
            ctx.count("get:index-near-usize-max");
        }
        match table.get(i) {
            Ok(v) => {
                if i >= n {
                    ctx.set_input(bytes);
                    ctx.violation(&format!("{}:get:beyond-len", P::NAME), format!("get({i}) succeeded on a table of {n} whole entries ({} bytes, {})", bytes.len(), enc.name()));
                } else {
                    got.push(v);
                }
            }
            Err(err) => {
                if i < n {
                    ctx.set_input(bytes);
                    ctx.violation(&format!("{}:get:inside-len", P::NAME), format!("get({i}) failed with {err:?} on a table of {n} whole entries ({} bytes, {})", bytes.len(), enc.name()));
                }
            }
        }
    }
    check_items(ctx, "get", enc, bytes, &got, n, entsize);
    // iteration yields exactly len items, item i == get(i) == reference
    let mut it = table.iter();
    let mut items: Vec<P> = Vec::new();
    while let Some(v) = it.next() {
        items.push(v);
        if items.len() > n + 4 {
            break;
        }
    }
    check_items(ctx, "iter", enc, bytes, &items, n, entsize);
    for k in 0..3 {
        if it.next().is_some() {
            ctx.set_input(bytes);
            ctx.violation(&format!("{}:iter:resurrects", P::NAME), format!("iterator yielded an item on poll {} after returning None", k + 1));
            break;
        }
    }
    let into: Vec<P> = ParsingTable::<E, P>::new(e, class, bytes).into_iter().take(n + 4).collect();
    check_items(ctx, "into_iter", enc, bytes, &into, n, entsize);
    if n <= 40 && !super::util::iter_protocol(ctx, P::NAME, || ParsingTable::<E, P>::new(e, class, bytes).iter(), |x| format!("{:?}", x.fields()), n + 4, true) {
        return;
    }
    // repeated / re-ordered accesses return the same values
    if n >= 2 {
        ctx.count("shuffled-access");
        let mut order: Vec<usize> = (0..n).collect();
        ctx.rng.shuffle(&mut order);
        for &i in order.iter().take(16) {
            let a = table.get(i).ok().map(|v| v.fields());
            let b = table.get(i).ok().map(|v| v.fields());
            let c = items.get(i).map(|v| v.fields());
            if a != b || a != c || a.is_none() {
                ctx.set_input(bytes);
                ctx.violation(&format!("{}:get:unstable", P::NAME), format!("get({i}) in shuffled order: {:?} vs repeated {:?} vs iterated {:?}", a, b, c));
                break;
            }
        }
    }
}

fn check_plain_iter<P: ParseAt + Fields, E: EndianParse>(ctx: &mut Ctx, e: E, enc: Enc, bytes: &[u8]) {
    let class = class_of(enc);
    let entsize = size_of(P::ST, enc.c64);
    let n = bytes.len() / entsize;
    ctx.eval();
    ctx.count(&format!("tables:{}", P::NAME));
    if bytes.len() % entsize != 0 {
        ctx.count("trailing-partial-entry");
    }
    if n == 0 {
        ctx.count("empty-table");
    }
    if n >= 2 {
        let mut key = bytes[..bytes.len().min(64)].to_vec();
        key.extend_from_slice(P::NAME.as_bytes());
        key.push(enc.idx() as u8);
        ctx.nontrivial_bytes(&key);
    }
    let mut it = ParsingIterator::<E, P>::new(e, class, bytes);
    let mut items: Vec<P> = Vec::new();
    while let Some(v) = it.next() {
        items.push(v);
        if items.len() > n + 4 {
            break;
        }
    }
    check_items(ctx, "iterator", enc, bytes, &items, n, entsize);
    if n <= 40 && !super::util::iter_protocol(ctx, P::NAME, || ParsingIterator::<E, P>::new(e, class, bytes), |x| format!("{:?}", x.fields()), n + 4, true) {
        return;
    }
    for k in 0..3 {
        if it.next().is_some() {
            ctx.set_input(bytes);
            ctx.violation(&format!("{}:iter:resurrects", P::NAME), format!("iterator yielded an item on poll {} after returning None", k + 1));
            break;
        }
    }
}

fn dispatch_e<E: EndianParse>(ctx: &mut Ctx, ty: u64, e: E, enc: Enc, bytes: &[u8]) {
    match ty {
        0 => check_clone::<SectionHeader, E>(ctx, e, enc, bytes),
        1 => check_clone::<ProgramHeader, E>(ctx, e, enc, bytes),
        2 => check_clone::<Symbol, E>(ctx, e, enc, bytes),
        3 => check_clone::<Dyn, E>(ctx, e, enc, bytes),
        5 => check_clone::<u32, E>(ctx, e, enc, bytes),
        6 => check_clone::<u64, E>(ctx, e, enc, bytes),
        _ => {}
    }
    match ty {
        0 => check_table::<SectionHeader, E>(ctx, e, enc, bytes),
        1 => check_table::<ProgramHeader, E>(ctx, e, enc, bytes),
        2 => check_table::<Symbol, E>(ctx, e, enc, bytes),
        3 => check_table::<Dyn, E>(ctx, e, enc, bytes),
        4 => check_table::<VersionIndex, E>(ctx, e, enc, bytes),
        5 => check_table::<u32, E>(ctx, e, enc, bytes),
        6 => check_table::<u64, E>(ctx, e, enc, bytes),
        7 => check_plain_iter::<Rel, E>(ctx, e, enc, bytes),
        _ => check_plain_iter::<Rela, E>(ctx, e, enc, bytes),
    }
}

fn dispatch(ctx: &mut Ctx, ty: u64, enc: Enc, bytes: &[u8], any: bool) {
    match (any, enc.big) {
        (true, false) => dispatch_e(ctx, ty, AnyEndian::Little, enc, bytes),
        (true, true) => dispatch_e(ctx, ty, AnyEndian::Big, enc, bytes),
        (false, false) => dispatch_e(ctx, ty, LittleEndian, enc, bytes),
        (false, true) => dispatch_e(ctx, ty, BigEndian, enc, bytes),
    }
}

fn entsize_of(ty: u64, enc: Enc) -> usize {
    use crate::codec::St;
    let st = [St::Shdr, St::Phdr, St::Sym, St::Dyn, St::Versym, St::Word32, St::Word64, St::Rel, St::Rela][ty as usize];
    size_of(st, enc.c64)
}

/// Entry tables and iterators reached through ElfBytes and ElfStream: whole entries of the designated
/// range, in order, the same on repeated and re-ordered access.
#[cfg(not(feature = "elf_std"))]
fn via_parsers(_ctx: &mut Ctx) {}

#[cfg(feature = "elf_std")]
fn via_parsers(ctx: &mut Ctx) {
    use crate::codec::{k, Rec, St};
    use crate::gen::elf::build;
    use crate::gen::object::{gen_object, GenOpts};
    use crate::reference::locator::ref_open;
    let enc = Enc::ALL[ctx.rng.usize_below(4)];
    let mut o = GenOpts::standard();
    o.max_syms = 6;
    o.density = 6;
    let (spec, _) = gen_object(&mut ctx.rng, enc, &o);
    let mut b = build(&spec, &mut ctx.rng);
    // relocation sections declare any sh_entsize (0, the record size, multiples of it, the whole section size, junk):
    // the plain entry iterators yield the whole entries of the section whatever it says
    for i in 1..b.shnum {
        let ty = b.field(&format!("shdr[{i}].sh_type")).and_then(|f| b.enc.get(&b.bytes, f.off, f.w)).unwrap_or(0);
        if (ty == k::SHT_REL as u64 || ty == k::SHT_RELA as u64) && ctx.rng.bool() {
            let es = size_of(if ty == k::SHT_RELA as u64 { St::Rela } else { St::Rel }, enc.c64) as u64;
            let size = b.field(&format!("shdr[{i}].sh_size")).and_then(|f| b.enc.get(&b.bytes, f.off, f.w)).unwrap_or(0);
            let v = *ctx.rng.pick(&[0u64, es, 2 * es, 3 * es, size, size / 2, es + 1, 1, u32::MAX as u64]);
            b.poke(&format!("shdr[{i}].sh_entsize"), v);
            ctx.count("via:rel-sections-with-arbitrary-sh_entsize");
        }
    }
    // header tables under a declared entry size other than the structure's: whatever a parser hands out (if it opens
    // the file at all) is a coherent table: iteration, get and len agree, and every item decodes from one place
    if ctx.rng.chance(1, 4) {
        let mut t = b.bytes.clone();
        for (name, st_) in [("ehdr.e_shentsize", St::Shdr), ("ehdr.e_phentsize", St::Phdr)] {
            if ctx.rng.bool() {
                continue;
            }
            let es = size_of(st_, enc.c64) as u64;
            let v = *ctx.rng.pick(&[es + 8, es + 16, 2 * es, es + 1, es + 4, es - 8, es / 2, 3 * es]);
            if let Some(f) = b.field(name) {
                b.enc.put_at(&mut t, f.off, v, f.w);
            }
        }
        ctx.set_input(&t);
        ctx.count("via:header-tables-under-other-entsize");
        if let Ok(f) = super::util::open_slice(&t) {
            ctx.count("via:header-tables-under-other-entsize:opened");
            if let Some(tab) = f.section_headers() {
                let items: Vec<String> = tab.iter().take(70000).map(|x| format!("{x:?}")).collect();
                let gets: Vec<String> = (0..tab.len().min(70000)).map(|i| format!("{:?}", tab.get(i).ok())).collect();
                let want: Vec<String> = items.iter().map(|x| format!("Some({x})")).collect();
                if items.len() != tab.len() || gets != want {
                    ctx.violation("via:header-table:shdrs:incoherent", format!("section header table handed out by ElfBytes: len {} but iteration yields {}; get(i) == i-th item: {}", tab.len(), items.len(), gets == want));
                    return;
                }
            }
            if let Some(tab) = f.segments() {
                let items: Vec<String> = tab.iter().take(70000).map(|x| format!("{x:?}")).collect();
                let gets: Vec<String> = (0..tab.len().min(70000)).map(|i| format!("{:?}", tab.get(i).ok())).collect();
                let want: Vec<String> = items.iter().map(|x| format!("Some({x})")).collect();
                if items.len() != tab.len() || gets != want {
                    ctx.violation("via:header-table:phdrs:incoherent", format!("program header table handed out by ElfBytes: len {} but iteration yields {}; get(i) == i-th item: {}", tab.len(), items.len(), gets == want));
                    return;
                }
            }
        }
    }
    let data = &b.bytes[..];
    ctx.set_input(data);
    let Ok(r) = ref_open(data, &[1, 2]) else { return };
    let Ok(f) = super::util::open_slice(data) else { return };
    let Ok(mut st) = super::util::open_stream(data) else { return };
    ctx.nontrivial_bytes(data);
    ctx.sample(|| format!("{} object, {} sections", enc.name(), r.shnum()));
    // REL / RELA sections (incl. views sharing a start with other sections), in a random order, each twice
    let mut idxs: Vec<usize> = (0..r.shnum()).filter(|i| r.shdr(*i).map(|s| [k::SHT_REL as u64, k::SHT_RELA as u64].contains(&s.get("sh_type"))).unwrap_or(false)).collect();
    let again = idxs.clone();
    idxs.extend(again);
    ctx.rng.shuffle(&mut idxs);
    for i in idxs {
        let sh = r.shdr(i).unwrap();
        let Some((off, len)) = r.sec_range(&sh) else { continue };
        if sh.get("sh_flags") & k::SHF_COMPRESSED != 0 {
            continue;
        }
        let rela = sh.get("sh_type") == k::SHT_RELA as u64;
        let stt = if rela { St::Rela } else { St::Rel };
        let es = size_of(stt, enc.c64);
        let n = len / es;
        let want: Vec<String> = (0..n).map(|j| format!("{:?}", crate::reference::structs::expected_fields(&Rec::decode(stt, enc, data, off + j * es).unwrap()))).collect();
        let hdr_slice = f.section_headers().and_then(|t| t.get(i).ok());
        let hdr_stream = st.section_headers().get(i).copied();
        let (Some(hs), Some(ht)) = (hdr_slice, hdr_stream) else { continue };
        ctx.eval();
        ctx.count("via:tables-checked");
        ctx.count("via:stream-repeat-or-reorder");
        let got_slice: Result<Vec<String>, String> = if rela {
            f.section_data_as_relas(&hs).map(|it| it.take(n + 3).map(|x| format!("{:?}", x.fields())).collect()).map_err(|e| format!("{e:?}"))
        } else {
            f.section_data_as_rels(&hs).map(|it| it.take(n + 3).map(|x| format!("{:?}", x.fields())).collect()).map_err(|e| format!("{e:?}"))
        };
        let got_stream: Result<Vec<String>, String> = if rela {
            st.section_data_as_relas(&ht).map(|it| it.take(n + 3).map(|x| format!("{:?}", x.fields())).collect()).map_err(|e| format!("{e:?}"))
        } else {
            st.section_data_as_rels(&ht).map(|it| it.take(n + 3).map(|x| format!("{:?}", x.fields())).collect()).map_err(|e| format!("{e:?}"))
        };
        for (who, got) in [("ElfBytes", &got_slice), ("ElfStream", &got_stream)] {
            if got.as_ref().ok() != Some(&want) {
                ctx.violation(
                    &format!("via:{who}:{}:entries", if rela { "relas" } else { "rels" }),
                    format!("{who}: section {i} [{off:#x},+{len:#x}) has {n} whole entries; the iterator yielded {:?}", got.as_ref().map(|v| v.len()).map_err(|e| e.clone())),
                );
                return;
            }
        }
    }
    // symbol tables through both parsers, twice, with get in shuffled order
    for _round in 0..2 {
        for dynsym in [false, true] {
            let ty = if dynsym { k::SHT_DYNSYM } else { k::SHT_SYMTAB };
            let Some((_, sh)) = r.first_section_of_type(ty) else { continue };
            let Some((off, len)) = r.sec_range(&sh) else { continue };
            let es = size_of(St::Sym, enc.c64);
            let n = len / es;
            let a = if dynsym { f.dynamic_symbol_table() } else { f.symbol_table() };
            let bq = if dynsym { st.dynamic_symbol_table() } else { st.symbol_table() };
            if let (Ok(Some((ta, _))), Ok(Some((tb, _)))) = (a, bq) {
                ctx.eval();
                ctx.count("via:tables-checked");
                let mut order: Vec<usize> = (0..n).collect();
                ctx.rng.shuffle(&mut order);
                let bad = ta.len() != n || tb.len() != n || ta.iter().count() != n || tb.iter().count() != n || ta.get(n).is_ok() || tb.get(n).is_ok();
                let mut mism = None;
                for &j in order.iter().take(24) {
                    let rec = Rec::decode(St::Sym, enc, data, off + j * es).unwrap();
                    for (who, got) in [("ElfBytes", ta.get(j)), ("ElfStream", tb.get(j))] {
                        match got {
                            Ok(sy) => {
                                if let Some(m) = mismatch(&sy.fields(), &rec) {
                                    mism = Some(format!("{who} get({j}): {m}"));
                                }
                            }
                            Err(e) => mism = Some(format!("{who} get({j}) failed: {e:?}")),
                        }
                    }
                }
                if bad || mism.is_some() {
                    ctx.violation("via:symbol-table:incoherent", format!("symbol table [{off:#x},+{len:#x}) with {n} whole entries: len {}/{}; {:?}", ta.len(), tb.len(), mism));
                    return;
                }
            }
        }
    }
}

/// An entry type written by a user of the crate (`ParseAt` is public): 3 bytes in ELF32 files, 5 in ELF64 files, and it
/// remembers the cursor it was handed. However the table or iterator is driven, item i is the entry at byte i*size.
#[derive(Clone, Debug, PartialEq, Eq)]
struct UserEntry {
    at: usize,
    bytes: Vec<u8>,
}

impl ParseAt for UserEntry {
    fn parse_at<E: EndianParse>(endian: E, class: Class, offset: &mut usize, data: &[u8]) -> Result<Self, elf::parse::ParseError> {
        let at = *offset;
        let mut bytes = Vec::new();
        for _ in 0..Self::size_for(class) {
            bytes.push(endian.parse_u8_at(offset, data)?);
        }
        Ok(UserEntry { at, bytes })
    }
    fn size_for(class: Class) -> usize {
        match class {
            Class::ELF32 => 3,
            Class::ELF64 => 5,
        }
    }
}

fn user_entry_tables(ctx: &mut Ctx) {
    let class = if ctx.rng.bool() { Class::ELF32 } else { Class::ELF64 };
    let es = UserEntry::size_for(class);
    let n = ctx.rng.usize_below(9);
    let tail = ctx.rng.usize_below(es);
    let data = ctx.rng.bytes(n * es + tail);
    let want: Vec<UserEntry> = (0..n).map(|i| UserEntry { at: i * es, bytes: data[i * es..(i + 1) * es].to_vec() }).collect();
    ctx.count("user-entry-type-tables");
    let t = ParsingTable::<LittleEndian, UserEntry>::new(LittleEndian, class, &data);
    let by_get: Vec<UserEntry> = (0..t.len()).filter_map(|i| t.get(i).ok()).collect();
    let k = ctx.rng.usize_below(n + 1);
    let runs: Vec<(&str, Vec<UserEntry>, Vec<UserEntry>)> = vec![
        ("get", by_get, want.clone()),
        ("iter", t.iter().take(n + 2).collect(), want.clone()),
        ("into_iter", ParsingTable::<LittleEndian, UserEntry>::new(LittleEndian, class, &data).into_iter().take(n + 2).collect(), want.clone()),
        ("ParsingIterator", ParsingIterator::<LittleEndian, UserEntry>::new(LittleEndian, class, &data).take(n + 2).collect(), want.clone()),
        ("iter.skip", t.iter().skip(k).take(n + 2).collect(), want[k..].to_vec()),
        ("iter.step_by(2)", t.iter().step_by(2).take(n + 2).collect(), want.iter().step_by(2).cloned().collect()),
    ];
    for (mode, got, exp) in runs {
        ctx.eval();
        if got != exp || t.len() != n {
            ctx.set_input(&data);
            ctx.violation(&format!("user-entry-type:{mode}"), format!("table of {n} user-defined {es}-byte entries (+{tail} trailing bytes) read by {mode}: got {:?}, expected {:?} (len() = {})", got.iter().map(|e| e.at).collect::<Vec<_>>(), exp.iter().map(|e| e.at).collect::<Vec<_>>(), t.len()));
            return;
        }
    }
}

fn huge_table<P: ParseAt + Fields>(ctx: &mut Ctx, enc: Enc, buf: &mut [u8]) {
    use super::util::entries_mismatch;
    let es = size_of(P::ST, enc.c64);
    let class = class_of(enc);
    let n = buf.len() / es;
    let first = (super::util::G4 / es).saturating_sub(2);
    // distinct content in the entries around the 2^32 byte mark and in the last two
    let mut touched: Vec<usize> = (first..first + 5).chain(n - 2..n).collect();
    touched.dedup();
    let seed = ctx.rng.next_u64();
    let mut r = crate::rng::Rng::new(seed);
    for &i in &touched {
        for b in buf[i * es..(i + 1) * es].iter_mut() {
            *b = r.next_u64() as u8;
        }
    }
    {
        let view: &[u8] = buf;
        let bad = match (enc.big, ctx.rng.bool()) {
            (false, false) => {
                let t = ParsingTable::<LittleEndian, P>::new(LittleEndian, class, view);
                if t.len() != n { Some(format!("len {} != {}", t.len(), n)) } else if t.get(n).is_ok() { Some("get(len) succeeded".to_string()) } else { entries_mismatch::<P, _>(enc, view, 0, &touched, |i| t.get(i).ok()) }
            }
            (true, false) => {
                let t = ParsingTable::<BigEndian, P>::new(BigEndian, class, view);
                if t.len() != n { Some(format!("len {} != {}", t.len(), n)) } else if t.get(n).is_ok() { Some("get(len) succeeded".to_string()) } else { entries_mismatch::<P, _>(enc, view, 0, &touched, |i| t.get(i).ok()) }
            }
            (big, true) => {
                let e = if big { AnyEndian::Big } else { AnyEndian::Little };
                let t = ParsingTable::<AnyEndian, P>::new(e, class, view);
                if t.len() != n { Some(format!("len {} != {}", t.len(), n)) } else if t.get(n).is_ok() { Some("get(len) succeeded".to_string()) } else { entries_mismatch::<P, _>(enc, view, 0, &touched, |i| t.get(i).ok()) }
            }
        };
        ctx.evals(touched.len() as u64);
        ctx.count("entries-at-byte-offsets>=2^32");
        if let Some(m) = bad {
            ctx.violation(&format!("{}:beyond-4GiB", P::NAME), format!("{} table over a {}-byte slice ({}; {n} entries, entries {first}.. start at byte {:#x}): {m}", P::NAME, view.len(), enc.name(), first * es));
        }
    }
    for &i in &touched {
        buf[i * es..(i + 1) * es].fill(0);
    }
}

fn run(ctx: &mut Ctx, si: usize, case: u64) {
    match si {
        3 => {
            let ty = ctx.rng.below(7);
            let enc = Enc::ALL[ctx.rng.usize_below(4)];
            let done = super::util::with_huge_buffer(|buf| match ty {
                0 => huge_table::<SectionHeader>(ctx, enc, buf),
                1 => huge_table::<ProgramHeader>(ctx, enc, buf),
                2 => huge_table::<Symbol>(ctx, enc, buf),
                3 => huge_table::<Dyn>(ctx, enc, buf),
                4 => huge_table::<VersionIndex>(ctx, enc, buf),
                5 => huge_table::<u32>(ctx, enc, buf),
                _ => huge_table::<u64>(ctx, enc, buf),
            });
            if done.is_none() {
                ctx.count("beyond-4GiB:not-on-this-target");
            }
        }
        2 => via_parsers(ctx),
        0 => {
            let ty = case / 4;
            let enc = Enc::ALL[(case % 4) as usize];
            let es = entsize_of(ty, enc);
            ctx.sample(|| format!("{} {}: every byte length 0..={} (k=0..4 whole entries plus every partial tail), fixed and run-time endian spec", TYPE_NAMES[ty as usize], enc.name(), 5 * es - 1));
            let top = if ctx.tier == Tier::Miri { 2 * es } else { 5 * es };
            for len in 0..top {
                // per-byte distinct content so that entries differ and swapped fields show
                let bytes: Vec<u8> = (0..len).map(|i| (i as u8).wrapping_mul(29).wrapping_add(len as u8 ^ 0x5a)).collect();
                dispatch(ctx, ty, enc, &bytes, false);
                dispatch(ctx, ty, enc, &bytes, true);
            }
        }
        _ => {
            if ctx.rng.chance(1, 8) {
                user_entry_tables(ctx);
                return;
            }
            let ty = ctx.rng.below(NTYPES);
            let enc = Enc::ALL[ctx.rng.usize_below(4)];
            let es = entsize_of(ty, enc);
            let k = match ctx.rng.below(3) {
                0 => ctx.rng.usize_below(8),
                1 => ctx.rng.usize_below(64),
                _ => ctx.rng.usize_below(400),
            };
            let tail = if ctx.rng.bool() { ctx.rng.usize_below(es) } else { 0 };
            let bytes = ctx.rng.bytes(k * es + tail);
            let any = ctx.rng.bool();
            ctx.sample(|| format!("{} {} k={} tail={} bytes={}", TYPE_NAMES[ty as usize], enc.name(), k, tail, hex_trunc(&bytes, 32)));
            dispatch(ctx, ty, enc, &bytes, any);
        }
    }
}

/// an explicit `Clone::clone` of a table is the same table (for the entry types that are `Clone`)
fn check_clone<P: ParseAt + Fields + Clone, E: EndianParse>(ctx: &mut Ctx, e: E, enc: Enc, bytes: &[u8]) {
    let class = class_of(enc);
    let entsize = size_of(P::ST, enc.c64);
    let n = bytes.len() / entsize;
    ctx.count("clone-checked");
        let orig = ParsingTable::<E, P>::new(e, class, bytes);
        #[allow(clippy::clone_on_copy)]
        let c = Clone::clone(&orig);
        let items: Vec<P> = c.iter().take(n + 4).collect();
        check_items(ctx, "clone.iter", enc, bytes, &items, n, entsize);
        let by_get: Vec<P> = (0..n.min(8)).filter_map(|i| c.get(i).ok()).collect();
        check_items(ctx, "clone.get", enc, bytes, &by_get, n.min(8), entsize);
        if c.len() != n || c.is_empty() != (n == 0) {
            ctx.violation(&format!("{}:clone:len", P::NAME), format!("clone of a table of {n} entries reports len {} is_empty {}", c.len(), c.is_empty()));
        }
    }

//! C14 — note iteration yields exactly the notes laid out in the section/segment.
use super::c09::class_of;
use super::{scale, st, PropDef, Stratum};
use crate::codec::Enc;
use crate::ctx::{hex_trunc, Ctx, Tier};
use crate::gen::notes::{emit, gen_model, ALIGNS};
use crate::reference::notes::{typed, walk, RefNote, RefTyped};
use elf::endian::{AnyEndian, BigEndian, LittleEndian};
use elf::note::{Note, NoteIterator};

pub const DEF: PropDef = PropDef { id: "C14", strata, run, setup, canaries: &["panic"] };

fn setup(ctx: &mut Ctx) {
    ctx.floor("notes-compared", 1000);
    ctx.floor("typed:abi-tag", 50);
    ctx.floor("typed:build-id", 50);
    ctx.floor("typed:unknown", 500);
    ctx.floor("name_str:invalid-utf8", 50);
    ctx.floor("name_str:trailing-nuls-trimmed", 50);
    ctx.floor("align:zero", 20);
    ctx.floor("align:non-power-of-two", 20);
    ctx.floor("truncated-last-record", 200);
    ctx.floor("trailing-garbage", 200);
    ctx.floor("ambiguous-zone", 1);
    ctx.floor("iterator-protocol:iterators", 500);
    ctx.floor("via:slice:section", 500);
    ctx.floor("via:slice:segment", 500);
    ctx.floor("via:stream:section", 500);
    ctx.floor("via:stream:segment", 500);
    ctx.floor("via:align=0", 100);
    for e in Enc::ALL {
        ctx.floor(&format!("enc:{}", e.name()), 100);
    }
}

fn strata(t: Tier) -> Vec<Stratum> {
    vec![
        st("standalone-sequences", scale(t, 4_800_000, 48_000_000, 40)),
        st("truncate-every-byte", scale(t, 240_000, 2_400_000, 3)),
        st("via-section-and-segment", scale(t, 120_000, 1_200_000, 3)),
    ]
}

fn same_range(sub: &[u8], base: &[u8], start: usize) -> bool {
    sub.is_empty() || sub.as_ptr() as usize == base.as_ptr() as usize + start
}

/// Compare one yielded note with the reference; returns a mismatch description.
pub fn compare_note(ctx: &mut Ctx, big: bool, data: &[u8], got: &Note<'_>, exp: &RefNote, desc_known: bool) -> Option<String> {
    let want = typed(big, data, exp);
    match (&want, got) {
        (RefTyped::Unjudged, _) => {
            ctx.count("typed:unjudged");
            None
        }
        (RefTyped::AbiTag { os, major, minor, subminor }, Note::GnuAbiTag(t)) => {
            ctx.count("typed:abi-tag");
            if (t.os, t.major, t.minor, t.subminor) != (*os, *major, *minor, *subminor) {
                return Some(format!("ABI tag {:?} != file words ({os},{major},{minor},{subminor})", t));
            }
            None
        }
        (RefTyped::BuildId(d), Note::GnuBuildId(b)) => {
            ctx.count("typed:build-id");
            if b.0 != &d[..] || !same_range(b.0, data, exp.desc.0) {
                return Some(format!("build-id {} != descriptor bytes {} (or not borrowed from offset {})", hex_trunc(b.0, 40), hex_trunc(d, 40), exp.desc.0));
            }
            None
        }
        (RefTyped::Unknown { n_type, name, desc, name_str }, Note::Unknown(a)) => {
            ctx.count("typed:unknown");
            if a.n_type != *n_type {
                return Some(format!("n_type {:#x} != {:#x}", a.n_type, n_type));
            }
            if a.name != &name[..] || !same_range(a.name, data, exp.name.0) {
                return Some(format!("name {} != file bytes {} at {}", hex_trunc(a.name, 40), hex_trunc(name, 40), exp.name.0));
            }
            if desc_known && (a.desc != &desc[..] || !same_range(a.desc, data, exp.desc.0)) {
                return Some(format!("desc {} != file bytes {} at {}", hex_trunc(a.desc, 40), hex_trunc(desc, 40), exp.desc.0));
            }
            match (name_str, a.name_str()) {
                (Some(s), Ok(g)) => {
                    if s.len() != name.len() {
                        ctx.count("name_str:trailing-nuls-trimmed");
                    }
                    if g != s {
                        return Some(format!("name_str {:?} != {:?}", g, s));
                    }
                }
                (None, Err(_)) => ctx.count("name_str:invalid-utf8"),
                (None, Ok(g)) => return Some(format!("name_str returned {:?} for non-UTF-8 name {}", g, hex_trunc(name, 40))),
                (Some(s), Err(e)) => return Some(format!("name_str failed ({e:?}) for valid name {:?}", s)),
            }
            None
        }
        (w, g) => Some(format!("typed form mismatch: expected {:?}, got {:?}", w, g)),
    }
}

/// Full comparison of an iterator's output with the reference walk of `data`.
pub fn check_iteration<'a, I: Iterator<Item = Note<'a>>>(ctx: &mut Ctx, via: &str, big: bool, align: u64, data: &'a [u8], mut it: I) {
    let mut w = walk(big, align, data);
    // a "GNU\0"/NT_GNU_ABI_TAG record whose descriptor is shorter than the ABI's 16 bytes is outside the statement
    // (the crate ends the iteration there): nothing is demanded from that record on
    let mut open_end = false;
    if let Some(j) = w.notes.iter().position(|n| crate::reference::notes::typed(big, data, n) == crate::reference::notes::RefTyped::Unjudged) {
        w.notes.truncate(j);
        w.ambiguous = None;
        open_end = true;
        ctx.count("unjudged-from-short-abi-tag-on");
    }
    ctx.eval();
    let cap = w.notes.len() + 3;
    let mut got: Vec<Note<'a>> = Vec::new();
    while let Some(n) = it.next() {
        got.push(n);
        if got.len() > cap {
            break;
        }
    }
    let sig = |what: &str| format!("{via}:{what}");
    if got.len() < w.notes.len() {
        ctx.set_input(data);
        ctx.violation(&sig("missing-notes"), format!("{via} align={align} big={big}: {} notes laid out, {} yielded; data {}", w.notes.len(), got.len(), hex_trunc(data, 96)));
        return;
    }
    let allowed = w.notes.len() + w.ambiguous.is_some() as usize;
    if got.len() > allowed && !open_end {
        ctx.set_input(data);
        ctx.violation(&sig("extra-notes"), format!("{via} align={align} big={big}: {} notes fit ({} more in the silent zone), {} yielded; data {}", w.notes.len(), w.ambiguous.is_some() as usize, got.len(), hex_trunc(data, 96)));
        return;
    }
    for (i, (g, e)) in got.iter().zip(w.notes.iter()).enumerate() {
        ctx.count("notes-compared");
        if let Some(m) = compare_note(ctx, big, data, g, e, true) {
            ctx.set_input(data);
            ctx.violation(&sig("note-content"), format!("{via} align={align} big={big}: note {i}: {m}; data {}", hex_trunc(data, 96)));
            return;
        }
    }
    if let Some(a) = &w.ambiguous {
        ctx.count("ambiguous-zone");
        if got.len() == allowed {
            ctx.count("ambiguous-zone:yielded");
            let desc_known = a.desc.0 + a.desc.1 <= data.len() && a.desc.1 > 0;
            if let Some(m) = compare_note(ctx, big, data, &got[allowed - 1], a, desc_known) {
                ctx.set_input(data);
                ctx.violation(&sig("note-content"), format!("{via} align={align} big={big}: last (padding-truncated) note: {m}; data {}", hex_trunc(data, 96)));
            }
        }
    }
}

pub fn standalone(ctx: &mut Ctx, enc: Enc, align: u64, data: &[u8], any: bool) {
    let class = class_of(enc);
    let al = align as usize;
    // whatever Iterator entry point drives the iteration, the notes are those next() yields
    let ok = if !ctx.rng.chance(1, 8) {
        true
    } else if enc.big {
        super::util::iter_protocol(ctx, "NoteIterator", || NoteIterator::new(BigEndian, class, al, data), |x| format!("{x:?}"), data.len() / 12 + 3, false)
    } else {
        super::util::iter_protocol(ctx, "NoteIterator", || NoteIterator::new(LittleEndian, class, al, data), |x| format!("{x:?}"), data.len() / 12 + 3, false)
    };
    if !ok {
        return;
    }
    match (any, enc.big) {
        (true, false) => check_iteration(ctx, "NoteIterator", false, align, data, NoteIterator::new(AnyEndian::Little, class, al, data)),
        (true, true) => check_iteration(ctx, "NoteIterator", true, align, data, NoteIterator::new(AnyEndian::Big, class, al, data)),
        (false, false) => check_iteration(ctx, "NoteIterator", false, align, data, NoteIterator::new(LittleEndian, class, al, data)),
        (false, true) => check_iteration(ctx, "NoteIterator", true, align, data, NoteIterator::new(BigEndian, class, al, data)),
    }
}

fn note_align(ctx: &mut Ctx) -> u64 {
    let a = ALIGNS[ctx.rng.usize_below(ALIGNS.len())];
    if a == 0 {
        ctx.count("align:zero");
    } else if a & (a - 1) != 0 {
        ctx.count("align:non-power-of-two");
    }
    a
}

/// Notes reached through a section and a PT_NOTE segment of a full object, both parsers.
fn via_file(ctx: &mut Ctx, enc: Enc) {
    use crate::codec::k;
    use crate::gen::elf::{build, ObjSpec, Sec, Seg, SegRange};
    let model = gen_model(&mut ctx.rng, enc, 8);
    let lay_align = [1usize, 4, 8, 16][ctx.rng.usize_below(4)];
    let mut body = emit(enc, lay_align, &model, &mut ctx.rng, true);
    if ctx.rng.chance(1, 4) {
        let n = 1 + ctx.rng.usize_below(20);
        let g = ctx.rng.bytes(n);
        body.extend_from_slice(&g);
    }
    // declared alignments: usually the layout's, sometimes anything (incl. 0)
    let pick = |ctx: &mut Ctx| -> u64 {
        if ctx.rng.chance(2, 3) {
            lay_align as u64
        } else {
            let a = ALIGNS[ctx.rng.usize_below(ALIGNS.len())];
            if a == 0 {
                ctx.count("via:align=0");
            }
            if enc.c64 { a } else { a & 0xffff_ffff }
        }
    };
    let sh_align = pick(ctx);
    let p_align = pick(ctx);
    let mut spec = ObjSpec::new(enc);
    spec.add(Sec::new(b".text", k::SHT_PROGBITS, ctx.rng.bytes(7)));
    let mut s = Sec::new(b".note.x", k::SHT_NOTE, body.clone());
    s.addralign = sh_align;
    s.file_align = lay_align;
    let idx = spec.add(s);
    // p_memsz (not looked at by any accessor): equal to p_filesz, zero as in core files, larger, smaller
    let memsz_extra = [0u64, 0, (body.len() as u64).wrapping_neg(), 4, 12, 8u64.wrapping_neg(), 0x1000][ctx.rng.usize_below(7)];
    spec.segs.push(Seg { p_type: k::PT_NOTE, flags: 4, range: SegRange::OfSection(idx), vaddr: 0, paddr: 0, memsz_extra, align: p_align });
    spec.max_gap = 5;
    let b = build(&spec, &mut ctx.rng);
    let data = &b.bytes[..];
    ctx.set_input(data);
    if model.len() >= 2 {
        ctx.nontrivial_bytes(data);
    }
    ctx.sample(|| format!("{} object: {} notes laid out with align {}, sh_addralign={:#x}, p_align={:#x}", enc.name(), model.len(), lay_align, sh_align, p_align));
    let (off, len) = (b.secs[idx].off as usize, b.secs[idx].size as usize);
    let range = &data[off..off + len];
    let f = match super::util::open_slice(data) {
        Ok(f) => f,
        Err(e) => {
            ctx.inconclusive(format!("generated note object does not open: {e}"));
            return;
        }
    };
    let sh = f.section_headers().and_then(|t| t.get(idx).ok());
    let ph = f.segments().and_then(|t| t.get(0).ok());
    let (Some(sh), Some(ph)) = (sh, ph) else {
        ctx.inconclusive("generated note object lacks its headers".to_string());
        return;
    };
    // the slices handed out by the slice parser are exactly `range`; notes must be those laid out in it
    match f.section_data(&sh) {
        Ok((d, _)) if d.as_ptr() == range.as_ptr() && d.len() == range.len() => {}
        other => {
            ctx.inconclusive(format!("section_data of the note section is not the designated range: {:?}", other.map(|d| d.0.len())));
            return;
        }
    }
    match f.section_data_as_notes(&sh) {
        Ok(it) => {
            ctx.count("via:slice:section");
            check_iteration(ctx, "ElfBytes::section_data_as_notes", enc.big, sh_align, f.section_data(&sh).map(|d| d.0).unwrap_or(&[]), it);
        }
        Err(e) => ctx.violation("ElfBytes::section_data_as_notes:error", format!("failed on a well-formed note section: {e:?}")),
    }
    match (f.segment_data(&ph), f.segment_data_as_notes(&ph)) {
        (Ok(d), Ok(it)) => {
            ctx.count("via:slice:segment");
            check_iteration(ctx, "ElfBytes::segment_data_as_notes", enc.big, p_align, d, it);
        }
        (a, b) => ctx.violation("ElfBytes::segment_data_as_notes:error", format!("failed on a well-formed note segment: data ok={} notes ok={}", a.is_ok(), b.is_ok())),
    }
    // the stream parser copies the bytes, so its notes are compared by content with the reference walk
    // of an identical copy: collect owned dumps from both and compare
    #[cfg(feature = "elf_std")]
    if let Ok(mut st) = super::util::open_stream(data) {
        let shs = *st.section_headers().get(idx).unwrap();
        let phs = *st.segments().first().unwrap();
        match st.section_data_as_notes(&shs) {
            Ok(it) => {
                ctx.count("via:stream:section");
                let got = crate::observe::dump_notes(it, 1000);
                let want = dump_expected(enc.big, sh_align, range);
                if !want.iter().any(|w| *w == got) {
                    ctx.violation("ElfStream::section_data_as_notes:content", format!("sh_addralign={sh_align:#x}: stream yielded {} but the notes laid out are {}", cut(&got), cut(&want[0])));
                }
            }
            Err(e) => ctx.violation("ElfStream::section_data_as_notes:error", format!("failed on a well-formed note section: {e:?}")),
        }
        match st.segment_data_as_notes(&phs) {
            Ok(it) => {
                ctx.count("via:stream:segment");
                let got = crate::observe::dump_notes(it, 1000);
                let want = dump_expected(enc.big, p_align, range);
                if !want.iter().any(|w| *w == got) {
                    ctx.violation("ElfStream::segment_data_as_notes:content", format!("p_align={p_align:#x}: stream yielded {} but the notes laid out are {}", cut(&got), cut(&want[0])));
                }
            }
            Err(e) => ctx.violation("ElfStream::segment_data_as_notes:error", format!("failed on a well-formed note segment: {e:?}")),
        }
    }
}

fn cut(s: &str) -> String {
    s.chars().take(300).collect()
}

/// The acceptable dumps for `data` under `align`: the certain notes, and (when the data ends inside
/// padding) also the certain notes plus the padding-truncated one. Built by iterating a *reference-checked*
/// stand-alone iterator: first the stand-alone iterator is judged against the reference walker (so a
/// wrong iterator is reported there), then its dump is the expectation for the stream path.
fn dump_expected(big: bool, align: u64, data: &[u8]) -> Vec<String> {
    use elf::file::Class;
    let w = walk(big, align, data);
    // reconstruct the expected dump from the reference walk by dumping slices of a stand-alone iterator
    // limited to exactly the expected number of notes
    let mut outs = Vec::new();
    for n in [w.notes.len(), w.notes.len() + w.ambiguous.is_some() as usize] {
        let al = if align == 0 { 1 } else { align };
        let _ = al;
        // expected typed dump built directly from the reference notes
        let mut s = String::from("notes{");
        for (i, rn) in w.notes.iter().chain(w.ambiguous.iter()).enumerate() {
            if i >= n {
                break;
            }
            match typed(big, data, rn) {
                RefTyped::AbiTag { os, major, minor, subminor } => s.push_str(&format!("{:?};", elf::note::Note::GnuAbiTag(elf::note::NoteGnuAbiTag { os, major, minor, subminor }))),
                RefTyped::BuildId(d) => s.push_str(&format!("{:?};", elf::note::Note::GnuBuildId(elf::note::NoteGnuBuildId(&d)))),
                RefTyped::Unknown { n_type, name, desc, name_str } => {
                    let desc: &[u8] = if rn.desc.0 + rn.desc.1 <= data.len() { &desc } else { &[] };
                    s.push_str(&format!("any(type={},name={},desc={},str={:?});", n_type, crate::observe::dump_bytes(&name), crate::observe::dump_bytes(desc), name_str.as_deref().ok_or("utf8")));
                }
                RefTyped::Unjudged => s.push_str("?;"),
            }
        }
        s.push('}');
        outs.push(s);
    }
    let _ = Class::ELF32;
    outs
}

fn run(ctx: &mut Ctx, si: usize, _case: u64) {
    let enc = Enc::ALL[ctx.rng.usize_below(4)];
    ctx.count(&format!("enc:{}", enc.name()));
    let any = ctx.rng.bool();
    match si {
        0 => {
            let align = note_align(ctx);
            let model = gen_model(&mut ctx.rng, enc, 20);
            let lay_align = if align == 0 || align > 64 { [1usize, 4, 8][ctx.rng.usize_below(3)] } else { align as usize };
            let zero = ctx.rng.bool();
            let mut data = emit(enc, lay_align, &model, &mut ctx.rng, zero);
            match ctx.rng.below(4) {
                0 => {
                    ctx.count("trailing-garbage");
                    let n = 1 + ctx.rng.usize_below(30);
                    let g = ctx.rng.bytes(n);
                    data.extend_from_slice(&g);
                }
                1 => {
                    ctx.count("truncated-last-record");
                    if !data.is_empty() {
                        let cut = ctx.rng.usize_below(data.len().min(60)) + 1;
                        data.truncate(data.len() - cut.min(data.len()));
                    }
                }
                _ => {}
            }
            if model.len() >= 2 {
                ctx.nontrivial_bytes(&data);
            }
            ctx.sample(|| format!("{} align={} notes={} any={} data={}", enc.name(), align, model.len(), any, hex_trunc(&data, 64)));
            standalone(ctx, enc, align, &data, any);
        }
        2 => via_file(ctx, enc),
        _ => {
            // a short sequence truncated at every byte
            let align = [1u64, 2, 4, 8, 16, 3][ctx.rng.usize_below(6)];
            if align == 3 {
                ctx.count("align:non-power-of-two");
            }
            let model = gen_model(&mut ctx.rng, enc, 4);
            let full = emit(enc, align as usize, &model, &mut ctx.rng, false);
            ctx.sample(|| format!("{} align={} notes={} every prefix of {}", enc.name(), align, model.len(), hex_trunc(&full, 64)));
            for l in 0..=full.len() {
                ctx.count("truncated-last-record");
                if l > 12 {
                    let mut key = full[..l].to_vec();
                    key.push(align as u8);
                    ctx.nontrivial_bytes(&key);
                }
                standalone(ctx, enc, align, &full[..l], any);
            }
        }
    }
}

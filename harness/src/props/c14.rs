//! C14 — note iteration yields exactly the notes laid out in the section/segment.
use super::c09::class_of;
use super::{scale, st, PropDef, Stratum};
use crate::codec::Enc;
use crate::ctx::{hex_trunc, Ctx, Tier};
use crate::gen::notes::{emit, gen_model, ALIGNS};
use crate::reference::notes::{typed, walk, RefNote, RefTyped};
use elf::endian::{AnyEndian, BigEndian, LittleEndian};
use elf::note::{Note, NoteIterator};

pub const DEF: PropDef = PropDef { id: "C14", strata, run, setup, canaries: &["panic"] };

fn setup(ctx: &mut Ctx) {
    ctx.floor("notes-compared", 1000);
    ctx.floor("typed:abi-tag", 50);
    ctx.floor("typed:build-id", 50);
    ctx.floor("typed:unknown", 500);
    ctx.floor("name_str:invalid-utf8", 50);
    ctx.floor("name_str:trailing-nuls-trimmed", 50);
    ctx.floor("align:zero", 20);
    ctx.floor("align:non-power-of-two", 20);
    ctx.floor("truncated-last-record", 200);
    ctx.floor("trailing-garbage", 200);
    ctx.floor("ambiguous-zone", 1);
    for e in Enc::ALL {
        ctx.floor(&format!("enc:{}", e.name()), 100);
    }
}

fn strata(t: Tier) -> Vec<Stratum> {
    vec![
        st("standalone-sequences", scale(t, 4_800_000, 48_000_000, 40)),
        st("truncate-every-byte", scale(t, 240_000, 2_400_000, 3)),
    ]
}

fn same_range(sub: &[u8], base: &[u8], start: usize) -> bool {
    sub.is_empty() || sub.as_ptr() as usize == base.as_ptr() as usize + start
}

/// Compare one yielded note with the reference; returns a mismatch description.
pub fn compare_note(ctx: &mut Ctx, big: bool, data: &[u8], got: &Note<'_>, exp: &RefNote, desc_known: bool) -> Option<String> {
    let want = typed(big, data, exp);
    match (&want, got) {
        (RefTyped::Unjudged, _) => {
            ctx.count("typed:unjudged");
            None
        }
        (RefTyped::AbiTag { os, major, minor, subminor }, Note::GnuAbiTag(t)) => {
            ctx.count("typed:abi-tag");
            if (t.os, t.major, t.minor, t.subminor) != (*os, *major, *minor, *subminor) {
                return Some(format!("ABI tag {:?} != file words ({os},{major},{minor},{subminor})", t));
            }
            None
        }
        (RefTyped::BuildId(d), Note::GnuBuildId(b)) => {
            ctx.count("typed:build-id");
            if b.0 != &d[..] || !same_range(b.0, data, exp.desc.0) {
                return Some(format!("build-id {} != descriptor bytes {} (or not borrowed from offset {})", hex_trunc(b.0, 40), hex_trunc(d, 40), exp.desc.0));
            }
            None
        }
        (RefTyped::Unknown { n_type, name, desc, name_str }, Note::Unknown(a)) => {
            ctx.count("typed:unknown");
            if a.n_type != *n_type {
                return Some(format!("n_type {:#x} != {:#x}", a.n_type, n_type));
            }
            if a.name != &name[..] || !same_range(a.name, data, exp.name.0) {
                return Some(format!("name {} != file bytes {} at {}", hex_trunc(a.name, 40), hex_trunc(name, 40), exp.name.0));
            }
            if desc_known && (a.desc != &desc[..] || !same_range(a.desc, data, exp.desc.0)) {
                return Some(format!("desc {} != file bytes {} at {}", hex_trunc(a.desc, 40), hex_trunc(desc, 40), exp.desc.0));
            }
            match (name_str, a.name_str()) {
                (Some(s), Ok(g)) => {
                    if s.len() != name.len() {
                        ctx.count("name_str:trailing-nuls-trimmed");
                    }
                    if g != s {
                        return Some(format!("name_str {:?} != {:?}", g, s));
                    }
                }
                (None, Err(_)) => ctx.count("name_str:invalid-utf8"),
                (None, Ok(g)) => return Some(format!("name_str returned {:?} for non-UTF-8 name {}", g, hex_trunc(name, 40))),
                (Some(s), Err(e)) => return Some(format!("name_str failed ({e:?}) for valid name {:?}", s)),
            }
            None
        }
        (w, g) => Some(format!("typed form mismatch: expected {:?}, got {:?}", w, g)),
    }
}

/// Full comparison of an iterator's output with the reference walk of `data`.
pub fn check_iteration<'a, I: Iterator<Item = Note<'a>>>(ctx: &mut Ctx, via: &str, big: bool, align: u64, data: &'a [u8], mut it: I) {
    let w = walk(big, align, data);
    ctx.eval();
    let cap = w.notes.len() + 3;
    let mut got: Vec<Note<'a>> = Vec::new();
    while let Some(n) = it.next() {
        got.push(n);
        if got.len() > cap {
            break;
        }
    }
    let sig = |what: &str| format!("{via}:{what}");
    if got.len() < w.notes.len() {
        ctx.set_input(data);
        ctx.violation(&sig("missing-notes"), format!("{via} align={align} big={big}: {} notes laid out, {} yielded; data {}", w.notes.len(), got.len(), hex_trunc(data, 96)));
        return;
    }
    let allowed = w.notes.len() + w.ambiguous.is_some() as usize;
    if got.len() > allowed {
        ctx.set_input(data);
        ctx.violation(&sig("extra-notes"), format!("{via} align={align} big={big}: {} notes fit ({} more in the silent zone), {} yielded; data {}", w.notes.len(), w.ambiguous.is_some() as usize, got.len(), hex_trunc(data, 96)));
        return;
    }
    for (i, (g, e)) in got.iter().zip(w.notes.iter()).enumerate() {
        ctx.count("notes-compared");
        if let Some(m) = compare_note(ctx, big, data, g, e, true) {
            ctx.set_input(data);
            ctx.violation(&sig("note-content"), format!("{via} align={align} big={big}: note {i}: {m}; data {}", hex_trunc(data, 96)));
            return;
        }
    }
    if let Some(a) = &w.ambiguous {
        ctx.count("ambiguous-zone");
        if got.len() == allowed {
            ctx.count("ambiguous-zone:yielded");
            let desc_known = a.desc.0 + a.desc.1 <= data.len() && a.desc.1 > 0;
            if let Some(m) = compare_note(ctx, big, data, &got[allowed - 1], a, desc_known) {
                ctx.set_input(data);
                ctx.violation(&sig("note-content"), format!("{via} align={align} big={big}: last (padding-truncated) note: {m}; data {}", hex_trunc(data, 96)));
            }
        }
    }
}

fn standalone(ctx: &mut Ctx, enc: Enc, align: u64, data: &[u8], any: bool) {
    let class = class_of(enc);
    let al = align as usize;
    match (any, enc.big) {
        (true, false) => check_iteration(ctx, "NoteIterator", false, align, data, NoteIterator::new(AnyEndian::Little, class, al, data)),
        (true, true) => check_iteration(ctx, "NoteIterator", true, align, data, NoteIterator::new(AnyEndian::Big, class, al, data)),
        (false, false) => check_iteration(ctx, "NoteIterator", false, align, data, NoteIterator::new(LittleEndian, class, al, data)),
        (false, true) => check_iteration(ctx, "NoteIterator", true, align, data, NoteIterator::new(BigEndian, class, al, data)),
    }
}

fn note_align(ctx: &mut Ctx) -> u64 {
    let a = ALIGNS[ctx.rng.usize_below(ALIGNS.len())];
    if a == 0 {
        ctx.count("align:zero");
    } else if a & (a - 1) != 0 {
        ctx.count("align:non-power-of-two");
    }
    a
}

fn run(ctx: &mut Ctx, si: usize, _case: u64) {
    let enc = Enc::ALL[ctx.rng.usize_below(4)];
    ctx.count(&format!("enc:{}", enc.name()));
    let any = ctx.rng.bool();
    match si {
        0 => {
            let align = note_align(ctx);
            let model = gen_model(&mut ctx.rng, enc, 20);
            let lay_align = if align == 0 || align > 64 { [1usize, 4, 8][ctx.rng.usize_below(3)] } else { align as usize };
            let zero = ctx.rng.bool();
            let mut data = emit(enc, lay_align, &model, &mut ctx.rng, zero);
            match ctx.rng.below(4) {
                0 => {
                    ctx.count("trailing-garbage");
                    let n = 1 + ctx.rng.usize_below(30);
                    let g = ctx.rng.bytes(n);
                    data.extend_from_slice(&g);
                }
                1 => {
                    ctx.count("truncated-last-record");
                    if !data.is_empty() {
                        let cut = ctx.rng.usize_below(data.len().min(60)) + 1;
                        data.truncate(data.len() - cut.min(data.len()));
                    }
                }
                _ => {}
            }
            if model.len() >= 2 {
                ctx.nontrivial_bytes(&data);
            }
            ctx.sample(|| format!("{} align={} notes={} any={} data={}", enc.name(), align, model.len(), any, hex_trunc(&data, 64)));
            standalone(ctx, enc, align, &data, any);
        }
        _ => {
            // a short sequence truncated at every byte
            let align = [1u64, 2, 4, 8, 16, 3][ctx.rng.usize_below(6)];
            if align == 3 {
                ctx.count("align:non-power-of-two");
            }
            let model = gen_model(&mut ctx.rng, enc, 4);
            let full = emit(enc, align as usize, &model, &mut ctx.rng, false);
            ctx.sample(|| format!("{} align={} notes={} every prefix of {}", enc.name(), align, model.len(), hex_trunc(&full, 64)));
            for l in 0..=full.len() {
                ctx.count("truncated-last-record");
                if l > 12 {
                    let mut key = full[..l].to_vec();
                    key.push(align as u8);
                    ctx.nontrivial_bytes(&key);
                }
                standalone(ctx, enc, align, &full[..l], any);
            }
        }
    }
}

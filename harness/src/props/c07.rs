//! C07 — stream parser and slice parser are observationally equivalent.
use super::{scale, st, PropDef, Stratum};
use crate::codec::{k, Enc};
use crate::corpus::seeds;
use crate::ctx::{Ctx, Tier};
use crate::gen::elf::build;
use crate::gen::mutate;
use crate::gen::object::{gen_object, GenOpts};
use crate::monitor::io::{new_reader, Handle, MonReader, Policy};
use crate::observe::{obs_slice, obs_stream, CallMonitor, Obs, Query};
use crate::reference::locator::{ref_open, RefFile};
use elf::endian::AnyEndian;
use elf::{ElfBytes, ElfStream};
use std::rc::Rc;

pub const DEF: PropDef = PropDef { id: "C07", strata, run, setup, canaries: &["panic", "io"] };

fn setup(ctx: &mut Ctx) {
    ctx.floor("files-from-the-hostile-corpus", 1000);
    ctx.floor("files", 1000);
    ctx.floor("open:both-ok", 500);
    ctx.floor("open:both-err", 100);
    ctx.floor("query:both-ok-equal", 10_000);
    ctx.floor("query:both-err", 1000);
    ctx.floor("history:repeated-query", 1000);
    ctx.floor("history:shared-start-pair", 100);
    ctx.floor("history:shared-end-pair", 100);
    ctx.floor("policy:short-reads", 100);
    ctx.floor("policy:interrupted", 100);
    ctx.floor("policy:full", 100);
    ctx.floor("io:short-reads-delivered", 1000);
    ctx.floor("io:interrupts-delivered", 100);
    ctx.floor("scoped-out:compressed", 10);
    ctx.floor("long-history:distinct-ranges>=64", 100);
    ctx.floor("long-history:multi-range-query", 2000);
    ctx.floor("sparse:streams-judged", 2000);
    ctx.floor("sparse:content-queries-equal", 20_000);
    ctx.floor("sparse:offsets>=2^32", 500);
    ctx.floor("reader:initial-position-nonzero", 1000);
}

fn strata(t: Tier) -> Vec<Stratum> {
    vec![st("generated-histories", scale(t, 640_000, 6_400_000, 4)), st("seed-files", scale(t, 6_400, 64_000, 0)), st("mutated-and-random", scale(t, 640_000, 6_400_000, 4)), st("many-sections-long-histories", scale(t, 8_000, 80_000, 1)), st("sparse-huge-streams", scale(t, 80_000, 800_000, 2))]
}

pub struct ApiTag<'a> {
    pub h: &'a Handle,
    pub api: u32,
}
impl CallMonitor for ApiTag<'_> {
    fn before(&mut self) {
        self.h.set_api(self.api);
    }
}

fn flagged(r: &RefFile<'_>, i: usize) -> bool {
    r.shdr(i).map(|s| s.get("sh_flags") & k::SHF_COMPRESSED != 0).unwrap_or(false)
}

/// Does the query touch a section flagged SHF_COMPRESSED (then it is outside the statement)?
pub fn touches_compressed(r: &RefFile<'_>, q: &Query) -> bool {
    let of_type = |ty: u32| -> bool {
        for i in 0..r.shnum() {
            if let Some(s) = r.shdr(i) {
                if s.get("sh_type") == ty as u64 && (s.get("sh_flags") & k::SHF_COMPRESSED != 0 || flagged(r, s.get("sh_link") as usize)) {
                    return true;
                }
            }
        }
        false
    };
    match q {
        Query::SectionData(i) | Query::AsStrtab(i) | Query::AsRels(i) | Query::AsRelas(i) | Query::AsNotes(i) => flagged(r, *i),
        Query::ShdrsWithStrtab | Query::ByName(_) => r.shstrndx().map(|i| flagged(r, i)).unwrap_or(false),
        Query::SymbolTable => of_type(k::SHT_SYMTAB),
        Query::DynSymbolTable => of_type(k::SHT_DYNSYM),
        Query::Dynamic => of_type(k::SHT_DYNAMIC),
        Query::SymVer => of_type(k::SHT_GNU_VERSYM) || of_type(k::SHT_GNU_VERNEED) || of_type(k::SHT_GNU_VERDEF),
        Query::CommonData => of_type(k::SHT_SYMTAB) || of_type(k::SHT_DYNSYM) || of_type(k::SHT_DYNAMIC) || of_type(k::SHT_HASH) || of_type(k::SHT_GNU_HASH),
        _ => false,
    }
}

pub fn exact_coincidence(q: &Query) -> bool {
    matches!(q, Query::SectionData(_) | Query::SymbolTable | Query::DynSymbolTable | Query::SymVer | Query::SegmentNotes(_))
}

/// section names for by-name queries: present names, prefixes, absent
pub fn name_queries(r: &RefFile<'_>, rng: &mut crate::rng::Rng, max: usize) -> Vec<String> {
    let mut v: Vec<String> = Vec::new();
    let mut special: Vec<String> = Vec::new();
    for i in 0..r.shnum().min(64) {
        if let Some(sh) = r.shdr(i) {
            if let Some(n) = r.sec_name(&sh) {
                if let Ok(s) = std::str::from_utf8(n) {
                    v.push(s.to_string());
                    if s.len() > 1 && rng.chance(1, 4) {
                        let mut cut = s.len() - 1;
                        while !s.is_char_boundary(cut) {
                            cut -= 1;
                        }
                        v.push(s[..cut].to_string());
                    }
                }
            }
        }
    }
    // queries cut straight out of the section-name string table: two adjacent entries joined by their NUL, an
    // entry with its terminator, and the unterminated tail of the table
    if let crate::reference::locator::ShStrtab::Range(s, l) = r.shstrtab() {
        let tab = &r.data[s..s + l];
        for _ in 0..3 {
            if tab.len() < 2 {
                break;
            }
            let a = rng.usize_below(tab.len());
            let b = (a + 1 + rng.usize_below(24)).min(tab.len());
            if let Ok(q) = std::str::from_utf8(&tab[a..b]) {
                if q.contains('\0') || b == tab.len() {
                    special.push(q.to_string());
                }
            }
        }
        let tail_start = tab.iter().rposition(|c| *c == 0).map(|p| p + 1).unwrap_or(0);
        if let Ok(q) = std::str::from_utf8(&tab[tail_start..]) {
            if !q.is_empty() {
                special.push(q.to_string());
            }
        }
        // the unterminated tail continued by the file bytes that follow the table (they are not part of any name)
        if tail_start < tab.len() && s + l < r.data.len() {
            let after = &r.data[s + l..(s + l + 64).min(r.data.len())];
            let e = after.iter().position(|c| *c == 0).unwrap_or(after.len());
            for cut in [e, 1.min(e), rng.usize_below(e + 1)] {
                if let Ok(q) = std::str::from_utf8(&r.data[s + tail_start..s + l + cut]) {
                    special.push(q.to_string());
                }
            }
        }
    }
    // the string literals of the crate's own code with common tails: siblings of names the code may treat specially
    for lit in crate::abi_table::SRC_STRINGS.iter().take(24) {
        for tail in ["", "info", "x"] {
            special.push(format!("{lit}{tail}"));
        }
    }
    v.push(".absent".to_string());
    v.push(String::new());
    rng.shuffle(&mut v);
    v.truncate(max);
    // one of the table-shaped queries takes the place of the last pick half of the time
    if !special.is_empty() && max > 0 && rng.bool() {
        let q = special[rng.usize_below(special.len())].clone();
        if v.len() >= max {
            v.pop();
        }
        v.push(q);
    }
    v
}

pub fn gen_policy(ctx: &mut Ctx) -> (Policy, &'static str) {
    match ctx.rng.below(4) {
        0 => (Policy::default(), "full"),
        1 => (Policy { max_chunk: [1usize, 2, 3, 7, 64][ctx.rng.usize_below(5)], ..Default::default() }, "short-reads"),
        2 => (Policy { interrupt_per_256: [8u32, 64, 200][ctx.rng.usize_below(3)], ..Default::default() }, "interrupted"),
        _ => (Policy { max_chunk: [1usize, 5, 16][ctx.rng.usize_below(3)], interrupt_per_256: 64, ..Default::default() }, "short-reads+interrupted"),
    }
}

/// a history: picks from the pool with repetition; queries are repeated after unrelated ones
pub fn gen_history(rng: &mut crate::rng::Rng, pool: &[Query], max_len: usize) -> Vec<Query> {
    let len = 1 + rng.usize_below(max_len);
    let mut h: Vec<Query> = Vec::with_capacity(len);
    for _ in 0..len {
        if !h.is_empty() && rng.chance(1, 4) {
            let q = h[rng.usize_below(h.len())].clone();
            h.push(q);
        } else {
            h.push(pool[rng.usize_below(pool.len())].clone());
        }
    }
    h
}

fn sec_range(r: &RefFile<'_>, q: &Query) -> Option<(u64, u64)> {
    match q {
        Query::SectionData(i) | Query::AsStrtab(i) | Query::AsRels(i) | Query::AsRelas(i) | Query::AsNotes(i) => r.shdr(*i).map(|s| (s.get("sh_offset"), s.get("sh_offset").wrapping_add(s.get("sh_size")))),
        _ => None,
    }
}

/// Query pool biased to calls that can succeed: typed views mostly on sections of the matching type.
pub fn smart_pool(r: &RefFile<'_>, names: &[String], rng: &mut crate::rng::Rng, stream_only: bool) -> Vec<Query> {
    let mut v = vec![Query::ShdrsWithStrtab, Query::SymbolTable, Query::DynSymbolTable, Query::Dynamic, Query::SymVer];
    if !stream_only {
        v.push(Query::CommonData);
    }
    for i in 0..r.shnum().min(256) {
        let ty = r.shdr(i).map(|s| s.get("sh_type") as u32).unwrap_or(0);
        v.push(Query::SectionData(i));
        if ty == k::SHT_STRTAB || rng.chance(1, 8) {
            v.push(Query::AsStrtab(i));
        }
        if ty == k::SHT_REL || rng.chance(1, 8) {
            v.push(Query::AsRels(i));
        }
        if ty == k::SHT_RELA || rng.chance(1, 8) {
            v.push(Query::AsRelas(i));
        }
        if ty == k::SHT_NOTE || rng.chance(1, 8) {
            v.push(Query::AsNotes(i));
        }
    }
    for j in 0..r.phnum().min(16) {
        let ty = r.phdr(j).map(|s| s.get("p_type") as u32).unwrap_or(0);
        if !stream_only {
            v.push(Query::SegmentData(j));
        }
        if ty == k::PT_NOTE || rng.chance(1, 4) {
            v.push(Query::SegmentNotes(j));
        }
    }
    for n in names {
        v.push(Query::ByName(n.clone()));
    }
    v
}

/// Judge one file under one reader policy and one history.
pub fn judge_file(ctx: &mut Ctx, data: &[u8], what: &str, max_hist: usize) {
    ctx.count("files");
    ctx.set_input(data);
    let (policy, pname) = gen_policy(ctx);
    ctx.count(&format!("policy:{}", if pname == "short-reads+interrupted" { "short-reads" } else { pname }));
    if pname == "short-reads+interrupted" {
        ctx.count("policy:interrupted");
    }
    let seed = ctx.rng.next_u64();
    let rc = Rc::new(data.to_vec());
    let (reader, handle) = new_reader(rc, policy, seed);
    if ctx.rng.bool() {
        // the stream is handed over standing anywhere (also at or past its end)
        let p = ctx.rng.below(data.len() as u64 + 3);
        if p > 0 {
            ctx.count("reader:initial-position-nonzero");
        }
        handle.set_pos(p);
    }
    let slice = ElfBytes::<AnyEndian>::minimal_parse(data);
    let stream = ElfStream::<AnyEndian, MonReader>::open_stream(reader);
    ctx.eval();
    let (slice, mut stream) = match (slice, stream) {
        (Ok(a), Ok(b)) => {
            ctx.count("open:both-ok");
            (a, b)
        }
        (Err(_), Err(_)) => {
            ctx.count("open:both-err");
            return;
        }
        (a, b) => {
            ctx.violation("open:outcome-differs", format!("{what} [{pname}]: minimal_parse -> {} but open_stream -> {}", a.map(|_| "Ok").unwrap_or_else(|e| Box::leak(format!("{e:?}").into_boxed_str())), b.map(|_| "Ok".to_string()).unwrap_or_else(|e| format!("{e:?}"))));
            return;
        }
    };
    // clause 1: identical headers
    for q in [Query::Ehdr, Query::Shdrs, Query::Phdrs] {
        let a = obs_slice(&slice, &q);
        let b = obs_stream(&mut stream, &q, &mut crate::observe::NoMonitor);
        if a != b {
            ctx.violation(&format!("{}:differs", q.label()), format!("{what} [{pname}]: {} differs: slice {:?} vs stream {:?}", q.label(), trunc(&a), trunc(&b)));
            return;
        }
    }
    let r = match ref_open(data, &[1, 2]) {
        Ok(r) => r,
        Err(e) => {
            // C05's business; here it only means the scope cannot be computed
            ctx.inconclusive(format!("reference locator rejects a file both parsers open: {e:?}"));
            return;
        }
    };
    if r.shdrs.map(|s| s.1) == Some(0) {
        ctx.count("scoped-out:present-but-empty-shdr-table");
        return;
    }
    let names = name_queries(&r, &mut ctx.rng, 6);
    let pool = smart_pool(&r, &names, &mut ctx.rng, true);
    let hist = if max_hist >= 200 {
        // long histories over many distinct ranges, with a multi-range query (symbol tables, version table)
        // every few calls: exercises whatever bookkeeping the stream parser keeps across calls
        let len = 100 + ctx.rng.usize_below(max_hist);
        let multi = [Query::SymbolTable, Query::DynSymbolTable, Query::SymVer, Query::ShdrsWithStrtab, Query::Dynamic];
        let every = 2 + ctx.rng.usize_below(12);
        let mut h = Vec::with_capacity(len);
        let mut distinct = std::collections::HashSet::new();
        for i in 0..len {
            let q = if i % every == every - 1 { multi[ctx.rng.usize_below(multi.len())].clone() } else { pool[ctx.rng.usize_below(pool.len())].clone() };
            if matches!(q, Query::SymbolTable | Query::DynSymbolTable | Query::SymVer) {
                ctx.count("long-history:multi-range-query");
            }
            distinct.insert(q.clone());
            h.push(q);
        }
        if distinct.len() >= 64 {
            ctx.count("long-history:distinct-ranges>=64");
        }
        h
    } else {
        gen_history(&mut ctx.rng, &pool, max_hist)
    };
    ctx.nontrivial(crate::rng::mix(crate::rng::fnv64(data), crate::rng::fnv64(format!("{:?}", hist).as_bytes())));
    ctx.sample(|| format!("{what} [{pname}] history {:?}", hist.iter().take(12).collect::<Vec<_>>()));
    // structural coverage of the history
    for (i, q) in hist.iter().enumerate() {
        if hist[..i].contains(q) {
            ctx.count("history:repeated-query");
        }
        if let Some((s, e)) = sec_range(&r, q) {
            for p in &hist[..i] {
                if let Some((ps, pe)) = sec_range(&r, p) {
                    if (ps, pe) != (s, e) {
                        if ps == s {
                            ctx.count("history:shared-start-pair");
                        }
                        if pe == e {
                            ctx.count("history:shared-end-pair");
                        }
                    }
                }
            }
        }
    }
    for (i, q) in hist.iter().enumerate() {
        ctx.eval();
        let scoped_out = touches_compressed(&r, q);
        let a: Obs = obs_slice(&slice, q);
        let b: Obs = obs_stream(&mut stream, q, &mut ApiTag { h: &handle, api: i as u32 + 1 });
        if scoped_out {
            ctx.count("scoped-out:compressed");
            continue;
        }
        match (&a, &b) {
            (Ok(x), Ok(y)) => {
                if x != y {
                    ctx.violation(&format!("{}:content-differs", q.label()), format!("{what} [{pname}] call #{i} {:?}: slice {} vs stream {}", q, trunc(&a), trunc(&b)));
                    return;
                }
                ctx.count("query:both-ok-equal");
            }
            (Err(_), Err(_)) => ctx.count("query:both-err"),
            (Ok(_), Err(e)) => {
                ctx.violation(&format!("{}:stream-fails-where-slice-succeeds", q.label()), format!("{what} [{pname}] call #{i} {:?}: slice succeeded, stream failed with {e}", q));
                return;
            }
            (Err(e), Ok(_)) => {
                if exact_coincidence(q) {
                    ctx.violation(&format!("{}:stream-succeeds-where-slice-fails", q.label()), format!("{what} [{pname}] call #{i} {:?}: slice failed with {e}, stream succeeded", q));
                    return;
                }
                ctx.count("query:slice-err-stream-ok(allowed)");
            }
        }
    }
    let (ints, shorts, dropped) = handle.stats();
    ctx.count_n("io:interrupts-delivered", ints);
    ctx.count_n("io:short-reads-delivered", shorts);
    ctx.count_n("io:events", handle.calls() as u64);
    ctx.count_n("io:log-dropped", dropped);
}

fn trunc(o: &Obs) -> String {
    let s = match o {
        Ok(s) => format!("Ok({s})"),
        Err(e) => format!("Err({e})"),
    };
    if s.len() > 300 {
        let mut cut = 300;
        while !s.is_char_boundary(cut) {
            cut -= 1;
        }
        format!("{}…", &s[..cut])
    } else {
        s
    }
}

/// A stream far larger than memory: the generated file with a hole of zeros spliced in at a structure boundary and every
/// file offset behind the hole moved up accordingly (offsets near 2^32 for ELF32, 2^32..2^62 for ELF64). Every
/// content query must give what the slice parser gives on the original file.
fn sparse_case(ctx: &mut Ctx, enc: Enc) {
    // offsets beyond 2^32 cannot be expressed in a 32-bit usize: on such targets the relocated stream is legitimately
    // refused, so the relation "same answers as the small original" only holds on 64-bit targets
    if usize::BITS < 64 {
        ctx.count("sparse:not-on-this-target");
        return;
    }
    let mut o = GenOpts::standard();
    o.weird_views = false;
    o.max_syms = 8;
    o.density = 6;
    let (spec, _) = gen_object(&mut ctx.rng, enc, &o);
    let b = build(&spec, &mut ctx.rng);
    let data = &b.bytes[..];
    let Ok(r) = ref_open(data, &[1, 2]) else { return };
    let cands = mutate::cut_points(&b);
    if cands.is_empty() {
        ctx.count("sparse:no-cut-point");
        return;
    }
    let at = cands[ctx.rng.usize_below(cands.len())];
    let hole: u64 = if enc.c64 {
        [1u64 << 32, (1 << 32) - 16, (1 << 33) + 0x1234, 1 << 40, 1 << 47, (1 << 62) + 8][ctx.rng.usize_below(6)]
    } else {
        // all shifted offsets must still fit in 32 bits
        let room = 0xffff_ffffu64 - data.len() as u64;
        [room, room - 1, 0x8000_0000 - at.min(0x7fff_ffff), 0x7fff_0000, 0xf000_0000u64.min(room)][ctx.rng.usize_below(5)]
    };
    let mut shifted = b.clone();
    mutate::relocate(&mut shifted, at, hole);
    if at.saturating_add(hole) >= 1 << 32 {
        ctx.count("sparse:offsets>=2^32");
    }
    let (policy, pname) = gen_policy(ctx);
    let seed = ctx.rng.next_u64();
    let (reader, handle) = new_reader(Rc::new(shifted.bytes.clone()), policy, seed);
    handle.set_hole(at, hole);
    ctx.set_input(data);
    ctx.nontrivial(crate::rng::mix(crate::rng::fnv64(data), at ^ hole));
    let what = format!("generated {} ({} bytes) with a hole of {hole:#x} zero bytes at {at:#x} [{pname}]", enc.name(), data.len());
    ctx.sample(|| what.clone());
    let slice = match ElfBytes::<AnyEndian>::minimal_parse(data) {
        Ok(s) => s,
        Err(_) => return,
    };
    let mut stream = match ElfStream::<AnyEndian, MonReader>::open_stream(reader) {
        Ok(s) => s,
        Err(e) => {
            ctx.violation("sparse:open-fails", format!("{what}: the slice parser opens the original file but open_stream fails on the relocated stream: {e:?}"));
            return;
        }
    };
    ctx.count("sparse:streams-judged");
    let mut queries: Vec<Query> = vec![Query::SymbolTable, Query::DynSymbolTable, Query::Dynamic, Query::SymVer];
    for i in 0..r.shnum().min(40) {
        queries.push(Query::SectionData(i));
        if let Some(sh) = r.shdr(i) {
            let t = sh.get("sh_type");
            if t == k::SHT_STRTAB as u64 {
                queries.push(Query::AsStrtab(i));
            } else if t == k::SHT_REL as u64 {
                queries.push(Query::AsRels(i));
            } else if t == k::SHT_RELA as u64 {
                queries.push(Query::AsRelas(i));
            } else if t == k::SHT_NOTE as u64 {
                queries.push(Query::AsNotes(i));
            }
        }
    }
    for j in 0..r.phnum().min(8) {
        queries.push(Query::SegmentNotes(j));
    }
    ctx.rng.shuffle(&mut queries);
    for (i, q) in queries.iter().enumerate() {
        ctx.eval();
        if touches_compressed(&r, q) {
            continue;
        }
        let a = obs_slice(&slice, q);
        let b2 = obs_stream(&mut stream, q, &mut ApiTag { h: &handle, api: i as u32 + 1 });
        match (&a, &b2) {
            (Ok(x), Ok(y)) if x == y => ctx.count("sparse:content-queries-equal"),
            (Err(_), Err(_)) => ctx.count("sparse:both-err"),
            (Err(_), Ok(_)) if !exact_coincidence(q) => ctx.count("sparse:slice-err-stream-ok(allowed)"),
            _ => {
                ctx.violation(&format!("sparse:{}:differs", q.label()), format!("{what}: {:?}: slice on the original file {} vs stream {}", q, trunc(&a), trunc(&b2)));
                return;
            }
        }
    }
}

fn run(ctx: &mut Ctx, si: usize, case: u64) {
    let enc = Enc::ALL[ctx.rng.usize_below(4)];
    match si {
        4 => sparse_case(ctx, enc),
        0 => {
            let mut o = GenOpts::unmodelled();
            o.max_syms = 10;
            o.density = 6;
            let (spec, _) = gen_object(&mut ctx.rng, enc, &o);
            let mut b = build(&spec, &mut ctx.rng);
            let enc_log = if ctx.rng.chance(1, 6) { mutate::extended_encoding(&mut ctx.rng, &mut b) } else { Vec::new() };
            judge_file(ctx, &b.bytes, &format!("generated {} {:?}", enc.name(), enc_log), 40);
        }
        1 => {
            let s = seeds();
            if s.is_empty() {
                ctx.inconclusive("no sample objects found".to_string());
                return;
            }
            let (name, bytes) = &s[(case as usize) % s.len()];
            judge_file(ctx, bytes, &format!("seed {name}"), 40);
        }
        3 => {
            let mut o = GenOpts::unmodelled();
            o.max_syms = 6;
            o.density = 7;
            o.weird_views = ctx.rng.bool();
            let (mut spec, _) = gen_object(&mut ctx.rng, enc, &o);
            let extra = 60 + ctx.rng.usize_below(90);
            for i in 0..extra {
                let l = 1 + ctx.rng.usize_below(4);
                let body = ctx.rng.bytes(l);
                spec.add(crate::gen::elf::Sec::new(format!(".x{i}").as_bytes(), k::SHT_PROGBITS, body));
            }
            let b = build(&spec, &mut ctx.rng);
            judge_file(ctx, &b.bytes, &format!("generated {} with {} sections", enc.name(), b.shnum), 300);
        }
        _ => {
            let kind = ctx.rng.below(6);
            let (bytes, what) = match kind {
                5 => {
                    // the shared hostile corpus (adversarial hash chains, overlapping version records, huge notes, header
                    // link rings, mutated seeds): whatever the slice parser makes of them, the stream parser must too
                    let k = ctx.rng.below(crate::corpus::KINDS);
                    let input = crate::corpus::gen_input(&mut ctx.rng, k, false);
                    ctx.count("files-from-the-hostile-corpus");
                    (input.bytes, input.what)
                }
                0 | 1 | 2 => {
                    let (spec, _) = gen_object(&mut ctx.rng, enc, &GenOpts::unmodelled());
                    let mut b = build(&spec, &mut ctx.rng);
                    let n = 1 + ctx.rng.usize_below(3);
                    let mut log = if kind == 2 { let k = 1 + ctx.rng.usize_below(4); mutate::maximize_ranges(&mut ctx.rng, &mut b, k) } else { Vec::new() };
                    log.extend(mutate::structured(&mut ctx.rng, &mut b, if kind == 2 { 0 } else { n }));
                    if ctx.rng.chance(1, 8) {
                        log.extend(mutate::alias_tables(&mut ctx.rng, &mut b));
                    }
                    (b.bytes, format!("generated {} + {:?}", enc.name(), log))
                }
                3 => {
                    let (spec, _) = gen_object(&mut ctx.rng, enc, &GenOpts::unmodelled());
                    let mut b = build(&spec, &mut ctx.rng);
                    let n = 1 + ctx.rng.usize_below(6);
                    mutate::byteflips(&mut ctx.rng, &mut b.bytes, n);
                    if ctx.rng.chance(1, 3) {
                        mutate::truncate(&mut ctx.rng, &mut b.bytes);
                    }
                    (b.bytes, format!("generated {} + flips/truncation", enc.name()))
                }
                _ => {
                    let l = ctx.rng.usize_below(400);
                    (mutate::random_with_ident(&mut ctx.rng, enc, l), format!("random bytes behind a valid {} ident", enc.name()))
                }
            };
            judge_file(ctx, &bytes, &what, 24);
        }
    }
}

//! Helpers shared by the file-level property modules.
use crate::codec::{size_of, Enc, Rec, St};
use crate::reference::structs::{mismatch, Fields};
use elf::endian::AnyEndian;
use elf::string_table::StringTable;
use elf::ElfBytes;
#[cfg(feature = "elf_std")]
use elf::ElfStream;
#[cfg(feature = "elf_std")]
use std::io::Cursor;

#[cfg(feature = "elf_std")]
pub type Stream<'a> = ElfStream<AnyEndian, Cursor<&'a [u8]>>;

pub fn open_slice(data: &[u8]) -> Result<ElfBytes<'_, AnyEndian>, String> {
    ElfBytes::<AnyEndian>::minimal_parse(data).map_err(|e| format!("{e:?}"))
}

/// A cursor over the bytes that stands at position 0 half of the time and anywhere else (also at or past the end)
/// otherwise — e.g. where an earlier open attempt with another byte-order spec left the same reader. Deterministic
/// per (content, call count).
#[cfg(feature = "elf_std")]
pub fn cursor_anywhere(data: &[u8]) -> Cursor<&[u8]> {
    use std::cell::Cell;
    thread_local! { static N: Cell<u64> = const { Cell::new(0) }; }
    let n = N.with(|c| { let v = c.get(); c.set(v.wrapping_add(1)); v });
    let h = crate::rng::mix(crate::rng::fnv64(&data[..data.len().min(64)]) ^ data.len() as u64, n);
    let mut c = Cursor::new(data);
    if h & 1 == 1 {
        let p = match (h >> 1) % 4 { 0 => 16, 1 => data.len() as u64, 2 => data.len() as u64 + 1 + (h >> 8) % 7, _ => (h >> 8) % (data.len() as u64 + 1) };
        c.set_position(p);
    }
    c
}

#[cfg(feature = "elf_std")]
pub fn open_stream(data: &[u8]) -> Result<Stream<'_>, String> {
    ElfStream::<AnyEndian, _>::open_stream(cursor_anywhere(data)).map_err(|e| format!("{e:?}"))
}

/// Everything observable of a string table: the strings at every string start, walking
/// from offset 0; compared with the reference bytes. Returns a mismatch description.
pub fn strtab_mismatch(st: &StringTable<'_>, bytes: &[u8]) -> Option<String> {
    let mut off = 0usize;
    let mut guard = 0;
    while off < bytes.len() {
        let rest = &bytes[off..];
        let exp = rest.iter().position(|b| *b == 0).map(|e| &rest[..e]);
        match (exp, st.get_raw(off)) {
            (Some(e), Ok(g)) => {
                if e != g {
                    return Some(format!("string at {off}: {:?} != {:?}", g, e));
                }
                off += e.len() + 1;
            }
            (None, Err(_)) => break,
            (e, g) => return Some(format!("string at {off}: got {:?}, expected {:?}", g.map(|b| b.len()), e.map(|b| b.len()))),
        }
        guard += 1;
        if guard > 1 << 20 {
            break;
        }
    }
    // one past the end must fail
    if st.get_raw(bytes.len()).is_ok() {
        return Some(format!("get_raw({}) (one past the table) succeeded", bytes.len()));
    }
    None
}

/// Compare entries of a lazily parsed table / Vec with the reference decode of `data` at
/// `off + i*entsize`; `idxs` selects which entries.
pub fn entries_mismatch<P: Fields, F: Fn(usize) -> Option<P>>(enc: Enc, data: &[u8], off: usize, idxs: &[usize], get: F) -> Option<String> {
    let es = size_of(P::ST, enc.c64);
    for &i in idxs {
        let rec = match Rec::decode(P::ST, enc, data, off + i * es) {
            Some(r) => r,
            None => return Some(format!("reference cannot decode entry {i}")),
        };
        match get(i) {
            Some(p) => {
                if let Some(m) = mismatch(&p.fields(), &rec) {
                    return Some(format!("{} entry {i}: {m}", P::NAME));
                }
            }
            None => return Some(format!("{} entry {i} not available", P::NAME)),
        }
    }
    None
}

/// indices to compare: all for small tables, else first/last and a seeded sample
pub fn sample_indices(rng: &mut crate::rng::Rng, n: usize) -> Vec<usize> {
    if n <= 512 {
        return (0..n).collect();
    }
    let mut v: Vec<usize> = (0..8).collect();
    v.extend(n - 8..n);
    for _ in 0..64 {
        v.push(rng.usize_below(n));
    }
    v
}

pub fn st_of<P: Fields>() -> St {
    P::ST
}

/// The std `Iterator` protocol on a crate iterator: whatever entry point drives it (`nth`, `skip`, `step_by`,
/// `last`, `count`, polling after the end), the items must be those that plain `next()` yields. `make` creates a
/// fresh iterator over the same data and must return the crate's iterator itself (std adaptors such as `map` do not
/// forward `nth`); `show` renders an item. Returns false after reporting a violation.
pub fn iter_protocol<T, I: Iterator<Item = T>, F: Fn() -> I, S: Fn(T) -> String>(ctx: &mut crate::ctx::Ctx, label: &str, make: F, show: S, cap: usize, stays_exhausted: bool) -> bool {
    let base: Vec<String> = make().take(cap + 1).map(|x| show(x)).collect();
    if base.len() > cap {
        return true; // not drained within the cap: nothing to compare against
    }
    let n = base.len();
    ctx.count("iterator-protocol:iterators");
    let fail = |ctx: &mut crate::ctx::Ctx, what: String| {
        ctx.violation(&format!("{label}:iterator-protocol"), format!("{label} ({n} items by next()): {what}"));
        false
    };
    let (lo, hi) = make().size_hint();
    if lo > n || hi.map(|h| h < n).unwrap_or(false) {
        return fail(ctx, format!("size_hint ({lo}, {hi:?}) excludes the actual count"));
    }
    let mut ks = vec![0usize, 1, 2, n / 2, n.saturating_sub(1), n, n + 1];
    ks.sort();
    ks.dedup();
    for &k in &ks {
        ctx.eval();
        let got = make().nth(k).map(|x| show(x));
        if got.as_ref() != base.get(k) {
            return fail(ctx, format!("fresh nth({k}) = {:?}, next()-order item is {:?}", got, base.get(k)));
        }
        // a used iterator: next() first, then nth(k), then next() again (never polled after a None unless the
        // iterator is one that must stay exhausted)
        if n == 0 && !stays_exhausted {
            continue;
        }
        let mut it = make();
        let first = it.next().map(|x| show(x));
        if first.as_ref() != base.first() {
            return fail(ctx, "first next() is unstable".to_string());
        }
        let got = it.nth(k).map(|x| show(x));
        if got.as_ref() != base.get(1 + k) {
            return fail(ctx, format!("next(); nth({k}) = {:?}, expected item {} = {:?}", got, 1 + k, base.get(1 + k)));
        }
        let after = it.next().map(|x| show(x));
        let want_after = base.get(2 + k);
        if (1 + k < n || stays_exhausted) && after.as_ref() != want_after {
            return fail(ctx, format!("next(); nth({k}); next() = {:?}, expected item {} = {:?}", after, 2 + k, want_after));
        }
        let got: Vec<String> = make().skip(k).take(cap + 1).map(|x| show(x)).collect();
        if got[..] != base[k.min(n)..] {
            return fail(ctx, format!("skip({k}) yields {} items, expected {}", got.len(), n - k.min(n)));
        }
    }
    for step in [2usize, 3] {
        let got: Vec<String> = make().step_by(step).take(cap + 1).map(|x| show(x)).collect();
        let want: Vec<&String> = base.iter().step_by(step).collect();
        if got.len() != want.len() || got.iter().zip(want.iter()).any(|(a, b)| &a != b) {
            return fail(ctx, format!("step_by({step}) yields {} items {:?}…, expected {}", got.len(), got.iter().take(3).collect::<Vec<_>>(), want.len()));
        }
    }
    let last = make().last().map(|x| show(x));
    if last.as_ref() != base.last() {
        return fail(ctx, format!("last() = {:?}, expected {:?}", last, base.last()));
    }
    if make().count() != n {
        return fail(ctx, format!("count() = {}", make().count()));
    }
    if stays_exhausted {
        let mut it = make();
        let none = it.nth(n);
        let again = it.next();
        if none.is_some() || again.is_some() {
            return fail(ctx, format!("nth({n}) past the end = {:?}, then next() = {:?}", none.map(|x| show(x)), again.map(|x| show(x))));
        }
    }
    true
}

/// Integer literals (>= 4096) that occur in the crate's current sources outside the constant tables, plus a fixed pool
/// of round sizes: thresholds at which code that works "in pieces" (buffers, chunks, limits) changes behaviour. Workloads
/// derive counts and sizes from them (multiples of floor(L / entry size), L itself, L +- 1).
pub fn size_thresholds() -> &'static [u64] {
    static POOL: std::sync::OnceLock<Vec<u64>> = std::sync::OnceLock::new();
    POOL.get_or_init(|| {
        let mut v: Vec<u64> = (12..=22).map(|k| 1u64 << k).collect();
        v.extend([10_000, 100_000, 1_000_000, 500_000, 65_535, 65_536 + 4096]);
        #[cfg(not(miri))]
        if let Ok(rd) = std::fs::read_dir("/repo/src") {
            for e in rd.flatten() {
                let p = e.path();
                if p.extension().map(|x| x != "rs").unwrap_or(true) || p.file_name().map(|n| n == "abi.rs" || n == "to_str.rs").unwrap_or(true) {
                    continue;
                }
                if let Ok(text) = std::fs::read_to_string(&p) {
                    v.extend(int_literals(&text).into_iter().filter(|x| (4096..=(1 << 26)).contains(x)));
                }
            }
        }
        v.sort_unstable();
        v.dedup();
        v
    })
}

/// decimal and 0x literals of a Rust source text (underscores allowed; suffixes ignored)
pub fn int_literals(text: &str) -> Vec<u64> {
    let b = text.as_bytes();
    let mut out = Vec::new();
    let mut i = 0;
    while i < b.len() {
        let c = b[i];
        let prev_ident = i > 0 && (b[i - 1].is_ascii_alphanumeric() || b[i - 1] == b'_' || b[i - 1] == b'.');
        if c.is_ascii_digit() && !prev_ident {
            let (radix, mut j) = if c == b'0' && i + 1 < b.len() && (b[i + 1] == b'x' || b[i + 1] == b'X') { (16, i + 2) } else { (10, i) };
            let mut val: u128 = 0;
            let mut any = false;
            while j < b.len() {
                let d = b[j];
                if d == b'_' {
                    j += 1;
                    continue;
                }
                match (d as char).to_digit(radix) {
                    Some(x) => {
                        val = val.saturating_mul(radix as u128).saturating_add(x as u128);
                        any = true;
                        j += 1;
                    }
                    None => break,
                }
            }
            if any && val <= u64::MAX as u128 {
                out.push(val as u64);
            }
            // skip a type suffix / the rest of the token
            while j < b.len() && (b[j].is_ascii_alphanumeric() || b[j] == b'_') {
                j += 1;
            }
            i = j.max(i + 1);
        } else {
            i += 1;
        }
    }
    out
}

/// Length of the per-process huge buffer: just over 4 GiB.
/// 2^32 as a usize (0 on 32-bit targets, where none of the beyond-4-GiB strata run)
pub const G4: usize = (1u64 << 32) as usize;
pub const HUGE_LEN: usize = G4.wrapping_add(1 << 20);

/// Run `f` over a zero-filled slice longer than 4 GiB (native 64-bit only; one buffer per worker process, mapped
/// lazily, so only the pages a case writes cost memory). `f` must restore every byte it wrote to zero (use `Touched`).
#[cfg(all(target_pointer_width = "64", not(miri)))]
pub fn with_huge_buffer<R, F: FnOnce(&mut [u8]) -> R>(f: F) -> Option<R> {
    use std::cell::RefCell;
    thread_local! { static BUF: RefCell<Option<Vec<u8>>> = const { RefCell::new(None) }; }
    BUF.with(|b| {
        let mut b = b.borrow_mut();
        if b.is_none() {
            *b = Some(crate::monitor::alloc::huge_zeroed(HUGE_LEN));
        }
        Some(f(&mut b.as_mut().unwrap()[..]))
    })
}

#[cfg(not(all(target_pointer_width = "64", not(miri))))]
pub fn with_huge_buffer<R, F: FnOnce(&mut [u8]) -> R>(_f: F) -> Option<R> {
    None
}

/// Byte-order specifications written by a *user* of the crate: `EndianParse` is a public trait whose integer readers
/// are provided methods, so a downstream type only supplies `from_ei_data` and `is_little` and inherits the rest.
/// Decoding through such a type must be what the built-in specs give.
#[derive(Clone, Copy, Debug, Default, PartialEq, Eq)]
pub struct UserBig;
#[derive(Clone, Copy, Debug, Default, PartialEq, Eq)]
pub struct UserLittle;

impl elf::endian::EndianParse for UserBig {
    fn from_ei_data(ei_data: u8) -> Result<Self, elf::parse::ParseError> {
        if ei_data == elf::abi::ELFDATA2MSB { Ok(UserBig) } else { Err(elf::parse::ParseError::UnsupportedElfEndianness(ei_data)) }
    }
    fn is_little(self) -> bool {
        false
    }
}

impl elf::endian::EndianParse for UserLittle {
    fn from_ei_data(ei_data: u8) -> Result<Self, elf::parse::ParseError> {
        if ei_data == elf::abi::ELFDATA2LSB { Ok(UserLittle) } else { Err(elf::parse::ParseError::UnsupportedElfEndianness(ei_data)) }
    }
    fn is_little(self) -> bool {
        true
    }
}

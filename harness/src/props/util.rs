//! Helpers shared by the file-level property modules.
use crate::codec::{size_of, Enc, Rec, St};
use crate::reference::structs::{mismatch, Fields};
use elf::endian::AnyEndian;
use elf::string_table::StringTable;
use elf::{ElfBytes, ElfStream};
use std::io::Cursor;

pub type Stream<'a> = ElfStream<AnyEndian, Cursor<&'a [u8]>>;

pub fn open_slice(data: &[u8]) -> Result<ElfBytes<'_, AnyEndian>, String> {
    ElfBytes::<AnyEndian>::minimal_parse(data).map_err(|e| format!("{e:?}"))
}

pub fn open_stream(data: &[u8]) -> Result<Stream<'_>, String> {
    ElfStream::<AnyEndian, _>::open_stream(Cursor::new(data)).map_err(|e| format!("{e:?}"))
}

/// Everything observable of a string table: the strings at every string start, walking
/// from offset 0; compared with the reference bytes. Returns a mismatch description.
pub fn strtab_mismatch(st: &StringTable<'_>, bytes: &[u8]) -> Option<String> {
    let mut off = 0usize;
    let mut guard = 0;
    while off < bytes.len() {
        let rest = &bytes[off..];
        let exp = rest.iter().position(|b| *b == 0).map(|e| &rest[..e]);
        match (exp, st.get_raw(off)) {
            (Some(e), Ok(g)) => {
                if e != g {
                    return Some(format!("string at {off}: {:?} != {:?}", g, e));
                }
                off += e.len() + 1;
            }
            (None, Err(_)) => break,
            (e, g) => return Some(format!("string at {off}: got {:?}, expected {:?}", g.map(|b| b.len()), e.map(|b| b.len()))),
        }
        guard += 1;
        if guard > 1 << 20 {
            break;
        }
    }
    // one past the end must fail
    if st.get_raw(bytes.len()).is_ok() {
        return Some(format!("get_raw({}) (one past the table) succeeded", bytes.len()));
    }
    None
}

/// Compare entries of a lazily parsed table / Vec with the reference decode of `data` at
/// `off + i*entsize`; `idxs` selects which entries.
pub fn entries_mismatch<P: Fields, F: Fn(usize) -> Option<P>>(enc: Enc, data: &[u8], off: usize, idxs: &[usize], get: F) -> Option<String> {
    let es = size_of(P::ST, enc.c64);
    for &i in idxs {
        let rec = match Rec::decode(P::ST, enc, data, off + i * es) {
            Some(r) => r,
            None => return Some(format!("reference cannot decode entry {i}")),
        };
        match get(i) {
            Some(p) => {
                if let Some(m) = mismatch(&p.fields(), &rec) {
                    return Some(format!("{} entry {i}: {m}", P::NAME));
                }
            }
            None => return Some(format!("{} entry {i} not available", P::NAME)),
        }
    }
    None
}

/// indices to compare: all for small tables, else first/last and a seeded sample
pub fn sample_indices(rng: &mut crate::rng::Rng, n: usize) -> Vec<usize> {
    if n <= 512 {
        return (0..n).collect();
    }
    let mut v: Vec<usize> = (0..8).collect();
    v.extend(n - 8..n);
    for _ in 0..64 {
        v.push(rng.usize_below(n));
    }
    v
}

pub fn st_of<P: Fields>() -> St {
    P::ST
}

//! C16 — every lookup and iteration terminates within work bounded by the input size.
//!
//! Logical oracle: the in-crate step counter. Every query runs under a budget derived from
//! the input size (64n+4096 steps, n^2/8 on top for symbol-version queries); exceeding it
//! raises the hook's panic, which is caught and reported with the input. Iterators are
//! additionally checked against their item bounds. Wall time is recorded; only a query that
//! twice takes > 30 s on an input <= 64 KiB is reported.
use super::c09::class_of;
use super::{scale, st, PropDef, Stratum};
use crate::codec::Enc;
use crate::corpus::{gen_input, KINDS};
use crate::ctx::{hex_trunc, Ctx, Tier};
use crate::gen::adversarial::{self, HashCase, VerCase};
use crate::monitor::panic::{guard, PanicKind, PanicReport};
use crate::monitor::steps;
use crate::walk::{linear_budget, quadratic_budget, walk_file, walk_standalone, Sink};
use elf::endian::{AnyEndian, BigEndian, EndianParse, LittleEndian};
use elf::file::Class;
use elf::gnu_symver::{SymbolVersionTable, VerDefIterator, VerNeedIterator, VersionIndexTable};
use elf::hash::{GnuHashTable, SysVHashTable};
use elf::note::NoteIterator;
use elf::parse::ParsingTable;
use elf::string_table::StringTable;
use elf::symbol::Symbol;
use std::time::Instant;

pub const DEF: PropDef = PropDef { id: "C16", strata, run, setup, canaries: &["panic", "steps"] };

fn setup(ctx: &mut Ctx) {
    ctx.floor("queries-under-budget", 50_000);
    ctx.floor("sysv:cyclic-chain-walked", 200);
    ctx.floor("sysv:self-loop", 20);
    ctx.floor("gnu:no-stop-bit-chain-walked", 200);
    ctx.floor("symver:quadratic-shape", 20);
    ctx.floor("symver:next=0", 20);
    ctx.floor("symver:next-near-2^32", 20);
    ctx.floor("symver:absurd-count", 100);
    ctx.floor("notes:huge-sizes", 100);
    ctx.floor("walker-runs", 500);
    ctx.floor("huge-chain:cycle>65536", 4);
    #[cfg(feature = "elf_std")]
    ctx.floor("stream-files-returned", 2000);
}

/// Every stream query on a corpus input of at most 64 KiB must return (the statement says "within seconds"; the
/// limit here is 30 s of wall clock on one thread). Step budgets cannot see a loop that only walks parsed headers.
#[cfg(feature = "elf_std")]
fn stream_returns(ctx: &mut Ctx) {
    use std::sync::atomic::{AtomicBool, Ordering};
    use std::sync::mpsc::RecvTimeoutError;
    // one hang is a verdict; the stuck thread keeps a core busy, so the rest of this shard's stream cases are skipped
    static HUNG: AtomicBool = AtomicBool::new(false);
    if HUNG.load(Ordering::Relaxed) {
        ctx.count("stream-cases-skipped-after-a-hang");
        return;
    }
    let kind = ctx.rng.below(KINDS);
    let input = gen_input(&mut ctx.rng, kind, false);
    if input.bytes.len() > 65536 {
        return;
    }
    ctx.set_input(&input.bytes);
    ctx.sample(|| format!("{} ({} bytes) through the stream parser", input.what, input.bytes.len()));
    let data = input.bytes.clone();
    let (tx, rx) = std::sync::mpsc::channel::<u64>();
    let h = std::thread::spawn(move || {
        let mut n = 0u64;
        if let Ok(mut s) = elf::ElfStream::<elf::endian::AnyEndian, _>::open_stream(std::io::Cursor::new(&data[..])) {
            let (nsec, nseg) = (s.section_headers().len().min(48), s.segments().len().min(12));
            let names = vec![".dynsym".to_string(), ".absent".to_string(), String::new()];
            for q in crate::observe::full_query_set(nsec, nseg, &names, true) {
                let _ = crate::observe::obs_stream(&mut s, &q, &mut crate::observe::NoMonitor);
                n += 1;
            }
        }
        let _ = tx.send(n);
    });
    match rx.recv_timeout(std::time::Duration::from_secs(WALL_LIMIT_S as u64)) {
        Ok(n) => {
            let _ = h.join();
            ctx.evals(n.max(1));
            ctx.count("stream-files-returned");
            ctx.count_n("stream-queries-returned", n);
        }
        Err(RecvTimeoutError::Timeout) => {
            HUNG.store(true, Ordering::Relaxed);
            ctx.violation("stream:query-did-not-return", format!("the stream parser's queries over {} ({} bytes) did not return within {WALL_LIMIT_S} s", input.what, input.bytes.len()));
        }
        Err(RecvTimeoutError::Disconnected) => {
            // the thread panicked: totality is C01/C08's business
            ctx.count("stream-thread-panicked(not-judged)");
        }
    }
}

#[cfg(not(feature = "elf_std"))]
fn stream_returns(_ctx: &mut Ctx) {}

fn strata(t: Tier) -> Vec<Stratum> {
    vec![
        st("adversarial-hash", scale(t, 6_000, 60_000, 64)),
        st("adversarial-symver", scale(t, 3_000, 30_000, 128)),
        st("adversarial-notes", scale(t, 3_000, 30_000, 32)),
        st("walker-corpus", scale(t, 10_000, 100_000, 8)),
        st("worst-case-64KiB", scale(t, 16, 160, 0)),
        // chains and cycles longer than 2^16 entries (megabyte-sized tables)
        st("huge-chains", scale(t, 16, 64, 0)),
        // the stream parser's queries over the same corpus, each file on its own thread under a wall-clock limit:
        // loops that do no integer reads (over already parsed headers) are invisible to the step counter
        st("stream-queries-return", scale(t, 6_000, 60_000, 0)),
    ]
}

const WALL_LIMIT_S: f64 = 30.0;

/// Run one query under a step budget; report a cut (violation) or record its cost.
pub fn budgeted<T, F: FnMut() -> T>(ctx: &mut Ctx, label: &str, n: u64, quadratic: bool, input: &[u8], mut f: F) -> Option<T> {
    let budget = if quadratic { quadratic_budget(n) } else { linear_budget(n) };
    ctx.eval();
    steps::reset(budget);
    let t0 = Instant::now();
    let r = guard(|| f());
    let used = steps::steps();
    let wall = t0.elapsed().as_secs_f64();
    steps::reset(u64::MAX);
    match r {
        Ok(v) => {
            ctx.count("queries-under-budget");
            ctx.maxv(if quadratic { "max-steps:quadratic-kind" } else { "max-steps:linear-kind" }, used);
            ctx.maxv("max-fraction-of-budget-used-x1000", used.saturating_mul(1000) / budget.max(1));
            if n >= 256 {
                ctx.maxv(if quadratic { "max-steps-per-n^2-x1000:quadratic-kind" } else { "max-steps-per-byte-x1000:linear-kind" }, if quadratic { used.saturating_mul(1000) / (n * n).max(1) } else { used.saturating_mul(1000) / n });
            }
            ctx.maxv("max-wall-us", (wall * 1e6) as u64);
            if wall > WALL_LIMIT_S && n <= 65536 {
                // re-run alone before reporting, so that machine load cannot produce an alarm
                std::thread::sleep(std::time::Duration::from_secs(1));
                let t1 = Instant::now();
                let _ = guard(|| f());
                if t1.elapsed().as_secs_f64() > WALL_LIMIT_S {
                    ctx.set_input(input);
                    ctx.violation(&format!("wall:{label}"), format!("{label} on a {n}-byte input took {:.1}s and {:.1}s on re-run", wall, t1.elapsed().as_secs_f64()));
                }
            }
            Some(v)
        }
        Err(PanicReport { kind: PanicKind::Budget, .. }) => {
            ctx.set_input(input);
            ctx.violation(&format!("steps:{label}"), format!("{label} on a {n}-byte input exceeded its budget of {budget} integer reads ({}); cut by the step monitor", if quadratic { "n^2/8+64n+4096" } else { "64n+4096" }));
            None
        }
        Err(p) if p.kind == PanicKind::Harness => {
            ctx.inconclusive(format!("harness panic at {}:{}: {}", p.file, p.line, p.msg));
            None
        }
        Err(p) => {
            // a panic is C01's finding; here it only prevents judging this query
            ctx.count("query-panicked(C01)");
            ctx.inconclusive(format!("crate panic during {label}: {} at {}:{}", p.msg, p.file, p.line));
            None
        }
    }
}

fn items_bound(ctx: &mut Ctx, label: &str, items: u64, bound: u64, input: &[u8]) {
    ctx.maxv("max-iter-items", items);
    if items > bound {
        ctx.set_input(input);
        ctx.violation(&format!("items:{label}"), format!("{label} yielded {items} items, bound {bound}"));
    }
}

fn hash_case<E: EndianParse>(ctx: &mut Ctx, e: E, enc: Enc, h: &HashCase, gnu: bool) {
    let class = class_of(enc);
    let n = (h.hash.len() + h.symtab.len() + h.strtab.len()) as u64;
    let mut input = h.hash.clone();
    input.extend_from_slice(&h.symtab);
    input.extend_from_slice(&h.strtab);
    let symtab = ParsingTable::<E, Symbol>::new(e, class, &h.symtab);
    let strs = StringTable::new(&h.strtab);
    if gnu {
        let t = match GnuHashTable::new(e, class, &h.hash) {
            Ok(t) => t,
            Err(_) => return,
        };
        for q in &h.queries {
            let before = steps_probe();
            let r = budgeted(ctx, "GnuHashTable::find", n, false, &input, || t.find(q, &symtab, &strs).map(|o| o.map(|(i, _)| i)).ok());
            let _ = (before, r);
            ctx.count("gnu:no-stop-bit-chain-walked");
        }
    } else {
        let t = match SysVHashTable::new(e, class, &h.hash) {
            Ok(t) => t,
            Err(_) => return,
        };
        for q in &h.queries {
            let _ = budgeted(ctx, "SysVHashTable::find", n, false, &input, || t.find(q, &symtab, &strs).map(|o| o.map(|(i, _)| i)).ok());
            ctx.count("sysv:cyclic-chain-walked");
        }
    }
}

fn steps_probe() -> u64 {
    steps::steps()
}

fn ver_case<E: EndianParse>(ctx: &mut Ctx, e: E, enc: Enc, v: &VerCase) {
    let class = class_of(enc);
    let n = (v.versym.len() + v.verneed.len() + v.verdef.len() + v.strtab.len()) as u64;
    let mut input = v.verneed.clone();
    input.extend_from_slice(&v.verdef);
    let nb = v.verneed.len() as u64;
    // plain drains: at most min(declared count, bytes) records
    let got = budgeted(ctx, "VerNeedIterator(drain)", nb, true, &input, || {
        let mut items = 0u64;
        let mut aux_max = 0u64;
        for (vn, aux) in VerNeedIterator::new(e, class, v.need_count, 0, &v.verneed) {
            items += 1;
            let mut k = 0u64;
            for _ in aux {
                k += 1;
            }
            if k > (vn.vn_cnt as u64) {
                aux_max = u64::MAX;
            }
            aux_max = aux_max.max(k);
            if items > nb + 2 {
                break;
            }
        }
        (items, aux_max)
    });
    if let Some((items, aux_max)) = got {
        items_bound(ctx, "VerNeedIterator", items, v.need_count.min(nb), &input);
        if aux_max == u64::MAX {
            ctx.violation("items:VerNeedAuxIterator", "an aux iterator yielded more records than vn_cnt".to_string());
        } else {
            items_bound(ctx, "VerNeedAuxIterator", aux_max, 0xffff.min(nb), &input);
        }
    }
    let db = v.verdef.len() as u64;
    let got = budgeted(ctx, "VerDefIterator(drain)", db, true, &input, || {
        let mut items = 0u64;
        let mut aux_max = 0u64;
        for (vd, aux) in VerDefIterator::new(e, class, v.def_count, 0, &v.verdef) {
            items += 1;
            let mut k = 0u64;
            for _ in aux {
                k += 1;
            }
            if k > (vd.vd_cnt as u64) {
                aux_max = u64::MAX;
            }
            aux_max = aux_max.max(k);
            if items > db + 2 {
                break;
            }
        }
        (items, aux_max)
    });
    if let Some((items, aux_max)) = got {
        items_bound(ctx, "VerDefIterator", items, v.def_count.min(db), &input);
        if aux_max == u64::MAX {
            ctx.violation("items:VerDefAuxIterator", "an aux iterator yielded more records than vd_cnt".to_string());
        } else {
            items_bound(ctx, "VerDefAuxIterator", aux_max, 0xffff.min(db), &input);
        }
    }
    // the queries
    let strs = StringTable::new(&v.strtab);
    let table = SymbolVersionTable::new(
        VersionIndexTable::new(e, class, &v.versym),
        Some((VerNeedIterator::new(e, class, v.need_count, 0, &v.verneed), strs)),
        Some((VerDefIterator::new(e, class, v.def_count, 0, &v.verdef), strs)),
    );
    let nsym = v.versym.len() / 2;
    for i in [0usize, 1, nsym / 2, nsym.saturating_sub(1)] {
        let _ = budgeted(ctx, "SymbolVersionTable::get_requirement", n, true, &input, || table.get_requirement(i).map(|o| o.is_some()).ok());
        let _ = budgeted(ctx, "SymbolVersionTable::get_definition", n, true, &input, || {
            table.get_definition(i).ok().flatten().map(|d| {
                let mut k = 0u64;
                for _ in d.names {
                    k += 1;
                    if k > n + 2 {
                        break;
                    }
                }
                k
            })
        });
    }
}

fn by_spec<F: FnMut(&mut Ctx, u8)>(ctx: &mut Ctx, enc: Enc, any: bool, mut f: F) {
    // 0 = AnyEndian::Little, 1 = AnyEndian::Big, 2 = LittleEndian, 3 = BigEndian
    let which = match (any, enc.big) {
        (true, false) => 0,
        (true, true) => 1,
        (false, false) => 2,
        (false, true) => 3,
    };
    f(ctx, which)
}

fn run(ctx: &mut Ctx, si: usize, case: u64) {
    let enc = Enc::ALL[ctx.rng.usize_below(4)];
    let any = ctx.rng.bool();
    let small = ctx.tier == Tier::Miri;
    match si {
        0 => {
            let nsyms = if small { 3 + ctx.rng.usize_below(6) } else { 2 + ctx.rng.usize_below(400) };
            let gnu = ctx.rng.bool();
            let var = ctx.rng.next_u64();
            let h = if gnu {
                adversarial::gnu_nostop(&mut ctx.rng, enc, nsyms, var)
            } else {
                let cyc = match ctx.rng.below(3) {
                    0 => {
                        ctx.count("sysv:self-loop");
                        1
                    }
                    1 => nsyms - 1,
                    _ => 1 + ctx.rng.usize_below(nsyms),
                };
                adversarial::sysv_cycle(&mut ctx.rng, enc, nsyms, cyc, var)
            };
            ctx.nontrivial_bytes(&h.hash);
            ctx.sample(|| format!("{} {} hash={}", enc.name(), h.what, hex_trunc(&h.hash, 32)));
            by_spec(ctx, enc, any, |ctx, w| match w {
                0 => hash_case(ctx, AnyEndian::Little, enc, &h, gnu),
                1 => hash_case(ctx, AnyEndian::Big, enc, &h, gnu),
                2 => hash_case(ctx, LittleEndian, enc, &h, gnu),
                _ => hash_case(ctx, BigEndian, enc, &h, gnu),
            });
        }
        1 => {
            let total = if small { 64 + ctx.rng.usize_below(64) } else { 64 + ctx.rng.usize_below(4000) };
            let var = ctx.rng.below(8);
            let v = adversarial::ver_overlap(&mut ctx.rng, enc, total, var);
            match var {
                0 | 1 => ctx.count("symver:quadratic-shape"),
                2 => ctx.count("symver:next=0"),
                5 => ctx.count("symver:next-near-2^32"),
                6 => ctx.count("symver:small-declared-counts"),
                _ => {}
            }
            if v.need_count >= 0xffff {
                ctx.count("symver:absurd-count");
            }
            ctx.nontrivial_bytes(&v.verneed);
            ctx.sample(|| format!("{} {} ({} bytes per section)", enc.name(), v.what, total));
            by_spec(ctx, enc, any, |ctx, w| match w {
                0 => ver_case(ctx, AnyEndian::Little, enc, &v),
                1 => ver_case(ctx, AnyEndian::Big, enc, &v),
                2 => ver_case(ctx, LittleEndian, enc, &v),
                _ => ver_case(ctx, BigEndian, enc, &v),
            });
        }
        2 => {
            let (nb, al) = adversarial::huge_notes(&mut ctx.rng, enc);
            ctx.count("notes:huge-sizes");
            ctx.nontrivial_bytes(&nb);
            ctx.sample(|| format!("{} notes {} align {al:#x}", enc.name(), hex_trunc(&nb, 48)));
            let n = nb.len() as u64;
            let class = class_of(enc);
            let big = enc.big;
            let got = budgeted(ctx, "NoteIterator(drain)", n, false, &nb, || {
                let mut k = 0u64;
                if big {
                    for _ in NoteIterator::new(BigEndian, class, al as usize, &nb) {
                        k += 1;
                        if k > n + 2 {
                            break;
                        }
                    }
                } else {
                    for _ in NoteIterator::new(LittleEndian, class, al as usize, &nb) {
                        k += 1;
                        if k > n + 2 {
                            break;
                        }
                    }
                }
                k
            });
            if let Some(k) = got {
                items_bound(ctx, "NoteIterator", k, n, &nb);
            }
            // ragged entry tables stop at the end of their bytes
            let l = ctx.rng.usize_below(200);
            let raw = ctx.rng.bytes(l);
            let got = budgeted(ctx, "ParsingTable<Symbol>::iter(drain)", l as u64, false, &raw, || ParsingTable::<LittleEndian, Symbol>::new(LittleEndian, Class::ELF64, &raw).iter().take(l + 3).count() as u64);
            if let Some(k) = got {
                items_bound(ctx, "ParsingTable<Symbol>::iter", k, l as u64, &raw);
            }
        }
        6 => stream_returns(ctx),
        3 => {
            // the walker over the shared corpus: every query under its budget, every drained iterator bounded
            let kind = ctx.rng.below(KINDS);
            let input = gen_input(&mut ctx.rng, kind, small);
            ctx.set_input(&input.bytes);
            ctx.count("walker-runs");
            ctx.sample(|| format!("{} ({} bytes)", input.what, input.bytes.len()));
            let salt = ctx.rng.next_u64();
            walk_one(ctx, &input.bytes, &input.what, salt, if small { 96 } else { 500 });
        }
        5 => {
            let nsyms = [65_537usize + 10, 70_000, 131_073, 66_000][ctx.rng.usize_below(4)];
            let gnu = ctx.rng.chance(1, 3);
            let h = if gnu {
                adversarial::gnu_nostop(&mut ctx.rng, enc, nsyms, 0)
            } else {
                let variant = [0u64, 4][ctx.rng.usize_below(2)];
                let cyc = if variant == 0 { nsyms - 1 - ctx.rng.usize_below(10) } else { nsyms - 1 };
                ctx.count("huge-chain:cycle>65536");
                adversarial::sysv_cycle(&mut ctx.rng, enc, nsyms, cyc, variant)
            };
            ctx.nontrivial(crate::rng::mix(nsyms as u64, h.hash.len() as u64));
            ctx.sample(|| format!("{} {} (hash section {} bytes, symtab {} bytes)", enc.name(), h.what, h.hash.len(), h.symtab.len()));
            by_spec(ctx, enc, any, |ctx, w| match w {
                0 => hash_case(ctx, AnyEndian::Little, enc, &h, gnu),
                1 => hash_case(ctx, AnyEndian::Big, enc, &h, gnu),
                2 => hash_case(ctx, LittleEndian, enc, &h, gnu),
                _ => hash_case(ctx, BigEndian, enc, &h, gnu),
            });
        }
        _ => {
            // the calibrated worst case at the property's own size limit
            let v = adversarial::ver_overlap(&mut ctx.rng, enc, 65536, case % 2);
            ctx.count("symver:quadratic-shape");
            ctx.count("worst-case-64KiB");
            ctx.nontrivial_bytes(&v.verneed[..256]);
            ctx.sample(|| format!("{} 64 KiB sections: {}", enc.name(), v.what));
            by_spec(ctx, enc, any, |ctx, w| match w {
                0 => ver_case(ctx, AnyEndian::Little, enc, &v),
                1 => ver_case(ctx, AnyEndian::Big, enc, &v),
                2 => ver_case(ctx, LittleEndian, enc, &v),
                _ => ver_case(ctx, BigEndian, enc, &v),
            });
        }
    }
}

/// One walk of the file accessors and of the stand-alone parsers under step budgets and item bounds.
pub fn walk_one(ctx: &mut Ctx, data: &[u8], what: &str, salt: u64, window: usize) {
    let n = data.len() as u64;
    let mut s = Sink::new(n, true, salt);
    let r = guard(|| walk_file::<AnyEndian>(data, &mut s));
    finish_walk(ctx, r, &s, what, data);
    let mut s = Sink::new(n, true, salt);
    let r = if salt & 1 == 0 { guard(|| walk_file::<LittleEndian>(data, &mut s)) } else { guard(|| walk_file::<BigEndian>(data, &mut s)) };
    finish_walk(ctx, r, &s, what, data);
    let w = data.len().min(window);
    let mut s = Sink::new(w as u64, true, salt);
    let class = if salt & 2 == 0 { Class::ELF32 } else { Class::ELF64 };
    let r = guard(|| walk_standalone(AnyEndian::Big, class, &data[..w], &mut s));
    finish_walk(ctx, r, &s, &format!("stand-alone parsers over the first {w} bytes of {what}"), &data[..w]);
    if s.calls > 1 {
        ctx.nontrivial_bytes(data);
    }
}

fn finish_walk(ctx: &mut Ctx, r: Result<(), PanicReport>, s: &Sink, what: &str, data: &[u8]) {
    ctx.evals(s.calls);
    ctx.count_n("queries-under-budget", s.calls);
    ctx.maxv("max-steps:linear-kind", s.max_steps_linear);
    ctx.maxv("max-steps:quadratic-kind", s.max_steps_quadratic);
    ctx.maxv("max-iter-items", s.max_iter_items);
    let n = data.len() as u64;
    ctx.maxv("max-fraction-of-budget-used-x1000", s.max_budget_fraction_x1000);
    if n >= 256 {
        ctx.maxv("max-steps-per-byte-x1000:linear-kind", s.max_steps_linear.saturating_mul(1000) / n);
    }
    match r {
        Ok(()) => {}
        Err(PanicReport { kind: PanicKind::Budget, .. }) => {
            ctx.violation(&format!("steps:{}", s.cur), format!("query `{}` exceeded its step budget on a {}-byte input while walking {}", s.cur, n, what));
        }
        Err(p) if p.kind == PanicKind::Harness => ctx.inconclusive(format!("harness panic at {}:{}: {}", p.file, p.line, p.msg)),
        Err(p) => {
            ctx.count("query-panicked(C01)");
            ctx.inconclusive(format!("crate panic during `{}`: {} at {}:{}", s.cur, p.msg, p.file, p.line));
        }
    }
    if let Some((label, items, bound)) = s.iter_overrun {
        ctx.violation(&format!("items:{label}"), format!("iterator {label} yielded {items} items, bound {bound} (input {n} bytes) while walking {what}"));
    }
    if let Some(label) = s.resurrect {
        ctx.violation(&format!("resurrect:{label}"), format!("entry iterator {label} yielded an item after returning None while walking {what}"));
    }
}

//! C10 — byte-order specs gate files; ident defects are reported as what they are.
use super::c07::{name_queries, smart_pool};
use super::{ex, scale, st, PropDef, Stratum};
use crate::codec::{Enc, Rec, St};
use crate::corpus::seeds;
use crate::ctx::{hex_trunc, Ctx, Tier};
use crate::gen::elf::build;
use crate::gen::object::{gen_object, GenOpts};
use crate::observe::{obs_slice, obs_stream, NoMonitor, Obs};
use crate::reference::locator::{ident_defects, ref_open, IdentDefect};
use elf::endian::{AnyEndian, BigEndian, EndianParse, LittleEndian, NativeEndian};
use elf::file::parse_ident;
use elf::parse::ParseError;
use elf::{ElfBytes, ElfStream};

pub const DEF: PropDef = PropDef { id: "C10", strata, run, setup, canaries: &["panic"] };

fn setup(ctx: &mut Ctx) {
    ctx.floor("single-defect:BadData", 1000);
    ctx.floor("single-defect:BadClass", 1000);
    ctx.floor("single-defect:BadVersion", 1000);
    ctx.floor("single-defect:BadMagic", 1000);
    ctx.floor("multi-defect:must-fail", 500);
    ctx.floor("no-defect:opens", 100);
    ctx.floor("spec:LittleEndian", 1000);
    ctx.floor("spec:BigEndian", 1000);
    ctx.floor("spec:AnyEndian", 1000);
    ctx.floor("spec:NativeEndian", 1000);
    ctx.floor("entry:minimal_parse", 1000);
    ctx.floor("entry:open_stream", 1000);
    ctx.floor("entry:parse_ident", 1000);
    ctx.floor("equiv:files", 200);
    ctx.floor("equiv:queries-equal", 5000);
    ctx.floor("equiv:other-order-refused", 200);
}

// 7 ident positions x 4 encodings; each case sweeps all 256 byte values
fn strata(t: Tier) -> Vec<Stratum> {
    vec![
        ex("ident-byte-sweep", scale(t, 28, 28, 28)),
        st("multi-byte-magic-and-multi-defect", scale(t, 480_000, 4_800_000, 10)),
        st("any-vs-fixed-equivalence", scale(t, 240_000, 2_400_000, 3)),
    ]
}

fn base_file(enc: Enc) -> Vec<u8> {
    // minimal valid file: header only, no tables
    let mut f = vec![0x7f, b'E', b'L', b'F', if enc.c64 { 2 } else { 1 }, if enc.big { 2 } else { 1 }, 1, 0, 0, 0, 0, 0, 0, 0, 0, 0];
    let mut t = Rec::zero(St::EhdrTail, enc.c64);
    t.set("e_type", 3).set("e_machine", 62).set("e_version", 1).set("e_ehsize", if enc.c64 { 64 } else { 52 });
    t.encode(enc, &mut f);
    f
}

#[derive(Debug)]
enum Outcome {
    Ok,
    Err(ParseError),
}

fn run_entry<E: EndianParse>(entry: usize, file: &[u8]) -> Outcome {
    match entry {
        0 => match ElfBytes::<E>::minimal_parse(file) {
            Ok(_) => Outcome::Ok,
            Err(e) => Outcome::Err(e),
        },
        1 => match ElfStream::<E, _>::open_stream(super::util::cursor_anywhere(file)) {
            Ok(_) => Outcome::Ok,
            Err(e) => Outcome::Err(e),
        },
        _ => match parse_ident::<E>(&file[..file.len().min(16)]) {
            Ok(_) => Outcome::Ok,
            Err(e) => Outcome::Err(e),
        },
    }
}

const ENTRIES: [&str; 3] = ["minimal_parse", "open_stream", "parse_ident"];
const SPECS: [&str; 4] = ["LittleEndian", "BigEndian", "AnyEndian", "NativeEndian"];

fn accept_set(spec: usize) -> &'static [u8] {
    match spec {
        0 => &[1],
        1 => &[2],
        2 => &[1, 2],
        _ => {
            if cfg!(target_endian = "big") {
                &[2]
            } else {
                &[1]
            }
        }
    }
}

fn run_spec(spec: usize, entry: usize, file: &[u8]) -> Outcome {
    match spec {
        0 => run_entry::<LittleEndian>(entry, file),
        1 => run_entry::<BigEndian>(entry, file),
        2 => run_entry::<AnyEndian>(entry, file),
        _ => run_entry::<NativeEndian>(entry, file),
    }
}

/// Judge one (file, spec, entry point). `pristine`: apart from the ident the file is valid for `enc`.
fn judge(ctx: &mut Ctx, file: &[u8], spec: usize, entry: usize, pristine_for: Option<Enc>) -> bool {
    ctx.eval();
    ctx.count(&format!("spec:{}", SPECS[spec]));
    ctx.count(&format!("entry:{}", ENTRIES[entry]));
    let defects = ident_defects(file, accept_set(spec));
    let out = run_spec(spec, entry, file);
    let sig = |what: &str| format!("{}:{}:{}", ENTRIES[entry], SPECS[spec], what);
    let describe = || format!("{} with {} on ident {}", ENTRIES[entry], SPECS[spec], hex_trunc(&file[..file.len().min(16)], 16));
    match defects.len() {
        0 => {
            // the ident is fine for this spec; the rest of the file matches only if class/order are the original ones
            let same = pristine_for.map(|e| (file[4] == 2) == e.c64 && (file[5] == 2) == e.big).unwrap_or(false);
            match out {
                Outcome::Ok => {
                    ctx.count("no-defect:opens");
                    true
                }
                Outcome::Err(e) => {
                    let ident_err = matches!(e, ParseError::BadMagic(_) | ParseError::UnsupportedElfClass(_) | ParseError::UnsupportedElfEndianness(_) | ParseError::UnsupportedVersion(_));
                    if same || ident_err || entry == 2 {
                        ctx.set_input(file);
                        ctx.violation(&sig("rejected-valid-ident"), format!("{}: ident has no defect for this spec but the call failed with {e:?}", describe()));
                        return false;
                    }
                    true
                }
            }
        }
        1 => {
            let d = &defects[0];
            let name = match d {
                IdentDefect::BadData(_) => "BadData",
                IdentDefect::BadClass(_) => "BadClass",
                IdentDefect::BadVersion(_) => "BadVersion",
                IdentDefect::BadMagic(_) => "BadMagic",
                IdentDefect::TooShort => "TooShort",
            };
            ctx.count(&format!("single-defect:{name}"));
            let ok = match (&out, d) {
                (Outcome::Err(ParseError::UnsupportedElfEndianness(b)), IdentDefect::BadData(x)) => b == x,
                (Outcome::Err(ParseError::UnsupportedElfClass(b)), IdentDefect::BadClass(x)) => b == x,
                (Outcome::Err(ParseError::UnsupportedVersion((b, _))), IdentDefect::BadVersion(x)) => *b == *x as u64,
                (Outcome::Err(ParseError::BadMagic(m)), IdentDefect::BadMagic(x)) => m == x,
                (Outcome::Err(_), IdentDefect::TooShort) => true,
                _ => false,
            };
            if !ok {
                ctx.set_input(file);
                ctx.violation(&sig(&format!("wrong-report:{name}")), format!("{}: the only defect is {:?} but the call returned {:?}", describe(), d, out));
                return false;
            }
            true
        }
        _ => {
            ctx.count("multi-defect:must-fail");
            if let Outcome::Ok = out {
                ctx.set_input(file);
                ctx.violation(&sig("accepted-defective-ident"), format!("{}: ident has defects {:?} but the call succeeded", describe(), defects));
                return false;
            }
            true
        }
    }
}

fn equal_or_both_err(a: &Obs, b: &Obs) -> bool {
    match (a, b) {
        (Ok(x), Ok(y)) => x == y,
        (Err(_), Err(_)) => true,
        _ => false,
    }
}

fn equivalence<F: EndianParse, O: EndianParse>(ctx: &mut Ctx, data: &[u8], what: &str, fixed_name: &str) {
    ctx.count("equiv:files");
    ctx.set_input(data);
    let any = ElfBytes::<AnyEndian>::minimal_parse(data);
    let fixed = ElfBytes::<F>::minimal_parse(data);
    let other = ElfBytes::<O>::minimal_parse(data);
    ctx.eval();
    match &other {
        Err(ParseError::UnsupportedElfEndianness(b)) if *b == data[5] => ctx.count("equiv:other-order-refused"),
        o => {
            ctx.violation("equiv:other-order-not-refused", format!("{what}: the spec for the other byte order returned {:?} instead of UnsupportedElfEndianness({})", o.as_ref().map(|_| "Ok").map_err(|e| format!("{e:?}")), data[5]));
            return;
        }
    }
    let sother = ElfStream::<O, _>::open_stream(super::util::cursor_anywhere(data));
    if !matches!(&sother, Err(ParseError::UnsupportedElfEndianness(b)) if *b == data[5]) {
        ctx.violation("equiv:stream:other-order-not-refused", format!("{what}: open_stream with the spec for the other byte order did not return UnsupportedElfEndianness({})", data[5]));
        return;
    }
    let (any, fixed) = match (any, fixed) {
        (Ok(a), Ok(f)) => (a, f),
        (Err(_), Err(_)) => return,
        (a, f) => {
            ctx.violation("equiv:open-differs", format!("{what}: AnyEndian open ok={} but {fixed_name} open ok={}", a.is_ok(), f.is_ok()));
            return;
        }
    };
    let Ok(r) = ref_open(data, &[1, 2]) else { return };
    let names = name_queries(&r, &mut ctx.rng, 5);
    let mut pool = smart_pool(&r, &names, &mut ctx.rng, false);
    pool.extend([crate::observe::Query::Ehdr, crate::observe::Query::Shdrs, crate::observe::Query::Phdrs]);
    ctx.nontrivial_bytes(data);
    ctx.sample(|| format!("{what}: {} queries under AnyEndian vs {fixed_name}", pool.len()));
    let mut sany = ElfStream::<AnyEndian, _>::open_stream(super::util::cursor_anywhere(data)).ok();
    let mut sfixed = ElfStream::<F, _>::open_stream(super::util::cursor_anywhere(data)).ok();
    for q in &pool {
        ctx.eval();
        let a = obs_slice(&any, q);
        let f = obs_slice(&fixed, q);
        if !equal_or_both_err(&a, &f) {
            ctx.violation(&format!("equiv:{}:differs", q.label()), format!("{what}: {:?}: AnyEndian {:?} vs {fixed_name} {:?}", q, a.map(|s| s.chars().take(200).collect::<String>()), f.map(|s| s.chars().take(200).collect::<String>())));
            return;
        }
        ctx.count("equiv:queries-equal");
        if q.stream_supported() {
            if let (Some(sa), Some(sf)) = (sany.as_mut(), sfixed.as_mut()) {
                let a = obs_stream(sa, q, &mut NoMonitor);
                let f = obs_stream(sf, q, &mut NoMonitor);
                if !equal_or_both_err(&a, &f) {
                    ctx.violation(&format!("equiv:stream:{}:differs", q.label()), format!("{what}: stream {:?}: AnyEndian {:?} vs {fixed_name} {:?}", q, a.map(|s| s.chars().take(200).collect::<String>()), f.map(|s| s.chars().take(200).collect::<String>())));
                    return;
                }
            }
        }
    }
}

const POSITIONS: [usize; 7] = [5, 4, 6, 0, 1, 2, 3];

fn run(ctx: &mut Ctx, si: usize, case: u64) {
    match si {
        0 => {
            let enc = Enc::ALL[(case % 4) as usize];
            let pos = POSITIONS[((case / 4) as usize) % POSITIONS.len()];
            let base = base_file(enc);
            ctx.sample(|| format!("{} minimal file, ident byte {} set to all 256 values x 4 specs x 3 entry points", enc.name(), pos));
            for v in 0..=255u8 {
                // under Miri a representative subset of the byte values
                if ctx.tier == Tier::Miri && ![0u8, 1, 2, 3, 0x45, 0x46, 0x4c, 0x7e, 0x7f, 0x80, 0xfe, 0xff].contains(&v) {
                    continue;
                }
                let mut f = base.clone();
                f[pos] = v;
                ctx.nontrivial(((enc.idx() as u64) << 24) | ((pos as u64) << 8) | v as u64);
                for spec in 0..4 {
                    for entry in 0..3 {
                        if !judge(ctx, &f, spec, entry, Some(enc)) {
                            return;
                        }
                    }
                }
            }
        }
        1 => {
            let enc = Enc::ALL[ctx.rng.usize_below(4)];
            let mut f = base_file(enc);
            let kind = ctx.rng.below(4);
            match kind {
                0 => {
                    // multi-byte magic corruption
                    let n = 2 + ctx.rng.usize_below(3);
                    for _ in 0..n {
                        let p = ctx.rng.usize_below(4);
                        f[p] = ctx.rng.next_u64() as u8;
                    }
                }
                1 => {
                    // several ident fields at once
                    for p in [4usize, 5, 6] {
                        if ctx.rng.bool() {
                            f[p] = ctx.rng.next_u64() as u8;
                        }
                    }
                    if ctx.rng.bool() {
                        f[ctx.rng.usize_below(4)] ^= 1 << ctx.rng.below(8);
                    }
                }
                2 => {
                    // short buffers
                    let l = ctx.rng.usize_below(17);
                    f.truncate(l);
                }
                _ => {
                    // a single random ident byte, random value (incl. padding bytes, which are no defect)
                    let p = ctx.rng.usize_below(16);
                    f[p] = ctx.rng.next_u64() as u8;
                }
            }
            ctx.nontrivial_bytes(&f[..f.len().min(16)]);
            ctx.sample(|| format!("{} ident {}", enc.name(), hex_trunc(&f[..f.len().min(16)], 16)));
            for spec in 0..4 {
                for entry in 0..3 {
                    if f.len() < 16 && entry == 2 {
                        // parse_ident on a short buffer: an error of any kind
                        ctx.eval();
                        if let Outcome::Ok = run_spec(spec, entry, &f) {
                            ctx.violation("parse_ident:short-buffer-accepted", format!("parse_ident accepted a {}-byte buffer", f.len()));
                            return;
                        }
                        continue;
                    }
                    // a truncated file is not valid beyond its ident
                    if !judge(ctx, &f, spec, entry, if kind == 2 { None } else { Some(enc) }) {
                        return;
                    }
                }
            }
        }
        _ => {
            let enc = Enc::ALL[ctx.rng.usize_below(4)];
            let (bytes, what) = if ctx.rng.chance(1, 12) && !seeds().is_empty() {
                let (n, b) = &seeds()[ctx.rng.usize_below(seeds().len())];
                (b.clone(), format!("seed {n}"))
            } else {
                let mut o = GenOpts::standard();
                o.max_syms = 6;
                let (spec, _) = gen_object(&mut ctx.rng, enc, &o);
                let mut b = build(&spec, &mut ctx.rng);
                let mut what = format!("generated {}", enc.name());
                if ctx.rng.chance(1, 3) {
                    let log = crate::gen::mutate::structured(&mut ctx.rng, &mut b, 2);
                    what = format!("{what} + {:?}", log);
                }
                (b.bytes, what)
            };
            // the clause is about files whose ident is otherwise fine
            if !ident_defects(&bytes, &[1, 2]).is_empty() {
                return;
            }
            if bytes[5] == 1 {
                equivalence::<LittleEndian, BigEndian>(ctx, &bytes, &what, "LittleEndian");
            } else {
                equivalence::<BigEndian, LittleEndian>(ctx, &bytes, &what, "BigEndian");
            }
        }
    }
}

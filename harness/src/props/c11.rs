//! C11 — GNU hash lookup is sound on any table and complete on well-formed ones.
use super::c09::class_of;
use super::c12::{absent_candidates, check_sound, short_strings, Found, SymTabView};
use super::{ex, scale, st, PropDef, Stratum};
use crate::codec::Enc;
use crate::ctx::{hex_trunc, Ctx, Tier};
use crate::gen::hash::{build_gnu, gnu_sort, GnuParams};
use crate::gen::symtab::{build, gen_names};
use crate::reference::hash::ref_gnu_hash;
use elf::endian::{AnyEndian, BigEndian, EndianParse, LittleEndian};
use elf::hash::{gnu_hash, GnuHashTable};
use elf::parse::ParsingTable;
use elf::string_table::StringTable;
use elf::symbol::Symbol;

pub const DEF: PropDef = PropDef { id: "C11", strata, run, setup, canaries: &["panic"] };

fn setup(ctx: &mut Ctx) {
    ctx.floor("same-object-sequences", 1000);
    ctx.floor("same-object:absent-then-colliding-present", 1000);
    ctx.floor("absent:query-aliases-a-stored-name", 1000);
    ctx.floor("present-found", 5000);
    ctx.floor("absent-none", 5000);
    ctx.floor("absent:passes-bloom", 500);
    ctx.floor("absent:passes-bloom+occupied-bucket", 200);
    ctx.floor("absent:hash-differs-only-in-bit0", 20);
    ctx.floor("absent:same-hash-as-present", 20);
    ctx.floor("absent:prefix-of-present-with-same-hash", 20);
    ctx.floor("present:extension-with-same-hash-as-its-prefix", 20);
    ctx.floor("unhashed-symbol-name-none", 100);
    ctx.floor("name:duplicate", 100);
    ctx.floor("name:high-bytes", 100);
    ctx.floor("name:empty", 50);
    ctx.floor("garbage:some-result-checked", 20);
    ctx.floor("garbage:strtab-tail-cut", 100);
    ctx.floor("garbage:table-built-for-other-names", 100);
    ctx.floor("hash-fn:compared", 4369);
    ctx.floor("shift>=16", 50);
    ctx.floor("bloom_size>=8", 50);
    for e in Enc::ALL {
        ctx.floor(&format!("enc:{}", e.name()), 50);
    }
}

fn strata(t: Tier) -> Vec<Stratum> {
    vec![
        st("well-formed", scale(t, 240_000, 2_400_000, 6)),
        st("corrupted-tables", scale(t, 480_000, 4_800_000, 6)),
        ex("hash-fn-short-strings", scale(t, 1, 1, 0)),
        st("hash-fn-random", scale(t, 1_600_000, 16_000_000, 50)),
    ]
}

fn find<E: EndianParse>(e: E, enc: Enc, hash: &[u8], symtab: &[u8], strtab: &[u8], name: &[u8]) -> Result<Found, String> {
    let class = class_of(enc);
    let t = GnuHashTable::new(e, class, hash).map_err(|e| format!("{e:?}"))?;
    let st = ParsingTable::<E, Symbol>::new(e, class, symtab);
    let strs = StringTable::new(strtab);
    Ok(match t.find(name, &st, &strs) {
        Ok(Some((i, s))) => Found::Some(i, s),
        Ok(None) => Found::None,
        Err(e) => Found::Err(format!("{e:?}")),
    })
}

/// all the queries, one after the other, on ONE table object (a lookup may not depend on the lookups before it)
fn find_seq<E: EndianParse>(e: E, enc: Enc, hash: &[u8], symtab: &[u8], strtab: &[u8], names: &[Vec<u8>]) -> Result<Vec<Found>, String> {
    let class = class_of(enc);
    let t = GnuHashTable::new(e, class, hash).map_err(|e| format!("{e:?}"))?;
    let st = ParsingTable::<E, Symbol>::new(e, class, symtab);
    let strs = StringTable::new(strtab);
    Ok(names
        .iter()
        .map(|name| match t.find(name, &st, &strs) {
            Ok(Some((i, s))) => Found::Some(i, s),
            Ok(None) => Found::None,
            Err(e) => Found::Err(format!("{e:?}")),
        })
        .collect())
}

fn find_seq_any(enc: Enc, any: bool, hash: &[u8], symtab: &[u8], strtab: &[u8], names: &[Vec<u8>]) -> Result<Vec<Found>, String> {
    match (any, enc.big) {
        (true, false) => find_seq(AnyEndian::Little, enc, hash, symtab, strtab, names),
        (true, true) => find_seq(AnyEndian::Big, enc, hash, symtab, strtab, names),
        (false, false) => find_seq(LittleEndian, enc, hash, symtab, strtab, names),
        (false, true) => find_seq(BigEndian, enc, hash, symtab, strtab, names),
    }
}

/// `queries` on one table object must give what each gives on a fresh table
fn same_object_sequence(ctx: &mut Ctx, enc: Enc, any: bool, hash: &[u8], symtab: &[u8], strtab: &[u8], queries: &[Vec<u8>]) -> bool {
    let Ok(seq) = find_seq_any(enc, any, hash, symtab, strtab, queries) else { return true };
    ctx.count("same-object-sequences");
    for (k, (q, got)) in queries.iter().zip(seq.iter()).enumerate() {
        ctx.eval();
        let Ok(fresh) = find_any(enc, any, hash, symtab, strtab, q) else { continue };
        let same = match (&fresh, got) {
            (Found::None, Found::None) => true,
            (Found::Some(i, _), Found::Some(j, _)) => i == j,
            (Found::Err(a), Found::Err(b)) => a == b,
            _ => false,
        };
        if !same {
            ctx.violation("gnu:depends-on-earlier-queries", format!("query #{k} {} on a table object that had answered {} queries before: {:?}; on a fresh table object: {:?} (previous query: {})", hex_trunc(q, 40), k, got, fresh, if k > 0 { hex_trunc(&queries[k - 1], 40) } else { "-".to_string() }));
            return false;
        }
    }
    true
}

pub fn find_any(enc: Enc, any: bool, hash: &[u8], symtab: &[u8], strtab: &[u8], name: &[u8]) -> Result<Found, String> {
    match (any, enc.big) {
        (true, false) => find(AnyEndian::Little, enc, hash, symtab, strtab, name),
        (true, true) => find(AnyEndian::Big, enc, hash, symtab, strtab, name),
        (false, false) => find(LittleEndian, enc, hash, symtab, strtab, name),
        (false, true) => find(BigEndian, enc, hash, symtab, strtab, name),
    }
}

pub fn gen_params(rng: &mut crate::rng::Rng, nsyms: usize) -> GnuParams {
    let nbucket = match rng.below(4) {
        0 => 1,
        1 => 1 + rng.below(4) as u32,
        2 => 1 + rng.below(nsyms as u64 + 2) as u32,
        _ => 1 + rng.below(2 * nsyms as u64 + 8) as u32,
    };
    let symoffset = match rng.below(4) {
        0 => 1,
        1 => 1 + rng.below(4) as u32,
        _ => 1 + rng.below(nsyms as u64) as u32,
    };
    GnuParams { nbucket, symoffset: symoffset.min(nsyms.max(1) as u32), bloom_size: 1 << rng.below(7), shift: rng.below(32) as u32 }
}

fn well_formed(ctx: &mut Ctx) {
    let enc = Enc::ALL[ctx.rng.usize_below(4)];
    ctx.count(&format!("enc:{}", enc.name()));
    let any = ctx.rng.bool();
    let mut names = gen_names(&mut ctx.rng, if ctx.tier == Tier::Miri { 24 } else { 300 }, true);
    let nsyms = names.len();
    let p = gen_params(&mut ctx.rng, nsyms);
    if p.shift >= 16 {
        ctx.count("shift>=16");
    }
    if p.bloom_size >= 8 {
        ctx.count("bloom_size>=8");
    }
    gnu_sort(&mut names, &p);
    let tab = build(enc, &names, &mut ctx.rng);
    let hash = build_gnu(enc, &names, &p);
    let view = SymTabView { enc, symtab: &tab.symtab, strtab: &tab.strtab };
    let mut input = hash.clone();
    input.extend_from_slice(&tab.symtab);
    input.extend_from_slice(&tab.strtab);
    ctx.set_input(&input);
    let so = p.symoffset as usize;
    if nsyms > so + 2 {
        ctx.nontrivial_bytes(&input);
    }
    ctx.sample(|| format!("{} nsyms={} {:?} any={} names[so..so+3]={:?}", enc.name(), nsyms, p, any, names.iter().skip(so).take(3).map(|n| hex_trunc(n, 12)).collect::<Vec<_>>()));
    let hashed: std::collections::HashSet<&[u8]> = names.iter().skip(so).map(|n| &n[..]).collect();
    if hashed.len() < nsyms.saturating_sub(so) {
        ctx.count_n("name:duplicate", (nsyms - so - hashed.len()) as u64);
    }
    for n in names.iter().skip(so) {
        ctx.eval();
        if n.len() >= 8 && ref_gnu_hash(&n[..n.len() - 7]) | 1 == ref_gnu_hash(n) | 1 {
            ctx.count("present:extension-with-same-hash-as-its-prefix");
        }
        if n.iter().any(|b| *b >= 0x80) {
            ctx.count("name:high-bytes");
        }
        if n.is_empty() {
            ctx.count("name:empty");
        }
        match find_any(enc, any, &hash, &tab.symtab, &tab.strtab, n) {
            Ok(r) => {
                if !check_sound(ctx, "gnu", &view, n, &r) {
                    return;
                }
                match r {
                    Found::Some(..) => ctx.count("present-found"),
                    Found::None => {
                        ctx.violation("gnu:incomplete", format!("hashed name {} not found ({:?}, nsyms={nsyms}, {})", hex_trunc(n, 40), p, enc.name()));
                        return;
                    }
                    Found::Err(e) => {
                        ctx.violation("gnu:error-on-well-formed", format!("lookup of hashed name {} failed: {e} ({:?})", hex_trunc(n, 40), p));
                        return;
                    }
                }
            }
            Err(e) => {
                ctx.violation("gnu:new-rejected-well-formed", format!("GnuHashTable::new rejected a well-formed table: {e} ({:?})", p));
                return;
            }
        }
    }
    // names of unhashed symbols and absent names -> None
    let c: u32 = if enc.c64 { 64 } else { 32 };
    let hashes: std::collections::HashSet<u32> = names.iter().skip(so).map(|n| ref_gnu_hash(n)).collect();
    let buckets_used: std::collections::HashSet<u32> = hashes.iter().map(|h| h % p.nbucket).collect();
    let mut bloom = vec![0u64; p.bloom_size as usize];
    for h in &hashes {
        let w = ((h / c) % p.bloom_size) as usize;
        bloom[w] |= (1u64 << (h % c)) | (1u64 << ((h >> p.shift) % c));
    }
    let mut absent: Vec<(Vec<u8>, bool)> = names.iter().take(so).skip(1).map(|n| (n.clone(), true)).collect();
    absent.extend(absent_candidates(&mut ctx.rng, &names[so.min(nsyms)..], true).into_iter().map(|n| (n, false)));
    // one table object answering a whole sequence: every absent name next to the present name it collides with (in
    // both orders), then a shuffled mix
    {
        let mut seq: Vec<Vec<u8>> = Vec::new();
        for (a, _) in absent.iter().filter(|(a, _)| !hashed.contains(&a[..])) {
            let h = ref_gnu_hash(a);
            if let Some(p) = names.iter().skip(so).find(|n| ref_gnu_hash(n) == h || ref_gnu_hash(n) == h ^ 1) {
                seq.extend([a.clone(), p.clone(), p.clone(), a.clone(), p.clone()]);
                ctx.count("same-object:absent-then-colliding-present");
            }
            if seq.len() > 120 {
                break;
            }
        }
        let mut mix: Vec<Vec<u8>> = names.iter().skip(so).take(40).cloned().chain(absent.iter().take(40).map(|x| x.0.clone())).collect();
        ctx.rng.shuffle(&mut mix);
        seq.extend(mix);
        if !same_object_sequence(ctx, enc, any, &hash, &tab.symtab, &tab.strtab, &seq) {
            return;
        }
    }
    for (a, unhashed) in absent {
        if hashed.contains(&a[..]) {
            continue;
        }
        ctx.eval();
        let h = ref_gnu_hash(&a);
        let w = bloom[((h / c) % p.bloom_size) as usize];
        let passes = w & (1u64 << (h % c)) != 0 && w & (1u64 << ((h >> p.shift) % c)) != 0;
        if passes {
            ctx.count("absent:passes-bloom");
            if buckets_used.contains(&(h % p.nbucket)) {
                ctx.count("absent:passes-bloom+occupied-bucket");
            }
        }
        if hashes.contains(&h) {
            ctx.count("absent:same-hash-as-present");
            if names.iter().skip(so).any(|n| n.len() > a.len() && n.starts_with(&a) && ref_gnu_hash(n) == h) {
                ctx.count("absent:prefix-of-present-with-same-hash");
            }
        } else if hashes.contains(&(h ^ 1)) {
            ctx.count("absent:hash-differs-only-in-bit0");
        }
        // the same absent name as a slice of the string table itself (a caller that got the name out of the file): when
        // it is a proper prefix of a stored name, the query starts at the very address of that stored name
        if let Some(j) = (so..nsyms).find(|&j| names[j].len() > a.len() && names[j].starts_with(&a)) {
            let stn = tab.recs[j].get("st_name") as usize;
            if let Some(alias) = tab.strtab.get(stn..stn + a.len()) {
                ctx.count("absent:query-aliases-a-stored-name");
                match find_any(enc, any, &hash, &tab.symtab, &tab.strtab, alias) {
                    Ok(Found::None) => {}
                    other => {
                        ctx.violation("gnu:absent-found:aliasing-query", format!("absent name {} queried as the string-table slice [{stn},+{}) (a prefix of symbol {j}'s name): {:?} ({:?})", hex_trunc(&a, 40), a.len(), other.map(|f| format!("{f:?}")), p));
                        return;
                    }
                }
            }
        }
        match find_any(enc, any, &hash, &tab.symtab, &tab.strtab, &a) {
            Ok(Found::None) => {
                ctx.count("absent-none");
                if unhashed {
                    ctx.count("unhashed-symbol-name-none");
                }
            }
            Ok(Found::Some(i, s)) => {
                ctx.violation("gnu:absent-found", format!("absent/unhashed name {} 'found' at index {i}: {:?} ({:?})", hex_trunc(&a, 40), s, p));
                return;
            }
            Ok(Found::Err(e)) => {
                ctx.violation("gnu:error-on-well-formed", format!("lookup of absent name {} failed on a well-formed table: {e} ({:?})", hex_trunc(&a, 40), p));
                return;
            }
            Err(e) => {
                ctx.violation("gnu:new-rejected-well-formed", format!("GnuHashTable::new rejected a well-formed table: {e}"));
                return;
            }
        }
    }
}

fn corrupted(ctx: &mut Ctx) {
    let enc = Enc::ALL[ctx.rng.usize_below(4)];
    let any = ctx.rng.bool();
    let mut names = gen_names(&mut ctx.rng, 40, true);
    let p = gen_params(&mut ctx.rng, names.len());
    gnu_sort(&mut names, &p);
    let tab = build(enc, &names, &mut ctx.rng);
    let mut hash = build_gnu(enc, &names, &p);
    let mut symtab = tab.symtab.clone();
    let mut strtab = tab.strtab.clone();
    let mut extra_queries: Vec<Vec<u8>> = Vec::new();
    match ctx.rng.below(10) {
        7 => {
            // the string table loses its last 1..3 bytes: the last name is no longer terminated
            let k = 1 + ctx.rng.usize_below(3);
            let l = strtab.len().saturating_sub(k);
            strtab.truncate(l);
            ctx.count("garbage:strtab-tail-cut");
        }
        8 | 9 => {
            // a table built for *other* names than the symbols really have (one bucket, so that every chain entry is
            // reached): a lookup of the name the table was built for must not return the differently named symbol.
            // One of the other names is the symbol's own string-table entry joined with the entry behind it.
            let so = (p.symoffset as usize).min(names.len());
            if names.len() > so {
                let j = so + ctx.rng.usize_below(names.len() - so);
                let st_name = tab.recs[j].get("st_name") as usize;
                let rest = &tab.strtab[st_name.min(tab.strtab.len())..];
                let e = rest.iter().position(|c| *c == 0).unwrap_or(rest.len());
                let after = rest.get(e + 1..).unwrap_or(&[]);
                let e2 = after.iter().position(|c| *c == 0).unwrap_or(after.len());
                let alt: Vec<u8> = match ctx.rng.below(3) {
                    0 => rest[..(e + 1 + e2).min(rest.len())].to_vec(),  // A \0 B
                    1 => rest[..(e + 1).min(rest.len())].to_vec(),       // A \0
                    _ => { let mut v = names[j].clone(); v.push(b'!'); v }
                };
                let mut names2 = names.clone();
                names2[j] = alt.clone();
                let p1 = GnuParams { nbucket: 1, symoffset: p.symoffset, bloom_size: p.bloom_size, shift: p.shift };
                hash = build_gnu(enc, &names2, &p1);
                extra_queries.push(alt);
                ctx.count("garbage:table-built-for-other-names");
            }
        }
        0 => hash = { let n = ctx.rng.usize_below(240); ctx.rng.bytes(n) },
        1 => {
            // header fields: nbucket, symoffset, bloom_size, shift
            let w = ctx.rng.usize_below(4);
            let v = if ctx.rng.bool() { ctx.rng.boundary(32) } else { ctx.rng.below(70) };
            if hash.len() >= 16 {
                enc.put_at(&mut hash, 4 * w, v, 4);
            }
        }
        2 => {
            // chain/bucket words: clear stop bits, point anywhere
            let words = hash.len() / 4;
            for _ in 0..1 + ctx.rng.usize_below(6) {
                if words > 4 {
                    let w = 4 + ctx.rng.usize_below(words - 4);
                    let old = enc.get(&hash, 4 * w, 4).unwrap_or(0);
                    let v = match ctx.rng.below(3) {
                        0 => old & !1,
                        1 => ctx.rng.below(names.len() as u64 + 3),
                        _ => ctx.rng.boundary(32),
                    };
                    enc.put_at(&mut hash, 4 * w, v, 4);
                }
            }
        }
        3 => {
            // saturate the bloom filter so that everything reaches the chains
            let wsz = if enc.c64 { 8 } else { 4 };
            let end = (16 + p.bloom_size as usize * wsz).min(hash.len());
            for b in hash[16.min(end)..end].iter_mut() {
                *b = 0xff;
            }
            // and corrupt one chain word
            let words = hash.len() / 4;
            if words > 5 {
                let w = words - 1 - ctx.rng.usize_below((words - 4).min(8));
                let v = ctx.rng.next_u64() & 0xffff_ffff;
                enc.put_at(&mut hash, 4 * w, v, 4);
            }
        }
        4 => {
            for _ in 0..1 + ctx.rng.usize_below(4) {
                if !symtab.is_empty() {
                    let i = ctx.rng.usize_below(symtab.len());
                    symtab[i] = ctx.rng.next_u64() as u8;
                }
            }
        }
        5 => {
            for _ in 0..1 + ctx.rng.usize_below(4) {
                if !strtab.is_empty() {
                    let i = ctx.rng.usize_below(strtab.len());
                    strtab[i] = ctx.rng.next_u64() as u8;
                }
            }
        }
        _ => {
            let cut = ctx.rng.usize_below(hash.len() + 1);
            hash.truncate(cut);
        }
    }
    let view = SymTabView { enc, symtab: &symtab, strtab: &strtab };
    let mut input = hash.clone();
    input.extend_from_slice(&symtab);
    input.extend_from_slice(&strtab);
    ctx.set_input(&input);
    ctx.nontrivial_bytes(&input);
    ctx.sample(|| format!("{} corrupted .gnu.hash {} nsyms={}", enc.name(), hex_trunc(&hash, 48), names.len()));
    let mut queries: Vec<Vec<u8>> = names.clone();
    queries.extend(absent_candidates(&mut ctx.rng, &names, true).into_iter().take(20));
    queries.extend(extra_queries);
    for q in queries {
        ctx.eval();
        match find_any(enc, any, &hash, &symtab, &strtab, &q) {
            Ok(r) => {
                match &r {
                    Found::Some(..) => ctx.count("garbage:some-result-checked"),
                    Found::None => ctx.count("garbage:none"),
                    Found::Err(_) => ctx.count("garbage:err"),
                }
                if !check_sound(ctx, "gnu", &view, &q, &r) {
                    return;
                }
            }
            Err(_) => ctx.count("garbage:new-rejected"),
        }
    }
}

fn run(ctx: &mut Ctx, si: usize, _case: u64) {
    match si {
        0 => well_formed(ctx),
        1 => corrupted(ctx),
        2 => {
            ctx.sample(|| "all 4369 strings of length <= 3 over a 16-symbol alphabet (incl. 0x80..0xff)".to_string());
            for s in short_strings() {
                ctx.eval();
                ctx.count("hash-fn:compared");
                ctx.nontrivial_bytes(&s);
                let (g, r) = (gnu_hash(&s), ref_gnu_hash(&s));
                if g != r {
                    ctx.violation("gnu_hash:value", format!("gnu_hash({}) = {g:#x}, reference djb2 = {r:#x}", hex_trunc(&s, 16)));
                    return;
                }
            }
        }
        _ => {
            let l = match ctx.rng.below(3) {
                0 => ctx.rng.usize_below(8),
                1 => ctx.rng.usize_below(40),
                _ => ctx.rng.usize_below(300),
            };
            let mut s = ctx.rng.bytes(l);
            for b in s.iter_mut() {
                if *b == 0 {
                    *b = 1;
                }
            }
            ctx.eval();
            ctx.count("hash-fn:compared");
            ctx.nontrivial_bytes(&s);
            ctx.sample(|| format!("gnu_hash({})", hex_trunc(&s, 40)));
            let (g, r) = (gnu_hash(&s), ref_gnu_hash(&s));
            if g != r {
                ctx.set_input(&s);
                ctx.violation("gnu_hash:value", format!("gnu_hash({}) = {g:#x}, reference djb2 = {r:#x}", hex_trunc(&s, 64)));
            }
        }
    }
}

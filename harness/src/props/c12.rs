//! C12 — SysV hash lookup is sound on any table and complete on well-formed ones.
use super::c09::class_of;
use super::{ex, scale, st, PropDef, Stratum};
use crate::codec::Enc;
use crate::ctx::{hex_trunc, Ctx, Tier};
use crate::gen::hash::build_sysv;
use crate::gen::symtab::{build, gen_names, SymTab};
use crate::reference::hash::ref_sysv_hash;
use crate::reference::structs::Fields;
use elf::endian::{AnyEndian, BigEndian, EndianParse, LittleEndian};
use elf::hash::{sysv_hash, SysVHashTable};
use elf::parse::ParsingTable;
use elf::string_table::StringTable;
use elf::symbol::Symbol;

pub const DEF: PropDef = PropDef { id: "C12", strata, run, setup, canaries: &["panic"] };

fn setup(ctx: &mut Ctx) {
    ctx.floor("same-object-sequences", 1000);
    ctx.floor("present-found", 5000);
    ctx.floor("absent-none", 5000);
    ctx.floor("absent:same-hash-as-present", 20);
    ctx.floor("absent:same-bucket-as-present", 500);
    ctx.floor("name:high-bytes", 100);
    ctx.floor("name:long(fold)", 100);
    ctx.floor("name:duplicate", 100);
    ctx.floor("name:empty", 50);
    ctx.floor("garbage:some-result-checked", 20);
    ctx.floor("garbage:strtab-tail-cut", 100);
    ctx.floor("garbage:table-built-for-other-names", 100);
    ctx.floor("hash-fn:compared", 4369);
    ctx.floor("name:extreme-hash-state", 100);
    for e in Enc::ALL {
        ctx.floor(&format!("enc:{}", e.name()), 50);
    }
}

fn strata(t: Tier) -> Vec<Stratum> {
    vec![
        st("well-formed", scale(t, 150_000, 1_500_000, 6)),
        st("corrupted-tables", scale(t, 300_000, 3_000_000, 6)),
        ex("hash-fn-short-strings", scale(t, 1, 1, 0)),
        st("hash-fn-random", scale(t, 1_000_000, 10_000_000, 50)),
    ]
}

pub const ALPHABET16: [u8; 16] = [0x01, b'a', b'b', b'z', b'A', b'_', b'0', b'9', 0x7f, 0x80, 0x81, 0xc3, 0xa9, 0xf0, 0xfe, 0xff];

/// What a lookup returned, reduced to comparable data.
#[derive(Debug)]
pub enum Found {
    None,
    Err(String),
    Some(usize, Symbol),
}

/// soundness: a returned symbol is symtab[i] and its name equals the query
pub fn check_sound(ctx: &mut Ctx, which: &str, stx: &SymTabView<'_>, query: &[u8], r: &Found) -> bool {
    if let Found::Some(i, sym) = r {
        let at = stx.get(*i);
        let name = at.as_ref().and_then(|s| stx.name_of(s));
        let same_sym = at.as_ref().map(|s| s.fields() == sym.fields()).unwrap_or(false);
        let name_ok = name.as_deref() == Some(query);
        if !same_sym || !name_ok {
            ctx.violation(
                &format!("{which}:unsound"),
                format!("{which} lookup of {} returned index {} / {:?}; symtab[{}] = {:?} with name {:?}", hex_trunc(query, 40), i, sym, i, at, name.map(|n| hex_trunc(&n, 40))),
            );
            return false;
        }
    }
    true
}

/// Reference view of a symbol table + string table (own decoder).
pub struct SymTabView<'a> {
    pub enc: Enc,
    pub symtab: &'a [u8],
    pub strtab: &'a [u8],
}

impl<'a> SymTabView<'a> {
    pub fn get(&self, i: usize) -> Option<Symbol> {
        use crate::codec::{size_of, Rec, St};
        let es = size_of(St::Sym, self.enc.c64);
        let off = i.checked_mul(es)?;
        let r = Rec::decode(St::Sym, self.enc, self.symtab, off)?;
        Some(Symbol {
            st_name: r.get("st_name") as u32,
            st_shndx: r.get("st_shndx") as u16,
            st_info: r.get("st_info") as u8,
            st_other: r.get("st_other") as u8,
            st_value: r.get("st_value"),
            st_size: r.get("st_size"),
        })
    }
    pub fn name_of(&self, s: &Symbol) -> Option<Vec<u8>> {
        let off = s.st_name as usize;
        if off >= self.strtab.len() {
            return None;
        }
        let rest = &self.strtab[off..];
        let end = rest.iter().position(|b| *b == 0)?;
        Some(rest[..end].to_vec())
    }
}

fn find<E: EndianParse>(e: E, enc: Enc, hash: &[u8], symtab: &[u8], strtab: &[u8], name: &[u8]) -> Result<Found, String> {
    let class = class_of(enc);
    let t = SysVHashTable::new(e, class, hash).map_err(|e| format!("{e:?}"))?;
    let st = ParsingTable::<E, Symbol>::new(e, class, symtab);
    let strs = StringTable::new(strtab);
    Ok(match t.find(name, &st, &strs) {
        Ok(Some((i, s))) => Found::Some(i, s),
        Ok(None) => Found::None,
        Err(e) => Found::Err(format!("{e:?}")),
    })
}

/// all the queries, one after the other, on ONE table object (a lookup may not depend on the lookups before it)
fn find_seq<E: EndianParse>(e: E, enc: Enc, hash: &[u8], symtab: &[u8], strtab: &[u8], names: &[Vec<u8>]) -> Result<Vec<Found>, String> {
    let class = class_of(enc);
    let t = SysVHashTable::new(e, class, hash).map_err(|e| format!("{e:?}"))?;
    let st = ParsingTable::<E, Symbol>::new(e, class, symtab);
    let strs = StringTable::new(strtab);
    Ok(names
        .iter()
        .map(|name| match t.find(name, &st, &strs) {
            Ok(Some((i, s))) => Found::Some(i, s),
            Ok(None) => Found::None,
            Err(e) => Found::Err(format!("{e:?}")),
        })
        .collect())
}

fn find_seq_any(enc: Enc, any: bool, hash: &[u8], symtab: &[u8], strtab: &[u8], names: &[Vec<u8>]) -> Result<Vec<Found>, String> {
    match (any, enc.big) {
        (true, false) => find_seq(AnyEndian::Little, enc, hash, symtab, strtab, names),
        (true, true) => find_seq(AnyEndian::Big, enc, hash, symtab, strtab, names),
        (false, false) => find_seq(LittleEndian, enc, hash, symtab, strtab, names),
        (false, true) => find_seq(BigEndian, enc, hash, symtab, strtab, names),
    }
}

/// `queries` on one table object must give what each gives on a fresh table
fn same_object_sequence(ctx: &mut Ctx, enc: Enc, any: bool, hash: &[u8], symtab: &[u8], strtab: &[u8], queries: &[Vec<u8>]) -> bool {
    let Ok(seq) = find_seq_any(enc, any, hash, symtab, strtab, queries) else { return true };
    ctx.count("same-object-sequences");
    for (k, (q, got)) in queries.iter().zip(seq.iter()).enumerate() {
        ctx.eval();
        let Ok(fresh) = find_any(enc, any, hash, symtab, strtab, q) else { continue };
        let same = match (&fresh, got) {
            (Found::None, Found::None) => true,
            (Found::Some(i, _), Found::Some(j, _)) => i == j,
            (Found::Err(a), Found::Err(b)) => a == b,
            _ => false,
        };
        if !same {
            ctx.violation("sysv:depends-on-earlier-queries", format!("query #{k} {} on a table object that had answered {} queries before: {:?}; on a fresh table object: {:?} (previous query: {})", hex_trunc(q, 40), k, got, fresh, if k > 0 { hex_trunc(&queries[k - 1], 40) } else { "-".to_string() }));
            return false;
        }
    }
    true
}

fn find_any(enc: Enc, any: bool, hash: &[u8], symtab: &[u8], strtab: &[u8], name: &[u8]) -> Result<Found, String> {
    match (any, enc.big) {
        (true, false) => find(AnyEndian::Little, enc, hash, symtab, strtab, name),
        (true, true) => find(AnyEndian::Big, enc, hash, symtab, strtab, name),
        (false, false) => find(LittleEndian, enc, hash, symtab, strtab, name),
        (false, true) => find(BigEndian, enc, hash, symtab, strtab, name),
    }
}

fn classify_name(ctx: &mut Ctx, n: &[u8]) {
    if n.iter().any(|b| *b >= 0x80) {
        ctx.count("name:high-bytes");
    }
    if n.len() > 6 {
        ctx.count("name:long(fold)");
    }
    if n.is_empty() {
        ctx.count("name:empty");
    }
    if n.windows(7).any(|w| w == [0x0f; 7]) {
        ctx.count("name:extreme-hash-state");
    }
}

/// absent names aimed at the weak spots: same hash, same bucket, near-miss spellings
pub fn absent_candidates(rng: &mut crate::rng::Rng, names: &[Vec<u8>], gnu: bool) -> Vec<Vec<u8>> {
    let mut v: Vec<Vec<u8>> = Vec::new();
    for n in names.iter().skip(1).take(40) {
        let l = n.len();
        // algebraic collision partner
        let d = if gnu { 33 } else { 16 };
        if l >= 2 && n[l - 2] < 0xff && n[l - 1] > d {
            let mut c = n.clone();
            c[l - 2] += 1;
            c[l - 1] -= d;
            v.push(c);
        }
        if l >= 2 && n[l - 2] > 1 && n[l - 1] < 0xff - d {
            let mut c = n.clone();
            c[l - 2] -= 1;
            c[l - 1] += d;
            v.push(c);
        }
        // last character +-1 (GNU: the hash differs only in bit 0 half of the time)
        if l >= 1 {
            if n[l - 1] < 0xff {
                let mut c = n.clone();
                c[l - 1] += 1;
                v.push(c);
            }
            if n[l - 1] > 1 {
                let mut c = n.clone();
                c[l - 1] -= 1;
                v.push(c);
            }
            v.push(n[..l - 1].to_vec());
        }
        let mut c = n.clone();
        c.push(b'x');
        v.push(c);
        // the name without its last 7 bytes (the generator plants extensions with an identical hash)
        if l >= 8 {
            v.push(n[..l - 7].to_vec());
        }
        if gnu && l >= 1 && l <= 24 {
            // an extension of a present name with the same 32-bit GNU hash
            let mut h: u32 = 5381;
            for &b in n.iter() {
                h = h.wrapping_mul(33).wrapping_add(b as u32);
            }
            let mut c = n.clone();
            c.extend_from_slice(&crate::gen::symtab::gnu_suffix_for(n, h));
            v.push(c);
        }
    }
    for _ in 0..30 {
        let l = rng.usize_below(10);
        v.push((0..l).map(|_| if rng.chance(1, 8) { 0x80 + rng.below(0x80) as u8 } else { b'a' + rng.below(26) as u8 }).collect());
    }
    v.push(Vec::new());
    v
}

fn well_formed(ctx: &mut Ctx) {
    let enc = Enc::ALL[ctx.rng.usize_below(4)];
    ctx.count(&format!("enc:{}", enc.name()));
    let any = ctx.rng.bool();
    let names = gen_names(&mut ctx.rng, if ctx.tier == Tier::Miri { 24 } else { 300 }, false);
    let nsyms = names.len();
    let nbucket = match ctx.rng.below(4) {
        0 => 1,
        1 => 1 + ctx.rng.below(4) as u32,
        2 => 1 + ctx.rng.below(nsyms as u64 + 2) as u32,
        _ => 1 + ctx.rng.below(2 * nsyms as u64 + 8) as u32,
    };
    let tab: SymTab = build(enc, &names, &mut ctx.rng);
    let hash = build_sysv(enc, &names, nbucket);
    let view = SymTabView { enc, symtab: &tab.symtab, strtab: &tab.strtab };
    let mut input = hash.clone();
    input.extend_from_slice(&tab.symtab);
    input.extend_from_slice(&tab.strtab);
    ctx.set_input(&input);
    if nsyms >= 3 {
        ctx.nontrivial_bytes(&input);
    }
    ctx.sample(|| format!("{} nsyms={} nbucket={} any={} names[1..4]={:?}", enc.name(), nsyms, nbucket, any, names.iter().skip(1).take(3).map(|n| hex_trunc(n, 12)).collect::<Vec<_>>()));
    let present: std::collections::HashSet<&[u8]> = names.iter().skip(1).map(|n| &n[..]).collect();
    if present.len() + 1 < names.len() {
        ctx.count_n("name:duplicate", (names.len() - 1 - present.len()) as u64);
    }
    // completeness: every symbol is found by name
    for n in names.iter().skip(1) {
        ctx.eval();
        classify_name(ctx, n);
        match find_any(enc, any, &hash, &tab.symtab, &tab.strtab, n) {
            Ok(r) => {
                if !check_sound(ctx, "sysv", &view, n, &r) {
                    return;
                }
                match r {
                    Found::Some(..) => ctx.count("present-found"),
                    Found::None => {
                        ctx.violation("sysv:incomplete", format!("present name {} not found (nsyms={nsyms}, nbucket={nbucket}, {})", hex_trunc(n, 40), enc.name()));
                        return;
                    }
                    Found::Err(e) => {
                        ctx.violation("sysv:error-on-well-formed", format!("lookup of present name {} failed: {e}", hex_trunc(n, 40)));
                        return;
                    }
                }
            }
            Err(e) => {
                ctx.violation("sysv:new-rejected-well-formed", format!("SysVHashTable::new rejected a well-formed table: {e}"));
                return;
            }
        }
    }
    // absent names -> None
    let bucket_used: std::collections::HashSet<u32> = names.iter().skip(1).map(|n| ref_sysv_hash(n) % nbucket).collect();
    let hashes: std::collections::HashSet<u32> = names.iter().skip(1).map(|n| ref_sysv_hash(n)).collect();
    let absent_list = absent_candidates(&mut ctx.rng, &names, false);
    {
        let mut seq: Vec<Vec<u8>> = Vec::new();
        for a in absent_list.iter().filter(|a| !present.contains(&a[..])) {
            let h = ref_sysv_hash(a);
            if let Some(p) = names.iter().skip(1).find(|n| ref_sysv_hash(n) == h).or_else(|| names.iter().skip(1).find(|n| ref_sysv_hash(n) % nbucket == h % nbucket)) {
                seq.extend([a.clone(), p.clone(), p.clone(), a.clone(), p.clone()]);
                ctx.count("same-object:absent-then-colliding-present");
            }
            if seq.len() > 120 {
                break;
            }
        }
        let mut mix: Vec<Vec<u8>> = names.iter().skip(1).take(40).cloned().chain(absent_list.iter().take(40).cloned()).collect();
        ctx.rng.shuffle(&mut mix);
        seq.extend(mix);
        if !same_object_sequence(ctx, enc, any, &hash, &tab.symtab, &tab.strtab, &seq) {
            return;
        }
    }
    for a in absent_list {
        if present.contains(&a[..]) {
            continue;
        }
        ctx.eval();
        let h = ref_sysv_hash(&a);
        if hashes.contains(&h) {
            ctx.count("absent:same-hash-as-present");
        }
        if bucket_used.contains(&(h % nbucket)) {
            ctx.count("absent:same-bucket-as-present");
        }
        // the same absent name as a slice of the string table itself, starting at the address of a stored name
        if let Some(j) = (1..names.len()).find(|&j| names[j].len() > a.len() && names[j].starts_with(&a)) {
            let stn = tab.recs[j].get("st_name") as usize;
            if let Some(alias) = tab.strtab.get(stn..stn + a.len()) {
                ctx.count("absent:query-aliases-a-stored-name");
                match find_any(enc, any, &hash, &tab.symtab, &tab.strtab, alias) {
                    Ok(Found::None) => {}
                    other => {
                        ctx.violation("sysv:absent-found:aliasing-query", format!("absent name {} queried as the string-table slice [{stn},+{}) (a prefix of symbol {j}'s name): {:?}", hex_trunc(&a, 40), a.len(), other.map(|f| format!("{f:?}"))));
                        return;
                    }
                }
            }
        }
        match find_any(enc, any, &hash, &tab.symtab, &tab.strtab, &a) {
            Ok(Found::None) => ctx.count("absent-none"),
            Ok(Found::Some(i, s)) => {
                ctx.violation("sysv:absent-found", format!("absent name {} 'found' at index {i}: {:?}", hex_trunc(&a, 40), s));
                return;
            }
            Ok(Found::Err(e)) => {
                ctx.violation("sysv:error-on-well-formed", format!("lookup of absent name {} failed on a well-formed table: {e}", hex_trunc(&a, 40)));
                return;
            }
            Err(e) => {
                ctx.violation("sysv:new-rejected-well-formed", format!("SysVHashTable::new rejected a well-formed table: {e}"));
                return;
            }
        }
    }
}

fn corrupted(ctx: &mut Ctx) {
    let enc = Enc::ALL[ctx.rng.usize_below(4)];
    let any = ctx.rng.bool();
    let names = gen_names(&mut ctx.rng, 40, false);
    let nbucket = 1 + ctx.rng.below(names.len() as u64 + 2) as u32;
    let tab = build(enc, &names, &mut ctx.rng);
    let mut hash = build_sysv(enc, &names, nbucket);
    let mut symtab = tab.symtab.clone();
    let mut strtab = tab.strtab.clone();
    let mut extra_queries: Vec<Vec<u8>> = Vec::new();
    match ctx.rng.below(9) {
        6 => {
            let k = 1 + ctx.rng.usize_below(3);
            let l = strtab.len().saturating_sub(k);
            strtab.truncate(l);
            ctx.count("garbage:strtab-tail-cut");
        }
        7 | 8 => {
            // a table built for other names than the symbols really have (one bucket: every symbol is on the chain)
            if names.len() > 1 {
                let j = 1 + ctx.rng.usize_below(names.len() - 1);
                let st_name = tab.recs[j].get("st_name") as usize;
                let rest = &tab.strtab[st_name.min(tab.strtab.len())..];
                let e = rest.iter().position(|c| *c == 0).unwrap_or(rest.len());
                let after = rest.get(e + 1..).unwrap_or(&[]);
                let e2 = after.iter().position(|c| *c == 0).unwrap_or(after.len());
                let alt: Vec<u8> = match ctx.rng.below(3) {
                    0 => rest[..(e + 1 + e2).min(rest.len())].to_vec(),
                    1 => rest[..(e + 1).min(rest.len())].to_vec(),
                    _ => { let mut v = names[j].clone(); v.push(b'!'); v }
                };
                let mut names2 = names.clone();
                names2[j] = alt.clone();
                hash = build_sysv(enc, &names2, 1);
                extra_queries.push(alt);
                ctx.count("garbage:table-built-for-other-names");
            }
        }
        0 => hash = { let n = ctx.rng.usize_below(200); ctx.rng.bytes(n) },
        1 => {
            // chains/buckets pointing anywhere, incl. cycles
            let words = hash.len() / 4;
            for _ in 0..1 + ctx.rng.usize_below(6) {
                if words > 2 {
                    let w = 2 + ctx.rng.usize_below(words - 2);
                    let v = if ctx.rng.bool() { ctx.rng.below(names.len() as u64 + 3) } else { ctx.rng.boundary(32) };
                    enc.put_at(&mut hash, 4 * w, v, 4);
                }
            }
        }
        2 => {
            let v = ctx.rng.boundary(32);
            let w = ctx.rng.usize_below(2);
            if hash.len() >= 8 {
                enc.put_at(&mut hash, 4 * w, v, 4);
            }
        }
        3 => {
            // swap symbol names around: the table now points at symbols with other names
            for _ in 0..1 + ctx.rng.usize_below(4) {
                if !symtab.is_empty() {
                    let i = ctx.rng.usize_below(symtab.len());
                    symtab[i] = ctx.rng.next_u64() as u8;
                }
            }
        }
        4 => {
            for _ in 0..1 + ctx.rng.usize_below(4) {
                if !strtab.is_empty() {
                    let i = ctx.rng.usize_below(strtab.len());
                    strtab[i] = ctx.rng.next_u64() as u8;
                }
            }
        }
        _ => {
            let cut = ctx.rng.usize_below(hash.len() + 1);
            hash.truncate(cut);
        }
    }
    let view = SymTabView { enc, symtab: &symtab, strtab: &strtab };
    let mut input = hash.clone();
    input.extend_from_slice(&symtab);
    input.extend_from_slice(&strtab);
    ctx.set_input(&input);
    ctx.nontrivial_bytes(&input);
    ctx.sample(|| format!("{} corrupted table {} nsyms={}", enc.name(), hex_trunc(&hash, 48), names.len()));
    let mut queries: Vec<Vec<u8>> = names.clone();
    queries.extend(absent_candidates(&mut ctx.rng, &names, false).into_iter().take(20));
    queries.extend(extra_queries);
    for q in queries {
        ctx.eval();
        match find_any(enc, any, &hash, &symtab, &strtab, &q) {
            Ok(r) => {
                match &r {
                    Found::Some(..) => ctx.count("garbage:some-result-checked"),
                    Found::None => ctx.count("garbage:none"),
                    Found::Err(_) => ctx.count("garbage:err"),
                }
                if !check_sound(ctx, "sysv", &view, &q, &r) {
                    return;
                }
            }
            Err(_) => ctx.count("garbage:new-rejected"),
        }
    }
}

pub fn short_strings() -> Vec<Vec<u8>> {
    let mut v: Vec<Vec<u8>> = vec![Vec::new()];
    for a in ALPHABET16 {
        v.push(vec![a]);
        for b in ALPHABET16 {
            v.push(vec![a, b]);
            for c in ALPHABET16 {
                v.push(vec![a, b, c]);
            }
        }
    }
    v
}

fn run(ctx: &mut Ctx, si: usize, _case: u64) {
    match si {
        0 => well_formed(ctx),
        1 => corrupted(ctx),
        2 => {
            ctx.sample(|| "all 4369 strings of length <= 3 over a 16-symbol alphabet (incl. 0x80..0xff)".to_string());
            for s in short_strings() {
                ctx.eval();
                ctx.count("hash-fn:compared");
                ctx.nontrivial_bytes(&s);
                let (g, r) = (sysv_hash(&s), ref_sysv_hash(&s));
                if g != r {
                    ctx.violation("sysv_hash:value", format!("sysv_hash({}) = {g:#x}, gABI elf_hash = {r:#x}", hex_trunc(&s, 16)));
                    return;
                }
            }
        }
        _ => {
            let l = match ctx.rng.below(3) {
                0 => ctx.rng.usize_below(8),
                1 => ctx.rng.usize_below(40),
                _ => ctx.rng.usize_below(300),
            };
            let mut s = if ctx.rng.chance(1, 8) { crate::gen::symtab::sysv_extreme_name(&mut ctx.rng) } else { ctx.rng.bytes(l) };
            // symbol names are C strings: no embedded NUL
            for b in s.iter_mut() {
                if *b == 0 {
                    *b = 1;
                }
            }
            if ctx.rng.bool() {
                for b in s.iter_mut() {
                    *b |= 0x80 * (ctx.rng.below(4) == 0) as u8;
                }
            }
            ctx.eval();
            ctx.count("hash-fn:compared");
            ctx.nontrivial_bytes(&s);
            ctx.sample(|| format!("sysv_hash({})", hex_trunc(&s, 40)));
            let (g, r) = (sysv_hash(&s), ref_sysv_hash(&s));
            if g != r {
                ctx.set_input(&s);
                ctx.violation("sysv_hash:value", format!("sysv_hash({}) = {g:#x}, gABI elf_hash = {r:#x}", hex_trunc(&s, 64)));
            }
        }
    }
}

//! C06 — slice parser performs zero heap allocations (allocation clause; the configuration
//! clause is decided by the driver's compiler runs, see driver/phases.py).
use super::{scale, st, PropDef, Stratum};
use crate::corpus::{gen_input, KINDS};
use crate::ctx::{hex_trunc, Ctx, Tier};
use crate::monitor::alloc;
use crate::monitor::panic::guard;
use crate::walk::{walk_file, walk_standalone, Sink};
use elf::endian::{AnyEndian, BigEndian, LittleEndian};
use elf::file::Class;

pub const DEF: PropDef = PropDef { id: "C06", strata, run, setup, canaries: &["alloc", "panic"] };

fn setup(ctx: &mut Ctx) {
    ctx.floor("armed-windows", 1000);
    ctx.floor("armed-windows:file-opened", 200);
    ctx.floor("walker-calls-under-monitor", 100_000);
    // warm up everything that allocates lazily outside the crate (thread-locals of the panic guard)
    let _ = guard(|| ());
    let _ = crate::corpus::seeds();
}

fn strata(t: Tier) -> Vec<Stratum> {
    vec![st("walker-corpus", scale(t, 48_000, 480_000, 30))]
}

fn armed<F: FnOnce()>(ctx: &mut Ctx, what: &str, input: &[u8], f: F) -> bool {
    alloc::arm(u64::MAX);
    let r = guard(f);
    let rep = alloc::disarm();
    ctx.count("armed-windows");
    match r {
        Ok(()) => {
            if rep.calls != 0 {
                ctx.set_input(input);
                ctx.violation(&format!("alloc:{}", what.split(' ').next().unwrap_or("walk")), format!("{} heap allocation call(s) (largest {} bytes) while {}", rep.calls, rep.largest, what));
                return false;
            }
            true
        }
        Err(p) => {
            // a panic is C01's business (and the panic machinery itself allocates): not judged here
            ctx.count("window-cut-by-panic(not-judged)");
            let _ = p;
            true
        }
    }
}

fn run(ctx: &mut Ctx, _si: usize, _case: u64) {
    let small = ctx.tier == Tier::Miri;
    let kind = ctx.rng.below(KINDS);
    let input = gen_input(&mut ctx.rng, kind, small);
    let data = &input.bytes[..];
    let salt = ctx.rng.next_u64();
    ctx.sample(|| format!("{} ({} bytes) {}", input.what, data.len(), hex_trunc(data, 24)));
    let n = data.len() as u64;
    let mut calls = 0;
    let mut opened = false;
    {
        let mut s = Sink::new(n, false, salt);
        if !armed(ctx, &format!("walk_file::<AnyEndian> over {}", input.what), data, || walk_file::<AnyEndian>(data, &mut s)) {
            return;
        }
        calls += s.calls;
        opened = s.calls > 1;
    }
    {
        let mut s = Sink::new(n, false, salt);
        if salt & 4 == 0 {
            if !armed(ctx, &format!("walk_file::<LittleEndian> over {}", input.what), data, || walk_file::<LittleEndian>(data, &mut s)) {
                return;
            }
        } else if !armed(ctx, &format!("walk_file::<BigEndian> over {}", input.what), data, || walk_file::<BigEndian>(data, &mut s)) {
            return;
        }
        calls += s.calls;
    }
    {
        let w = data.len().min(if small { 96 } else { 600 });
        let start = if data.len() > w { (salt as usize) % (data.len() - w + 1) } else { 0 };
        let win = &data[start..start + w];
        let class = if salt & 1 == 0 { Class::ELF32 } else { Class::ELF64 };
        let mut s = Sink::new(w as u64, false, salt);
        if !armed(ctx, &format!("walk_standalone({class:?}) over bytes {start}.. of {}", input.what), data, || walk_standalone(AnyEndian::Big, class, win, &mut s)) {
            return;
        }
        calls += s.calls;
    }
    ctx.evals(calls);
    ctx.count_n("walker-calls-under-monitor", calls);
    if opened {
        ctx.count("armed-windows:file-opened");
        ctx.nontrivial_bytes(data);
    }
    let _ = BigEndian;
}

//! C02 — every ELF structure decodes exactly per the gABI layout for its class/order.
use super::c09::class_of;
use super::{ex, scale, st, PropDef, Stratum};
use crate::codec::{layout, mask, size_of, Enc, Rec, St};
use crate::ctx::{hex_trunc, Ctx, Tier};
use crate::reference::structs::{ehdr_fields, mismatch, mismatch_field, Fields};
use crate::rng::Rng;
use elf::compression::CompressionHeader;
use elf::dynamic::Dyn;
use elf::endian::{AnyEndian, BigEndian, EndianParse, LittleEndian};
use elf::file::{parse_ident, Class, FileHeader};
use elf::gnu_symver::{VerDef, VerDefAux, VerDefIterator, VerNeed, VerNeedAux, VerNeedIterator, VersionIndex};
use elf::hash::{GnuHashHeader, SysVHashHeader};
use elf::note::{Note, NoteGnuAbiTag, NoteIterator};
use elf::parse::ParseAt;
use elf::relocation::{Rel, Rela};
use elf::section::SectionHeader;
use elf::segment::ProgramHeader;
use elf::symbol::Symbol;
use elf::ElfBytes;

pub const DEF: PropDef = PropDef { id: "C02", strata, run, setup, canaries: &["panic"] };

const PARSEABLE: [&str; 16] = [
    "SectionHeader", "ProgramHeader", "Symbol", "Rel", "Rela", "Dyn", "CompressionHeader", "SysVHashHeader", "GnuHashHeader",
    "VersionIndex", "VerDef", "VerDefAux", "VerNeed", "VerNeedAux", "NoteGnuAbiTag", "FileHeader",
];

fn setup(ctx: &mut Ctx) {
    ctx.floor("header-that-looks-byte-swapped", 1000);
    ctx.floor("decoded-through-a-user-defined-spec", 1000);
    ctx.floor("record-sequences", 500);
    for n in PARSEABLE {
        for e in Enc::ALL {
            ctx.floor(&format!("decoded:{}:{}", n, e.name()), 20);
        }
    }
    ctx.floor("signed-field-negative", 100);
    ctx.floor("link-field-records-found", 100);
    ctx.floor("note-header-decoded", 100);
}

fn strata(t: Tier) -> Vec<Stratum> {
    vec![
        st("struct-roundtrip", scale(t, 24_000_000, 240_000_000, 200)),
        st("file-header", scale(t, 2_400_000, 24_000_000, 40)),
        st("link-fields-and-note-header", scale(t, 2_400_000, 24_000_000, 40)),
        ex("symbol-accessors-exhaustive", scale(t, 256, 256, 2)),
        ex("is-undefined-exhaustive", 1),
        ex("version-index-exhaustive", scale(t, 16, 16, 1)),
    ]
}

/// field values: uniform random, boundary values, per-byte distinct, top-bit-set patterns
pub fn gen_value(rng: &mut Rng, w: usize, k: usize) -> u64 {
    let m = mask(w);
    let bits = 8 * w as u32;
    let top = 1u64 << (bits - 1);
    (match rng.below(10) {
        0 => 0,
        1 => 1,
        2 => top - 1,
        3 => top,
        4 => m,
        5 => {
            // per-byte distinct pattern, different for every field
            let mut v = 0u64;
            for i in 0..w {
                v = (v << 8) | ((0x11 * (i as u64 + 1) + 0x10 * k as u64 + 1) & 0xff);
            }
            v
        }
        6 => top | rng.next_u64(),
        7 => {
            // bytes repeating with period 1, 2 or 4
            let p = [1u32, 2, 2, 4][rng.usize_below(4)];
            let unit = rng.next_u64() & (if p == 4 { 0xffff_ffff } else if p == 2 { 0xffff } else { 0xff });
            let mut v = 0u64;
            for i in 0..(8 / p) {
                v |= unit << (8 * p * i);
            }
            v
        }
        _ => rng.next_u64(),
    }) & m
}

fn gen_rec(rng: &mut Rng, st: St, c64: bool) -> Rec {
    let mut r = Rec::zero(st, c64);
    for (k, fd) in layout(st, c64).iter().enumerate() {
        r.v[k] = gen_value(rng, fd.w, k);
    }
    match st {
        St::Verdef => {
            r.set("vd_version", 1);
        }
        St::Verneed => {
            r.set("vn_version", 1);
        }
        _ => {}
    }
    r
}

fn roundtrip<P: ParseAt + Fields, E: EndianParse>(ctx: &mut Ctx, e: E, enc: Enc, spec: &str) {
    let rec = gen_rec(&mut ctx.rng, P::ST, enc.c64);
    let pre = ctx.rng.usize_below(41);
    let post = ctx.rng.usize_below(41);
    let mut buf = ctx.rng.bytes(pre);
    rec.encode(enc, &mut buf);
    let tail = ctx.rng.bytes(post);
    buf.extend_from_slice(&tail);
    let size = size_of(P::ST, enc.c64);
    let class = class_of(enc);
    ctx.eval();
    ctx.count(&format!("decoded:{}:{}", P::NAME, enc.name()));
    for (fd, v) in layout(P::ST, enc.c64).iter().zip(rec.v.iter()) {
        if fd.signed && crate::codec::sext(*v, fd.w) < 0 {
            ctx.count("signed-field-negative");
        }
    }
    let mut key = rec.bytes(enc);
    key.extend_from_slice(P::NAME.as_bytes());
    key.push(enc.idx() as u8);
    ctx.nontrivial_bytes(&key);
    ctx.sample(|| format!("{} {} {}: fields {:x?} at offset {} of {} bytes", P::NAME, enc.name(), spec, rec.v, pre, buf.len()));
    let mut off = pre;
    match P::parse_at(e, class, &mut off, &buf) {
        Ok(v) => {
            if let Some(m) = mismatch(&v.fields(), &rec) {
                let fld = mismatch_field(&v.fields(), &rec).unwrap_or("?");
                ctx.set_input(&buf);
                ctx.violation(
                    &format!("{}:{}:{}", P::NAME, enc.name(), fld),
                    format!("{}::parse_at ({}, {}) of {}: {}", P::NAME, enc.name(), spec, hex_trunc(&buf[pre..pre + size], 80), m),
                );
            }
            if off != pre + size {
                ctx.set_input(&buf);
                ctx.violation(
                    &format!("{}:{}:consumed", P::NAME, enc.name()),
                    format!("{}::parse_at ({}) consumed {} bytes, ABI size is {}", P::NAME, enc.name(), off.wrapping_sub(pre), size),
                );
            }
        }
        Err(err) => {
            ctx.set_input(&buf);
            ctx.violation(
                &format!("{}:{}:error", P::NAME, enc.name()),
                format!("{}::parse_at ({}, {}) of a complete record {} failed: {err:?}", P::NAME, enc.name(), spec, hex_trunc(&buf[pre..pre + size], 80)),
            );
        }
    }
    if P::size_for(class) != size {
        ctx.violation(&format!("{}:{}:size_for", P::NAME, enc.name()), format!("{}::size_for({:?}) = {} but the ABI size is {}", P::NAME, class, P::size_for(class), size));
    }
    if ctx.rng.chance(1, 6) {
        sequence::<P, E>(ctx, e, enc);
    }
}

/// A run of consecutive records read through the crate's table and iterator, however the iterator is driven (next, nth
/// on a fresh and on a used iterator, skip, step_by): item i must always be the decoding of the i-th ABI-sized record.
fn sequence<P: ParseAt + Fields, E: EndianParse>(ctx: &mut Ctx, e: E, enc: Enc) {
    use elf::parse::{ParsingIterator, ParsingTable};
    let n = 2 + ctx.rng.usize_below(5);
    let recs: Vec<Rec> = (0..n).map(|_| gen_rec(&mut ctx.rng, P::ST, enc.c64)).collect();
    let mut buf = Vec::new();
    for r in &recs {
        r.encode(enc, &mut buf);
    }
    let class = class_of(enc);
    ctx.count("record-sequences");
    let k = ctx.rng.usize_below(n);
    let j = ctx.rng.usize_below(n);
    let step = 2 + ctx.rng.usize_below(2);
    // (mode, yielded items, indices they must be the records of)
    let mut runs: Vec<(&str, Vec<P>, Vec<usize>)> = Vec::new();
    let fresh = || ParsingIterator::<E, P>::new(e, class, &buf);
    runs.push(("next", fresh().take(n + 2).collect(), (0..n).collect()));
    runs.push(("table.iter", ParsingTable::<E, P>::new(e, class, &buf).iter().take(n + 2).collect(), (0..n).collect()));
    runs.push(("fresh-nth", fresh().nth(k).into_iter().collect(), vec![k]));
    {
        // a used iterator: j x next(), then nth(k), then the rest
        let mut it = fresh();
        let mut got: Vec<P> = Vec::new();
        let mut want: Vec<usize> = Vec::new();
        for i in 0..j {
            got.extend(it.next());
            want.push(i);
        }
        if j + k < n {
            got.extend(it.nth(k));
            want.push(j + k);
            got.extend(it.by_ref().take(n + 2));
            want.extend(j + k + 1..n);
        }
        runs.push(("used-nth", got, want));
    }
    {
        let mut it = fresh();
        let mut got: Vec<P> = Vec::new();
        got.extend(it.next());
        got.extend(it.skip(k).take(n + 2));
        let mut want = vec![0usize];
        want.extend(1 + k..n);
        runs.push(("used-skip", got, want));
    }
    runs.push(("step_by", fresh().step_by(step).take(n + 2).collect(), (0..n).step_by(step).collect()));
    runs.push(("table.iter.step_by", ParsingTable::<E, P>::new(e, class, &buf).iter().step_by(step).take(n + 2).collect(), (0..n).step_by(step).collect()));
    for (mode, got, want) in runs {
        ctx.eval();
        let bad = if got.len() != want.len() {
            Some(format!("{} items, expected records {:?}", got.len(), want))
        } else {
            got.iter().zip(want.iter()).find_map(|(g, w)| mismatch(&g.fields(), &recs[*w]).map(|m| format!("item for record {w}: {m}")))
        };
        if let Some(m) = bad {
            ctx.set_input(&buf);
            ctx.violation(&format!("{}:sequence:{mode}", P::NAME), format!("{} x{n} ({}), driven by {mode} (j={j}, k={k}, step={step}): {m}", P::NAME, enc.name()));
            return;
        }
    }
}

fn roundtrip_ty<E: EndianParse>(ctx: &mut Ctx, ty: u64, e: E, enc: Enc, spec: &str) {
    match ty {
        0 => roundtrip::<SectionHeader, E>(ctx, e, enc, spec),
        1 => roundtrip::<ProgramHeader, E>(ctx, e, enc, spec),
        2 => roundtrip::<Symbol, E>(ctx, e, enc, spec),
        3 => roundtrip::<Rel, E>(ctx, e, enc, spec),
        4 => roundtrip::<Rela, E>(ctx, e, enc, spec),
        5 => roundtrip::<Dyn, E>(ctx, e, enc, spec),
        6 => roundtrip::<CompressionHeader, E>(ctx, e, enc, spec),
        7 => roundtrip::<SysVHashHeader, E>(ctx, e, enc, spec),
        8 => roundtrip::<GnuHashHeader, E>(ctx, e, enc, spec),
        9 => roundtrip::<VersionIndex, E>(ctx, e, enc, spec),
        10 => roundtrip::<VerDef, E>(ctx, e, enc, spec),
        11 => roundtrip::<VerDefAux, E>(ctx, e, enc, spec),
        12 => roundtrip::<VerNeed, E>(ctx, e, enc, spec),
        13 => roundtrip::<VerNeedAux, E>(ctx, e, enc, spec),
        14 => roundtrip::<NoteGnuAbiTag, E>(ctx, e, enc, spec),
        15 => roundtrip::<u32, E>(ctx, e, enc, spec),
        _ => roundtrip::<u64, E>(ctx, e, enc, spec),
    }
}

fn with_spec<F: FnMut(&mut Ctx, AnyOrFixed)>(ctx: &mut Ctx, enc: Enc, any: bool, mut f: F) {
    let s = match (any, enc.big) {
        (true, false) => AnyOrFixed::Any(AnyEndian::Little),
        (true, true) => AnyOrFixed::Any(AnyEndian::Big),
        (false, false) => AnyOrFixed::Le,
        (false, true) => AnyOrFixed::Be,
    };
    f(ctx, s)
}

#[derive(Clone, Copy)]
enum AnyOrFixed {
    Any(AnyEndian),
    Le,
    Be,
}

fn file_header_case<E: EndianParse + std::fmt::Debug>(ctx: &mut Ctx, enc: Enc, spec: &str) {
    let mut rec = gen_rec(&mut ctx.rng, St::EhdrTail, enc.c64);
    let osabi = ctx.rng.next_u64() as u8;
    let abiver = ctx.rng.next_u64() as u8;
    let via_file = ctx.rng.bool();
    if via_file {
        // tables absent, so that opening depends on nothing but the header
        rec.set("e_shoff", 0);
        rec.set("e_phoff", 0);
        if rec.get("e_phnum") == 0xffff {
            rec.set("e_phnum", 7);
        }
    }
    if ctx.rng.chance(1, 6) {
        // a header that looks like a well-formed one of the *other* byte order (EI_DATA mislabelled by a patching tool):
        // version and the three size fields read as the byte-swapped canonical values. The label still decides.
        let (eh, ph, sh): (u16, u16, u16) = if enc.c64 { (64, 56, 64) } else { (52, 32, 40) };
        rec.set("e_version", 1u32.swap_bytes() as u64);
        rec.set("e_ehsize", eh.swap_bytes() as u64);
        rec.set("e_phentsize", ph.swap_bytes() as u64);
        rec.set("e_shentsize", sh.swap_bytes() as u64);
        ctx.count("header-that-looks-byte-swapped");
    }
    let mut ident = vec![0x7f, b'E', b'L', b'F', if enc.c64 { 2 } else { 1 }, if enc.big { 2 } else { 1 }, 1, osabi, abiver];
    ident.extend_from_slice(&ctx.rng.bytes(7));
    let tail = rec.bytes(enc);
    ctx.eval();
    ctx.count(&format!("decoded:FileHeader:{}", enc.name()));
    let mut key = tail.clone();
    key.push(enc.idx() as u8);
    ctx.nontrivial_bytes(&key);
    ctx.sample(|| format!("FileHeader {} {} via_file={} tail fields {:x?}", enc.name(), spec, via_file, rec.v));
    let hdr: Result<FileHeader<E>, String> = if via_file {
        let mut file = ident.clone();
        file.extend_from_slice(&tail);
        let extra = ctx.rng.usize_below(20);
        file.extend_from_slice(&ctx.rng.bytes(extra));
        ctx.set_input(&file);
        ElfBytes::<E>::minimal_parse(&file).map(|f| f.ehdr).map_err(|e| format!("{e:?}"))
    } else {
        let mut t = tail.clone();
        let extra = ctx.rng.usize_below(9);
        t.extend_from_slice(&ctx.rng.bytes(extra));
        ctx.set_input(&t);
        parse_ident::<E>(&ident).and_then(|id| FileHeader::parse_tail(id, &t)).map_err(|e| format!("{e:?}"))
    };
    match hdr {
        Ok(h) => {
            if let Some(m) = mismatch(&ehdr_fields(&h), &rec) {
                let fld = mismatch_field(&ehdr_fields(&h), &rec).unwrap_or("?");
                ctx.violation(&format!("FileHeader:{}:{}", enc.name(), fld), format!("FileHeader ({}, {}, via_file={}): {}", enc.name(), spec, via_file, m));
            }
            let class_ok = (h.class == Class::ELF64) == enc.c64;
            if !class_ok || h.osabi != osabi || h.abiversion != abiver || h.endianness.is_big() != enc.big {
                ctx.violation(
                    &format!("FileHeader:{}:ident", enc.name()),
                    format!("ident decode: class {:?} osabi {} abiversion {} big {} — expected c64={} osabi={} abiversion={} big={}", h.class, h.osabi, h.abiversion, h.endianness.is_big(), enc.c64, osabi, abiver, enc.big),
                );
            }
        }
        Err(e) => {
            ctx.violation(&format!("FileHeader:{}:error", enc.name()), format!("a complete, valid header ({}, {}, via_file={}) was rejected: {}", enc.name(), spec, via_file, e));
        }
    }
}

/// Two-record blobs whose second record is only found if the private link field was decoded
/// from the right bytes; and the (private) note header through a one-note section.
fn link_fields_case<E: EndianParse>(ctx: &mut Ctx, e: E, enc: Enc) {
    let class = class_of(enc);
    let which = ctx.rng.below(5);
    ctx.eval();
    match which {
        0 | 1 => {
            // verdef: rec0 at 0, rec1 at `next`; aux of rec1 at next+aux, second aux at +vda_next
            let next = 20 + ctx.rng.usize_below(200);
            let aux = 20 + ctx.rng.usize_below(100);
            let aux_next = 8 + ctx.rng.usize_below(60);
            let total = next + aux + aux_next + 8 + ctx.rng.usize_below(16);
            let mut buf = ctx.rng.bytes(total);
            let r0 = gen_rec(&mut ctx.rng, St::Verdef, enc.c64).with("vd_next", next as u64).with("vd_cnt", 0);
            let r1 = gen_rec(&mut ctx.rng, St::Verdef, enc.c64).with("vd_next", 0).with("vd_aux", aux as u64).with("vd_cnt", 2);
            let a0 = gen_rec(&mut ctx.rng, St::Verdaux, enc.c64).with("vda_next", aux_next as u64);
            let a1 = gen_rec(&mut ctx.rng, St::Verdaux, enc.c64).with("vda_next", 0);
            put(&mut buf, 0, &r0.bytes(enc));
            put(&mut buf, next, &r1.bytes(enc));
            put(&mut buf, next + aux, &a0.bytes(enc));
            put(&mut buf, next + aux + aux_next, &a1.bytes(enc));
            ctx.set_input(&buf);
            ctx.sample(|| format!("verdef link fields {}: vd_next={} vd_aux={} vda_next={}", enc.name(), next, aux, aux_next));
            let items: Vec<_> = VerDefIterator::new(e, class, 2, 0, &buf).take(4).collect();
            if items.len() != 2 {
                ctx.violation(&format!("VerDef:{}:vd_next", enc.name()), format!("2 linked verdef records (vd_next={next}) yielded {} records", items.len()));
                return;
            }
            let mut it = items.into_iter();
            let (d0, _) = it.next().unwrap();
            let (d1, auxit) = it.next().unwrap();
            if let Some(m) = mismatch(&d0.fields(), &r0).or(mismatch(&d1.fields(), &r1)) {
                ctx.violation(&format!("VerDef:{}:vd_next", enc.name()), format!("linked verdef records decoded wrongly: {m}"));
                return;
            }
            let auxes: Vec<VerDefAux> = auxit.take(4).collect();
            if auxes.len() != 2 || mismatch(&auxes[0].fields(), &a0).is_some() || mismatch(&auxes[1].fields(), &a1).is_some() {
                ctx.violation(&format!("VerDef:{}:vd_aux/vda_next", enc.name()), format!("aux chain at vd_aux={aux}, vda_next={aux_next}: got {:?}, expected names {:#x},{:#x}", auxes, a0.get("vda_name"), a1.get("vda_name")));
                return;
            }
            ctx.count("link-field-records-found");
        }
        2 | 3 => {
            let next = 16 + ctx.rng.usize_below(200);
            let aux = 16 + ctx.rng.usize_below(100);
            let aux_next = 16 + ctx.rng.usize_below(60);
            let total = next + aux + aux_next + 16 + ctx.rng.usize_below(16);
            let mut buf = ctx.rng.bytes(total);
            let r0 = gen_rec(&mut ctx.rng, St::Verneed, enc.c64).with("vn_next", next as u64).with("vn_cnt", 0);
            let r1 = gen_rec(&mut ctx.rng, St::Verneed, enc.c64).with("vn_next", 0).with("vn_aux", aux as u64).with("vn_cnt", 2);
            let a0 = gen_rec(&mut ctx.rng, St::Vernaux, enc.c64).with("vna_next", aux_next as u64);
            let a1 = gen_rec(&mut ctx.rng, St::Vernaux, enc.c64).with("vna_next", 0);
            put(&mut buf, 0, &r0.bytes(enc));
            put(&mut buf, next, &r1.bytes(enc));
            put(&mut buf, next + aux, &a0.bytes(enc));
            put(&mut buf, next + aux + aux_next, &a1.bytes(enc));
            ctx.set_input(&buf);
            ctx.sample(|| format!("verneed link fields {}: vn_next={} vn_aux={} vna_next={}", enc.name(), next, aux, aux_next));
            let items: Vec<_> = VerNeedIterator::new(e, class, 2, 0, &buf).take(4).collect();
            if items.len() != 2 {
                ctx.violation(&format!("VerNeed:{}:vn_next", enc.name()), format!("2 linked verneed records (vn_next={next}) yielded {} records", items.len()));
                return;
            }
            let mut it = items.into_iter();
            let (d0, _) = it.next().unwrap();
            let (d1, auxit) = it.next().unwrap();
            if let Some(m) = mismatch(&d0.fields(), &r0).or(mismatch(&d1.fields(), &r1)) {
                ctx.violation(&format!("VerNeed:{}:vn_next", enc.name()), format!("linked verneed records decoded wrongly: {m}"));
                return;
            }
            let auxes: Vec<VerNeedAux> = auxit.take(4).collect();
            if auxes.len() != 2 || mismatch(&auxes[0].fields(), &a0).is_some() || mismatch(&auxes[1].fields(), &a1).is_some() {
                ctx.violation(&format!("VerNeed:{}:vn_aux/vna_next", enc.name()), format!("aux chain at vn_aux={aux}, vna_next={aux_next}: got {:?}", auxes));
                return;
            }
            ctx.count("link-field-records-found");
        }
        _ => {
            // note header: three 32-bit words in file order for both classes
            let namesz = 1 + ctx.rng.usize_below(12);
            let descsz = ctx.rng.usize_below(24);
            let ntype = gen_value(&mut ctx.rng, 4, 2);
            let mut name = ctx.rng.bytes(namesz);
            name[0] = b'X'; // never "GNU\0"
            let desc = ctx.rng.bytes(descsz);
            let mut buf = Vec::new();
            enc.put(&mut buf, namesz as u64, 4);
            enc.put(&mut buf, descsz as u64, 4);
            enc.put(&mut buf, ntype, 4);
            buf.extend_from_slice(&name);
            while buf.len() % 4 != 0 {
                buf.push(0);
            }
            buf.extend_from_slice(&desc);
            while buf.len() % 4 != 0 {
                buf.push(0);
            }
            ctx.set_input(&buf);
            ctx.sample(|| format!("note header {}: namesz={} descsz={} type={:#x}", enc.name(), namesz, descsz, ntype));
            let notes: Vec<Note> = NoteIterator::new(e, class, 4, &buf).take(3).collect();
            let ok = notes.len() == 1
                && match &notes[0] {
                    Note::Unknown(n) => n.n_type == ntype && n.name == &name[..] && n.desc == &desc[..],
                    _ => false,
                };
            if !ok {
                ctx.violation(&format!("NoteHeader:{}", enc.name()), format!("one note (namesz={namesz}, descsz={descsz}, type={ntype:#x}) decoded as {:?}", notes));
                return;
            }
            ctx.count("note-header-decoded");
        }
    }
}

fn put(buf: &mut [u8], at: usize, bytes: &[u8]) {
    buf[at..at + bytes.len()].copy_from_slice(bytes);
}

fn run(ctx: &mut Ctx, si: usize, case: u64) {
    match si {
        0 => {
            let ty = ctx.rng.below(17);
            let enc = Enc::ALL[ctx.rng.usize_below(4)];
            let any = ctx.rng.bool();
            if ctx.rng.chance(1, 5) {
                // a byte-order spec defined by a user of the crate
                ctx.count("decoded-through-a-user-defined-spec");
                if enc.big {
                    roundtrip_ty(ctx, ty, super::util::UserBig, enc, "user-defined big-endian spec");
                } else {
                    roundtrip_ty(ctx, ty, super::util::UserLittle, enc, "user-defined little-endian spec");
                }
                return;
            }
            with_spec(ctx, enc, any, |ctx, s| match s {
                AnyOrFixed::Any(a) => roundtrip_ty(ctx, ty, a, enc, "AnyEndian"),
                AnyOrFixed::Le => roundtrip_ty(ctx, ty, LittleEndian, enc, "LittleEndian"),
                AnyOrFixed::Be => roundtrip_ty(ctx, ty, BigEndian, enc, "BigEndian"),
            });
        }
        1 => {
            let enc = Enc::ALL[ctx.rng.usize_below(4)];
            let any = ctx.rng.bool();
            match (any, enc.big) {
                (true, _) => file_header_case::<AnyEndian>(ctx, enc, "AnyEndian"),
                (false, false) => file_header_case::<LittleEndian>(ctx, enc, "LittleEndian"),
                (false, true) => file_header_case::<BigEndian>(ctx, enc, "BigEndian"),
            }
        }
        2 => {
            let enc = Enc::ALL[ctx.rng.usize_below(4)];
            let any = ctx.rng.bool();
            with_spec(ctx, enc, any, |ctx, s| match s {
                AnyOrFixed::Any(a) => link_fields_case(ctx, a, enc),
                AnyOrFixed::Le => link_fields_case(ctx, LittleEndian, enc),
                AnyOrFixed::Be => link_fields_case(ctx, BigEndian, enc),
            });
        }
        3 => {
            // ELF32_ST_BIND(i) = i >> 4, ELF32_ST_TYPE(i) = i & 0xf, ELF32_ST_VISIBILITY(o) = o & 0x3
            let info = case as u8;
            ctx.sample(|| format!("st_info={info:#x} x all 256 st_other"));
            for other in (0..=255u8).step_by(if ctx.tier == Tier::Miri { 17 } else { 1 }) {
                ctx.eval();
                let s = Symbol { st_name: 0, st_shndx: 1, st_info: info, st_other: other, st_value: 0, st_size: 0 };
                ctx.nontrivial(((info as u64) << 8) | other as u64);
                if s.st_bind() != info >> 4 || s.st_symtype() != info & 0xf || s.st_vis() != other & 0x3 {
                    ctx.violation("Symbol:accessors", format!("st_info={info:#x} st_other={other:#x}: bind {} type {} vis {}", s.st_bind(), s.st_symtype(), s.st_vis()));
                }
            }
        }
        4 => {
            ctx.sample(|| "is_undefined over all 65536 st_shndx".to_string());
            let stride = if ctx.tier == Tier::Miri { 257 } else { 1 };
            for shndx in (0..=0xffffu32).step_by(stride) {
                ctx.eval();
                let s = Symbol { st_name: 0, st_shndx: shndx as u16, st_info: 0, st_other: 0, st_value: 0, st_size: 0 };
                ctx.nontrivial(0x1_0000 | shndx as u64);
                if s.is_undefined() != (shndx == 0) {
                    ctx.violation("Symbol:is_undefined", format!("st_shndx={shndx:#x}: is_undefined() = {}", s.is_undefined()));
                }
            }
        }
        _ => {
            let nchunks: u32 = match ctx.tier {
                Tier::Miri => 1,
                _ => 16,
            };
            let per = 0x10000 / nchunks;
            let lo = case as u32 * per;
            ctx.sample(|| format!("VersionIndex {lo:#x}..{:#x}", lo + per));
            let stride = if ctx.tier == Tier::Miri { 251 } else { 1 };
            for v in (lo..lo + per).step_by(stride) {
                ctx.eval();
                let vi = VersionIndex(v as u16);
                ctx.nontrivial(0x2_0000 | v as u64);
                let idx = (v & 0x7fff) as u16;
                if vi.index() != idx || vi.is_hidden() != (v & 0x8000 != 0) || vi.is_local() != (idx == 0) || vi.is_global() != (idx == 1) {
                    ctx.violation("VersionIndex:accessors", format!("versym={v:#x}: index {} hidden {} local {} global {}", vi.index(), vi.is_hidden(), vi.is_local(), vi.is_global()));
                }
            }
        }
    }
}

/// Judge the decode of arbitrary record bytes (libFuzzer target `decode`): whatever the bytes are, a
/// successful parse must expose exactly the reference decode and consume exactly the ABI size; a complete
/// record may only be refused by the version check of VerDef/VerNeed.
pub fn decode_bytes(ctx: &mut Ctx, ty: u64, enc: Enc, any: bool, bytes: &[u8]) {
    fn one<P: ParseAt + Fields, E: EndianParse>(ctx: &mut Ctx, e: E, enc: Enc, bytes: &[u8]) {
        let size = size_of(P::ST, enc.c64);
        let class = class_of(enc);
        ctx.eval();
        let mut off = 0usize;
        let r = P::parse_at(e, class, &mut off, bytes);
        match (Rec::decode(P::ST, enc, bytes, 0), r) {
            (Some(rec), Ok(v)) => {
                if let Some(m) = mismatch(&v.fields(), &rec) {
                    let fld = mismatch_field(&v.fields(), &rec).unwrap_or("?");
                    ctx.violation(&format!("{}:{}:{}", P::NAME, enc.name(), fld), format!("{}::parse_at ({}) of {}: {}", P::NAME, enc.name(), hex_trunc(&bytes[..size], 80), m));
                } else if off != size {
                    ctx.violation(&format!("{}:{}:consumed", P::NAME, enc.name()), format!("{}::parse_at ({}) of {} consumed {} bytes, ABI size is {}", P::NAME, enc.name(), hex_trunc(&bytes[..size], 80), off, size));
                }
            }
            (Some(rec), Err(e)) => {
                let version_refusal = (P::ST == St::Verdef && rec.get("vd_version") != 1) || (P::ST == St::Verneed && rec.get("vn_version") != 1);
                if !version_refusal {
                    ctx.violation(&format!("{}:{}:error", P::NAME, enc.name()), format!("{}::parse_at ({}) of a complete record {} failed: {e:?}", P::NAME, enc.name(), hex_trunc(&bytes[..size], 80)));
                }
            }
            (None, Ok(_)) => {
                ctx.violation(&format!("{}:{}:parsed-short-buffer", P::NAME, enc.name()), format!("{}::parse_at ({}) succeeded on {} bytes, the structure has {}", P::NAME, enc.name(), bytes.len(), size));
            }
            (None, Err(_)) => {}
        }
    }
    fn by_ty<E: EndianParse>(ctx: &mut Ctx, ty: u64, e: E, enc: Enc, b: &[u8]) {
        match ty % 17 {
            0 => one::<SectionHeader, E>(ctx, e, enc, b),
            1 => one::<ProgramHeader, E>(ctx, e, enc, b),
            2 => one::<Symbol, E>(ctx, e, enc, b),
            3 => one::<Rel, E>(ctx, e, enc, b),
            4 => one::<Rela, E>(ctx, e, enc, b),
            5 => one::<Dyn, E>(ctx, e, enc, b),
            6 => one::<CompressionHeader, E>(ctx, e, enc, b),
            7 => one::<SysVHashHeader, E>(ctx, e, enc, b),
            8 => one::<GnuHashHeader, E>(ctx, e, enc, b),
            9 => one::<VersionIndex, E>(ctx, e, enc, b),
            10 => one::<VerDef, E>(ctx, e, enc, b),
            11 => one::<VerDefAux, E>(ctx, e, enc, b),
            12 => one::<VerNeed, E>(ctx, e, enc, b),
            13 => one::<VerNeedAux, E>(ctx, e, enc, b),
            14 => one::<NoteGnuAbiTag, E>(ctx, e, enc, b),
            15 => one::<u32, E>(ctx, e, enc, b),
            _ => one::<u64, E>(ctx, e, enc, b),
        }
    }
    ctx.set_input(bytes);
    match (any, enc.big) {
        (true, false) => by_ty(ctx, ty, AnyEndian::Little, enc, bytes),
        (true, true) => by_ty(ctx, ty, AnyEndian::Big, enc, bytes),
        (false, false) => by_ty(ctx, ty, LittleEndian, enc, bytes),
        (false, true) => by_ty(ctx, ty, BigEndian, enc, bytes),
    }
}

//! C20 — alternative access paths to the same data agree.
use super::util::{open_slice, open_stream};
use super::{scale, st, PropDef, Stratum};
use crate::codec::{k, Enc};
use crate::ctx::{Ctx, Tier};
use crate::gen::elf::build;
use crate::gen::object::{gen_object, GenOpts};
use crate::observe::{dump_dynamic, dump_hashes, dump_notes, dump_relas, dump_rels, dump_strtab, dump_symtab};
use crate::reference::locator::{ref_open, RefFile, ShStrtab};
use elf::endian::AnyEndian;
use elf::hash::{GnuHashTable, SysVHashTable};
use elf::note::NoteIterator;
use elf::parse::ParseError;
use elf::relocation::{RelIterator, RelaIterator};
use elf::string_table::StringTable;
use elf::ElfBytes;

pub const DEF: PropDef = PropDef { id: "C20", strata, run, setup, canaries: &["panic"] };

fn setup(ctx: &mut Ctx) {
    ctx.floor("objects", 1000);
    ctx.floor("common:symtab-compared", 300);
    ctx.floor("common:dynsyms-compared", 300);
    ctx.floor("common:dynamic-compared", 300);
    ctx.floor("common:sysv-hash-compared", 100);
    ctx.floor("common:gnu-hash-compared", 100);
    ctx.floor("common:absent-components", 300);
    ctx.floor("by-name:queries", 5000);
    ctx.floor("by-name:found", 2000);
    ctx.floor("by-name:absent", 500);
    ctx.floor("by-name:duplicate-name-first-wins", 100);
    ctx.floor("by-name:prefix-or-suffix-query", 500);
    ctx.floor("by-name:non-utf8-section-name-present", 50);
    ctx.floor("by-name:query-with-embedded-nul", 500);
    ctx.floor("by-name:unterminated-tail-query", 50);
    ctx.floor("shstrtab-without-final-nul", 100);
    ctx.floor("shstrtab-without-leading-nul", 100);
    ctx.floor("typed:refused", 5000);
    ctx.floor("typed:accepted-and-equal", 2000);
    ctx.floor("typed:segment-notes", 300);
    ctx.floor("dynamic:section-vs-segment", 100);
}

fn strata(t: Tier) -> Vec<Stratum> {
    vec![st("generated-objects", scale(t, 320_000, 3_200_000, 4))]
}

fn first_named(r: &RefFile<'_>, q: &[u8]) -> Option<usize> {
    for i in 0..r.shnum() {
        if let Some(sh) = r.shdr(i) {
            if let Some(n) = r.sec_name(&sh) {
                if std::str::from_utf8(n).is_ok() && n == q {
                    return Some(i);
                }
            }
        }
    }
    None
}

fn check_common(ctx: &mut Ctx, f: &ElfBytes<'_, AnyEndian>, r: &RefFile<'_>, what: &str) -> bool {
    let c = match f.find_common_data() {
        Ok(c) => c,
        Err(e) => {
            ctx.violation("find_common_data:fails-on-well-formed", format!("{what}: find_common_data failed on a well-formed object: {e:?}"));
            return false;
        }
    };
    ctx.eval();
    // .symtab
    match (f.symbol_table(), &c.symtab, &c.symtab_strs) {
        (Ok(Some((t, s))), Some(ct), Some(cs)) => {
            ctx.count("common:symtab-compared");
            if dump_symtab(&t, &s) != dump_symtab(ct, cs) {
                ctx.violation("common:symtab-differs", format!("{what}: find_common_data().symtab differs from symbol_table()"));
                return false;
            }
        }
        (Ok(None), None, None) => ctx.count("common:absent-components"),
        (a, b, c2) => {
            ctx.violation("common:symtab-presence", format!("{what}: symbol_table() -> {:?} but common symtab={} strs={}", a.map(|o| o.is_some()).map_err(|e| format!("{e:?}")), b.is_some(), c2.is_some()));
            return false;
        }
    }
    // .dynsym
    match (f.dynamic_symbol_table(), &c.dynsyms, &c.dynsyms_strs) {
        (Ok(Some((t, s))), Some(ct), Some(cs)) => {
            ctx.count("common:dynsyms-compared");
            if dump_symtab(&t, &s) != dump_symtab(ct, cs) {
                ctx.violation("common:dynsyms-differs", format!("{what}: find_common_data().dynsyms differs from dynamic_symbol_table()"));
                return false;
            }
            // hash tables: common vs constructed over section_data of the SHT_HASH / SHT_GNU_HASH section
            for (ty, gnu) in [(k::SHT_HASH, false), (k::SHT_GNU_HASH, true)] {
                let sec = r.first_section_of_type(ty);
                let have = if gnu { c.gnu_hash.is_some() } else { c.sysv_hash.is_some() };
                match sec {
                    None => {
                        if have {
                            ctx.violation("common:hash-presence", format!("{what}: common data has a {} table but there is no such section", if gnu { "gnu hash" } else { "sysv hash" }));
                            return false;
                        }
                        ctx.count("common:absent-components");
                    }
                    Some((i, _)) => {
                        let sh = f.section_headers().and_then(|t| t.get(i).ok());
                        let data = sh.and_then(|sh| f.section_data(&sh).ok()).map(|d| d.0);
                        let Some(data) = data else {
                            ctx.violation("common:hash-section-data", format!("{what}: section_data of the hash section {i} failed"));
                            return false;
                        };
                        let ok = if gnu {
                            match (GnuHashTable::new(f.ehdr.endianness, f.ehdr.class, data), &c.gnu_hash) {
                                (Ok(t), Some(ct)) => {
                                    ctx.count("common:gnu-hash-compared");
                                    dump_hashes(None, Some(&t), ct_syms(&c), cs) == dump_hashes(None, Some(ct), ct_syms(&c), cs)
                                }
                                _ => false,
                            }
                        } else {
                            match (SysVHashTable::new(f.ehdr.endianness, f.ehdr.class, data), &c.sysv_hash) {
                                (Ok(t), Some(ct)) => {
                                    ctx.count("common:sysv-hash-compared");
                                    dump_hashes(Some(&t), None, ct_syms(&c), cs) == dump_hashes(Some(ct), None, ct_syms(&c), cs)
                                }
                                _ => false,
                            }
                        };
                        if !ok {
                            ctx.violation(&format!("common:{}-differs", if gnu { "gnu-hash" } else { "sysv-hash" }), format!("{what}: the hash table from find_common_data differs from the one constructed over section_data of section {i} (lookups of every symbol name and absent names)"));
                            return false;
                        }
                    }
                }
            }
        }
        (Ok(None), None, None) => ctx.count("common:absent-components"),
        (a, b, c2) => {
            ctx.violation("common:dynsyms-presence", format!("{what}: dynamic_symbol_table() -> {:?} but common dynsyms={} strs={}", a.map(|o| o.is_some()).map_err(|e| format!("{e:?}")), b.is_some(), c2.is_some()));
            return false;
        }
    }
    match (f.dynamic(), &c.dynamic) {
        (Ok(Some(t)), Some(ct)) => {
            ctx.count("common:dynamic-compared");
            if dump_dynamic(&t) != dump_dynamic(ct) {
                ctx.violation("common:dynamic-differs", format!("{what}: find_common_data().dynamic differs from dynamic()"));
                return false;
            }
        }
        (Ok(None), None) => ctx.count("common:absent-components"),
        (a, b) => {
            ctx.violation("common:dynamic-presence", format!("{what}: dynamic() -> {:?} but common dynamic={}", a.map(|o| o.is_some()).map_err(|e| format!("{e:?}")), b.is_some()));
            return false;
        }
    }
    true
}

fn ct_syms<'a, 'd>(c: &'a elf::CommonElfData<'d, AnyEndian>) -> &'a elf::symbol::SymbolTable<'d, AnyEndian> {
    c.dynsyms.as_ref().unwrap()
}

fn check_by_name(ctx: &mut Ctx, f: &ElfBytes<'_, AnyEndian>, data: &[u8], r: &RefFile<'_>, what: &str) -> bool {
    if !matches!(r.shstrtab(), ShStrtab::Range(..)) {
        return true;
    }
    // queries: every section name, every proper prefix/suffix of one, absent names
    let mut qs: Vec<(String, bool)> = Vec::new();
    let mut seen_names: Vec<Vec<u8>> = Vec::new();
    for i in 0..r.shnum() {
        if let Some(n) = r.shdr(i).and_then(|sh| r.sec_name(&sh)) {
            if seen_names.iter().any(|x| x == n) && std::str::from_utf8(n).is_ok() {
                ctx.count("by-name:duplicate-name-first-wins");
            }
            seen_names.push(n.to_vec());
            match std::str::from_utf8(n) {
                Ok(s) => {
                    qs.push((s.to_string(), false));
                    if s.len() > 1 {
                        if s.is_char_boundary(s.len() - 1) {
                            qs.push((s[..s.len() - 1].to_string(), true));
                        }
                        if s.is_char_boundary(1) {
                            qs.push((s[1..].to_string(), true));
                        }
                    }
                    qs.push((format!("{s}x"), true));
                }
                Err(_) => ctx.count("by-name:non-utf8-section-name-present"),
            }
        }
    }
    // queries cut out of the raw table: entries joined across their NUL, and the unterminated tail
    if let ShStrtab::Range(s0, l0) = r.shstrtab() {
        let tab = &data[s0..s0 + l0];
        for i in 0..r.shnum().min(40) {
            if let Some(sh) = r.shdr(i) {
                let o = sh.get("sh_name") as usize;
                if o < tab.len() {
                    let rest = &tab[o..];
                    match rest.iter().position(|c| *c == 0) {
                        Some(e) => {
                            // this entry, its NUL and the next entry
                            let after = &rest[e + 1..];
                            let e2 = after.iter().position(|c| *c == 0).unwrap_or(after.len());
                            if let Ok(q) = std::str::from_utf8(&rest[..e + 1 + e2]) {
                                qs.push((q.to_string(), true));
                                ctx.count("by-name:query-with-embedded-nul");
                            }
                            if let Ok(q) = std::str::from_utf8(&rest[..e + 1]) {
                                qs.push((q.to_string(), true));
                            }
                        }
                        None => {
                            if let Ok(q) = std::str::from_utf8(rest) {
                                qs.push((q.to_string(), true));
                                ctx.count("by-name:unterminated-tail-query");
                            }
                        }
                    }
                }
            }
        }
    }
    qs.push((".definitely-absent".to_string(), false));
    qs.push(("\u{e9}".to_string(), false));
    let mut stream = open_stream(data).ok();
    for (q, derived) in qs {
        ctx.eval();
        ctx.count("by-name:queries");
        if derived {
            ctx.count("by-name:prefix-or-suffix-query");
        }
        let want = first_named(r, q.as_bytes());
        match want {
            Some(_) => ctx.count("by-name:found"),
            None => ctx.count("by-name:absent"),
        }
        let want_hdr = want.and_then(|i| f.section_headers().and_then(|t| t.get(i).ok()));
        match f.section_header_by_name(&q) {
            Ok(got) => {
                if got != want_hdr {
                    ctx.violation("by-name:slice:wrong-section", format!("{what}: section_header_by_name({q:?}) returned {:?}; the first section with that name is index {:?} = {:?}", got, want, want_hdr));
                    return false;
                }
            }
            Err(e) => {
                ctx.violation("by-name:slice:error", format!("{what}: section_header_by_name({q:?}) failed: {e:?}"));
                return false;
            }
        }
        if let Some(s) = stream.as_mut() {
            match s.section_header_by_name(&q) {
                Ok(got) => {
                    if got.copied() != want_hdr {
                        ctx.violation("by-name:stream:wrong-section", format!("{what}: stream section_header_by_name({q:?}) returned {:?}; expected index {:?}", got, want));
                        return false;
                    }
                }
                Err(e) => {
                    ctx.violation("by-name:stream:error", format!("{what}: stream section_header_by_name({q:?}) failed: {e:?}"));
                    return false;
                }
            }
        }
    }
    true
}

fn refused(e: &ParseError, ty: u32, want: u32) -> bool {
    matches!(e, ParseError::UnexpectedSectionType((a, b)) if *a == ty && *b == want)
}

fn check_typed_views(ctx: &mut Ctx, f: &ElfBytes<'_, AnyEndian>, data: &[u8], what: &str) -> bool {
    let e = f.ehdr.endianness;
    let class = f.ehdr.class;
    let mut stream = open_stream(data).ok();
    if let Some(shdrs) = f.section_headers() {
        for (i, sh) in shdrs.iter().enumerate() {
            let raw = f.section_data(&sh).map(|d| d.0);
            let compressed = sh.sh_flags & k::SHF_COMPRESSED != 0;
            // (view name, required type, dump via the typed view, dump via the raw bytes)
            for view in 0..4 {
                ctx.eval();
                let (name, want_ty) = [("strtab", k::SHT_STRTAB), ("rels", k::SHT_REL), ("relas", k::SHT_RELA), ("notes", k::SHT_NOTE)][view];
                let typed: Result<String, ParseError> = match view {
                    0 => f.section_data_as_strtab(&sh).map(|t| dump_strtab(&t)),
                    1 => f.section_data_as_rels(&sh).map(|it| dump_rels(it, 100_000)),
                    2 => f.section_data_as_relas(&sh).map(|it| dump_relas(it, 100_000)),
                    _ => f.section_data_as_notes(&sh).map(|it| dump_notes(it, 100_000)),
                };
                let styped: Option<Result<String, ParseError>> = stream.as_mut().map(|s| match view {
                    0 => s.section_data_as_strtab(&sh).map(|t| dump_strtab(&t)),
                    1 => s.section_data_as_rels(&sh).map(|it| dump_rels(it, 100_000)),
                    2 => s.section_data_as_relas(&sh).map(|it| dump_relas(it, 100_000)),
                    _ => s.section_data_as_notes(&sh).map(|it| dump_notes(it, 100_000)),
                });
                if sh.sh_type != want_ty {
                    ctx.count("typed:refused");
                    for (who, r) in [("slice", Some(&typed)), ("stream", styped.as_ref())] {
                        if let Some(r) = r {
                            match r {
                                Err(err) if refused(err, sh.sh_type, want_ty) => {}
                                other => {
                                    ctx.violation(&format!("typed:{name}:{who}:not-refused"), format!("{what}: section {i} has type {:#x}; {who} section_data_as_{name} returned {:?} instead of UnexpectedSectionType(({:#x},{:#x}))", sh.sh_type, other.as_ref().map(|_| "Ok"), sh.sh_type, want_ty));
                                    return false;
                                }
                            }
                        }
                    }
                    continue;
                }
                // type matches: exactly the entries decodable from the raw bytes
                let via_raw: Result<String, ()> = match &raw {
                    Ok(b) => Ok(match view {
                        0 => dump_strtab(&StringTable::new(b)),
                        1 => dump_rels(RelIterator::new(e, class, b), 100_000),
                        2 => dump_relas(RelaIterator::new(e, class, b), 100_000),
                        _ => dump_notes(NoteIterator::new(e, class, sh.sh_addralign as usize, b), 100_000),
                    }),
                    Err(_) => Err(()),
                };
                match (&typed, &via_raw) {
                    (Ok(a), Ok(b)) if a == b => ctx.count("typed:accepted-and-equal"),
                    (Err(_), Err(_)) => {}
                    (a, b) => {
                        ctx.violation(&format!("typed:{name}:slice:differs-from-raw"), format!("{what}: section {i}: section_data_as_{name} -> {:?} but decoding section_data's bytes gives {:?}", a.as_ref().map(|s| s.chars().take(160).collect::<String>()).map_err(|e| format!("{e:?}")), b.as_ref().map(|s| s.chars().take(160).collect::<String>())));
                        return false;
                    }
                }
                // round 9: "exactly the entries decodable from the raw bytes" also against a decoder that is not the
                // crate's own (both paths above share Note::parse_at): the reference note walker of C14
                if view == 3 && !compressed {
                    if let (Ok(b), Ok(it)) = (&raw, f.section_data_as_notes(&sh)) {
                        ctx.count("typed:notes:reference-decode");
                        let before = ctx.violations.len();
                        super::c14::check_iteration(ctx, "typed:notes:slice:reference-decode", matches!(e, AnyEndian::Big), sh.sh_addralign, b, it);
                        if ctx.violations.len() != before {
                            return false;
                        }
                    }
                }
                if !compressed {
                    if let Some(sr) = &styped {
                        match (sr, &via_raw) {
                            (Ok(a), Ok(b)) if a == b => {}
                            (Err(_), Err(_)) => {}
                            (a, b) => {
                                ctx.violation(&format!("typed:{name}:stream:differs-from-raw"), format!("{what}: section {i}: stream section_data_as_{name} -> {:?} but decoding the raw bytes gives {:?}", a.as_ref().map(|s| s.chars().take(160).collect::<String>()).map_err(|e| format!("{e:?}")), b.as_ref().map(|s| s.chars().take(160).collect::<String>())));
                                return false;
                            }
                        }
                    }
                }
            }
        }
    }
    if let Some(phdrs) = f.segments() {
        for (j, ph) in phdrs.iter().enumerate() {
            ctx.eval();
            ctx.count("typed:segment-notes");
            let typed = f.segment_data_as_notes(&ph).map(|it| dump_notes(it, 100_000));
            let styped = stream.as_mut().map(|s| s.segment_data_as_notes(&ph).map(|it| dump_notes(it, 100_000)));
            if ph.p_type != k::PT_NOTE {
                for (who, r) in [("slice", Some(&typed)), ("stream", styped.as_ref())] {
                    if let Some(r) = r {
                        if !matches!(r, Err(ParseError::UnexpectedSegmentType((a, b))) if *a == ph.p_type && *b == k::PT_NOTE) {
                            ctx.violation(&format!("typed:segment-notes:{who}:not-refused"), format!("{what}: segment {j} has type {:#x}; {who} segment_data_as_notes returned {:?}", ph.p_type, r.as_ref().map(|_| "Ok")));
                            return false;
                        }
                    }
                }
                continue;
            }
            let via_raw = f.segment_data(&ph).map(|b| dump_notes(NoteIterator::new(e, class, ph.p_align as usize, b), 100_000));
            let same = |x: &Result<String, ParseError>| match (x, &via_raw) {
                (Ok(a), Ok(b)) => a == b,
                (Err(_), Err(_)) => true,
                _ => false,
            };
            if !same(&typed) || styped.as_ref().map(|s| !same(s)).unwrap_or(false) {
                ctx.violation("typed:segment-notes:differs-from-raw", format!("{what}: segment {j}: segment_data_as_notes differs from decoding segment_data's bytes"));
                return false;
            }
            if let (Ok(b), Ok(it)) = (f.segment_data(&ph), f.segment_data_as_notes(&ph)) {
                ctx.count("typed:segment-notes:reference-decode");
                let before = ctx.violations.len();
                super::c14::check_iteration(ctx, "typed:segment-notes:slice:reference-decode", matches!(e, AnyEndian::Big), ph.p_align, b, it);
                if ctx.violations.len() != before {
                    return false;
                }
            }
        }
    }
    true
}

fn run(ctx: &mut Ctx, _si: usize, _case: u64) {
    let enc = Enc::ALL[ctx.rng.usize_below(4)];
    let mut o = GenOpts::standard();
    o.name_games = true;
    o.max_syms = 10;
    o.ragged = false;
    let (spec, m) = gen_object(&mut ctx.rng, enc, &o);
    let mut b = build(&spec, &mut ctx.rng);
    if ctx.rng.chance(1, 6) && b.shstrndx != 0 {
        // the name table starts one byte later: it no longer begins with a NUL, a name sits at offset 0 (the one the null
        // section and every other sh_name == 0 header then carries) and every name is the old one minus its first byte
        let off = b.secs[b.shstrndx].off;
        let sz = b.secs[b.shstrndx].size;
        if sz > 2 && b.poke(&format!("shdr[{}].sh_offset", b.shstrndx), off + 1) && b.poke(&format!("shdr[{}].sh_size", b.shstrndx), sz - 1) {
            ctx.count("shstrtab-without-leading-nul");
        }
    } else if ctx.rng.chance(1, 4) && b.shstrndx != 0 {
        // the section-name string table loses its final NUL: its last name is then not a string any more
        let sz = b.secs[b.shstrndx].size;
        let cut = 1 + ctx.rng.below(3);
        if sz > cut && b.poke(&format!("shdr[{}].sh_size", b.shstrndx), sz - cut) {
            ctx.count("shstrtab-without-final-nul");
        }
    }
    let data = &b.bytes[..];
    ctx.set_input(data);
    ctx.count("objects");
    ctx.nontrivial_bytes(data);
    let what = format!("generated {} ({} sections)", enc.name(), b.shnum);
    ctx.sample(|| format!("{what}: names {:?}", b.secs.iter().take(8).map(|s| String::from_utf8_lossy(&s.name).to_string()).collect::<Vec<_>>()));
    let f = match open_slice(data) {
        Ok(f) => f,
        Err(e) => {
            ctx.inconclusive(format!("generated object does not open: {e}"));
            return;
        }
    };
    let r = match ref_open(data, &[1, 2]) {
        Ok(r) => r,
        Err(e) => {
            ctx.inconclusive(format!("reference rejects generated object: {e:?}"));
            return;
        }
    };
    if !check_common(ctx, &f, &r, &what) {
        return;
    }
    if !check_by_name(ctx, &f, data, &r, &what) {
        return;
    }
    if !check_typed_views(ctx, &f, data, &what) {
        return;
    }
    // the same object without section headers: dynamic() via PT_DYNAMIC equals dynamic() via .dynamic
    if m.dynamic.is_some() && m.dynamic_seg.is_some() {
        let mut spec2 = spec.clone();
        spec2.has_shdrs = false;
        let b2 = build(&spec2, &mut ctx.rng);
        ctx.eval();
        let via_section = f.dynamic().map(|o| o.map(|t| dump_dynamic(&t)));
        let f2 = open_slice(&b2.bytes);
        let via_segment = f2.as_ref().map_err(|e| e.clone()).and_then(|f2| f2.dynamic().map(|o| o.map(|t| dump_dynamic(&t))).map_err(|e| format!("{e:?}")));
        ctx.count("dynamic:section-vs-segment");
        match (&via_section, &via_segment) {
            (Ok(Some(a)), Ok(Some(b))) if a == b => {}
            (a, b) => {
                ctx.violation("dynamic:section-vs-segment-differs", format!("{what}: dynamic() via .dynamic -> {:?}; the same object without section headers via PT_DYNAMIC -> {:?}", a.as_ref().map(|o| o.as_ref().map(|s| s.chars().take(120).collect::<String>())).map_err(|e| format!("{e:?}")), b.as_ref().map(|o| o.as_ref().map(|s| s.chars().take(120).collect::<String>()))));
                return;
            }
        }
        // and through the stream parser
        if let Ok(mut s2) = open_stream(&b2.bytes) {
            let sv = s2.dynamic().map(|o| o.map(|t| dump_dynamic(&t)));
            if !matches!((&via_section, &sv), (Ok(Some(a)), Ok(Some(b))) if a == b) {
                ctx.violation("dynamic:stream:section-vs-segment-differs", format!("{what}: stream dynamic() via PT_DYNAMIC differs from dynamic() via .dynamic"));
            }
        }
    }
}

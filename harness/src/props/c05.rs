//! C05 — header tables are located exactly as the ELF header (and shdr[0]) declare.
use super::util::{entries_mismatch, open_slice, open_stream, sample_indices, strtab_mismatch};
use super::{ex, scale, st, PropDef, Stratum};
use crate::codec::{k, size_of, Enc, St};
use crate::ctx::{Ctx, Tier};
use crate::gen::elf::{build, Built, ObjSpec, Part, Sec};
use crate::gen::mutate;
use crate::gen::object::{gen_object, GenOpts};
use crate::reference::locator::{is_undefined_phnum_case, ref_open, OpenFail, ShStrtab};
use elf::section::SectionHeader;
use elf::segment::ProgramHeader;

pub const DEF: PropDef = PropDef { id: "C05", strata, run, setup, canaries: &["panic"] };

fn setup(ctx: &mut Ctx) {
    ctx.floor("open:ok", 2000);
    ctx.floor("open:must-fail", 500);
    ctx.floor("fail:ShEntsize", 20);
    ctx.floor("fail:PhEntsize", 20);
    ctx.floor("fail:ShTableOutOfFile", 20);
    ctx.floor("fail:PhTableOutOfFile", 20);
    ctx.floor("xnum:shnum-via-shdr0", 8);
    ctx.floor("xnum:phnum-via-shdr0", 8);
    ctx.floor("xnum:shstrndx-via-shdr0", 4);
    ctx.floor("xnum:count>=0x10000", 8);
    ctx.floor("table-touching-eof:opens", 20);
    ctx.floor("table-one-byte-short:fails", 20);
    ctx.floor("shdrs-absent", 50);
    ctx.floor("phdrs-absent", 50);
    ctx.floor("strtab:compared", 500);
    ctx.floor("strtab:must-fail", 20);
    ctx.floor("entsize-clause:rejected", 200);
    ctx.floor("threshold-count-file", 200);
    ctx.floor("header-tables-sharing-bytes", 1000);
    ctx.floor("extended-numbering-cuts:prefixes", 100_000);
    for e in Enc::ALL {
        ctx.floor(&format!("enc:{}", e.name()), 100);
    }
}

const BIG_CASES: u64 = 13 * 4;

fn strata(t: Tier) -> Vec<Stratum> {
    vec![
        st("generated+mutated", scale(t, 450_000, 4_500_000, 6)),
        ex("big-counts", scale(t, BIG_CASES, BIG_CASES, 0)),
        ex("threshold-counts", scale(t, 2 * threshold_counts().len() as u64, 2 * threshold_counts().len() as u64, 0)),
        st("table-placement", scale(t, 60_000, 600_000, 4)),
        st("entsize-clause", scale(t, 90_000, 900_000, 4)),
        st("extended-numbering-cuts", scale(t, 20_000, 200_000, 2)),
    ]
}

fn fail_name(f: &OpenFail) -> &'static str {
    match f {
        OpenFail::Ident(_) => "Ident",
        OpenFail::HeaderTruncated => "HeaderTruncated",
        OpenFail::Shdr0Unreadable => "Shdr0Unreadable",
        OpenFail::ShEntsize(_) => "ShEntsize",
        OpenFail::ShTableOutOfFile => "ShTableOutOfFile",
        OpenFail::PhEntsize(_) => "PhEntsize",
        OpenFail::PhTableOutOfFile => "PhTableOutOfFile",
    }
}

/// Judge opening `data` with both parsers against the reference locator.
pub fn judge_open(ctx: &mut Ctx, data: &[u8], what: &str) -> bool {
    ctx.eval();
    if is_undefined_phnum_case(data) {
        ctx.count("undefined-phnum-case:not-judged");
        return true;
    }
    let rf = ref_open(data, &[1, 2]);
    let sl = open_slice(data);
    let stm = open_stream(data);
    match &rf {
        Ok(r) => {
            ctx.count("open:ok");
            ctx.count(&format!("enc:{}", r.enc.name()));
            if r.shdrs.is_none() {
                ctx.count("shdrs-absent");
            }
            if r.phdrs.is_none() {
                ctx.count("phdrs-absent");
            }
            if r.xnum_sh {
                ctx.count("xnum:shnum-via-shdr0");
            }
            if r.shnum() >= 0x10000 || r.phnum() >= 0x10000 {
                ctx.count("xnum:count>=0x10000");
            }
            if r.xnum_ph {
                ctx.count("xnum:phnum-via-shdr0");
            }
            if r.ehdr.get("e_shstrndx") == k::SHN_XINDEX && r.shdrs.is_some() {
                ctx.count("xnum:shstrndx-via-shdr0");
            }
        }
        Err(f) => {
            ctx.count("open:must-fail");
            ctx.count(&format!("fail:{}", fail_name(f)));
        }
    }
    let (r, sl, mut stm) = match (rf, sl, stm) {
        (Err(_), Err(_), Err(_)) => return true,
        (Err(f), s, t) => {
            ctx.set_input(data);
            ctx.violation(
                &format!("open:accepted:{}", fail_name(&f)),
                format!("{what}: reference says opening must fail ({f:?}) but minimal_parse ok={} open_stream ok={}", s.is_ok(), t.is_ok()),
            );
            return false;
        }
        (Ok(r), Ok(s), Ok(t)) => (r, s, t),
        (Ok(r), s, t) => {
            ctx.set_input(data);
            ctx.violation(
                "open:rejected-locatable",
                format!("{what}: both tables are locatable (shdrs {:?}, phdrs {:?}) but minimal_parse -> {:?}, open_stream -> {:?}", r.shdrs, r.phdrs, s.err(), t.err()),
            );
            return false;
        }
    };
    let enc = r.enc;
    // section header table: exactly `count` entries at `off`
    match (r.shdrs, sl.section_headers()) {
        (None, None) => {}
        (Some((off, n)), Some(t)) => {
            let idxs = sample_indices(&mut ctx.rng, n);
            let m = if t.len() != n { Some(format!("len {} != {}", t.len(), n)) } else { entries_mismatch::<SectionHeader, _>(enc, data, off, &idxs, |i| t.get(i).ok()) };
            let m = m.or_else(|| if t.get(n).is_ok() { Some(format!("get({n}) beyond the declared count succeeded")) } else { None });
            if let Some(m) = m {
                ctx.set_input(data);
                ctx.violation("shdrs:slice:wrong-table", format!("{what}: ElfBytes section header table (declared {n} entries at {off:#x}): {m}"));
                return false;
            }
            ctx.evals(idxs.len() as u64);
        }
        (want, got) => {
            ctx.set_input(data);
            ctx.violation("shdrs:slice:presence", format!("{what}: section header table expected {:?}, ElfBytes returned {:?}", want, got.map(|t| t.len())));
            return false;
        }
    }
    {
        let v = stm.section_headers();
        let (off, n) = r.shdrs.unwrap_or((0, 0));
        let idxs = sample_indices(&mut ctx.rng, n);
        let m = if v.len() != n { Some(format!("len {} != {}", v.len(), n)) } else { entries_mismatch::<SectionHeader, _>(enc, data, off, &idxs, |i| v.get(i).copied()) };
        if let Some(m) = m {
            ctx.set_input(data);
            ctx.violation("shdrs:stream:wrong-table", format!("{what}: ElfStream section headers (declared {n} entries at {off:#x}): {m}"));
            return false;
        }
    }
    match (r.phdrs, sl.segments()) {
        (None, None) => {}
        (Some((off, n)), Some(t)) => {
            let idxs = sample_indices(&mut ctx.rng, n);
            let m = if t.len() != n { Some(format!("len {} != {}", t.len(), n)) } else { entries_mismatch::<ProgramHeader, _>(enc, data, off, &idxs, |i| t.get(i).ok()) };
            let m = m.or_else(|| if t.get(n).is_ok() { Some(format!("get({n}) beyond the declared count succeeded")) } else { None });
            if let Some(m) = m {
                ctx.set_input(data);
                ctx.violation("phdrs:slice:wrong-table", format!("{what}: ElfBytes program header table (declared {n} entries at {off:#x}): {m}"));
                return false;
            }
            ctx.evals(idxs.len() as u64);
        }
        (want, got) => {
            ctx.set_input(data);
            ctx.violation("phdrs:slice:presence", format!("{what}: program header table expected {:?}, ElfBytes returned {:?}", want, got.map(|t| t.len())));
            return false;
        }
    }
    {
        let v = stm.segments();
        let (off, n) = r.phdrs.unwrap_or((0, 0));
        let idxs = sample_indices(&mut ctx.rng, n);
        let m = if v.len() != n { Some(format!("len {} != {}", v.len(), n)) } else { entries_mismatch::<ProgramHeader, _>(enc, data, off, &idxs, |i| v.get(i).copied()) };
        if let Some(m) = m {
            ctx.set_input(data);
            ctx.violation("phdrs:stream:wrong-table", format!("{what}: ElfStream program headers (declared {n} entries at {off:#x}): {m}"));
            return false;
        }
    }
    // section-name string table
    let want = r.shstrtab();
    let got = sl.section_headers_with_strtab();
    let ok = match (&want, &got) {
        (ShStrtab::NoShdrs, Ok((None, None))) => true,
        (ShStrtab::NoStrtab, Ok((Some(_), None))) => true,
        (ShStrtab::Range(s, l), Ok((Some(_), Some(tab)))) => {
            ctx.count("strtab:compared");
            match strtab_mismatch(tab, &data[*s..*s + *l]) {
                None => true,
                Some(m) => {
                    ctx.set_input(data);
                    ctx.violation("shstrtab:slice:wrong-bytes", format!("{what}: section-name string table should be file bytes [{s:#x},+{l}): {m}"));
                    return false;
                }
            }
        }
        (ShStrtab::MustFail(_), Err(_)) => {
            ctx.count("strtab:must-fail");
            true
        }
        _ => false,
    };
    if !ok {
        ctx.set_input(data);
        ctx.violation("shstrtab:slice:outcome", format!("{what}: section_headers_with_strtab expected {:?}, got {}", want, match &got { Ok((a, b)) => format!("Ok(shdrs={}, strtab={})", a.is_some(), b.is_some()), Err(e) => format!("Err({e:?})") }));
        return false;
    }
    // the stream parser: same, except that a present-but-empty table is outside the statement
    if r.shdrs.map(|s| s.1) != Some(0) {
        let got = stm.section_headers_with_strtab();
        let ok = match (&want, &got) {
            (ShStrtab::NoShdrs, Ok((_, None))) => true,
            (ShStrtab::NoStrtab, Ok((_, None))) => true,
            (ShStrtab::Range(s, l), Ok((_, Some(tab)))) => match strtab_mismatch(tab, &data[*s..*s + *l]) {
                None => true,
                Some(m) => {
                    ctx.set_input(data);
                    ctx.violation("shstrtab:stream:wrong-bytes", format!("{what}: stream section-name string table should be file bytes [{s:#x},+{l}): {m}"));
                    return false;
                }
            },
            (ShStrtab::MustFail(_), Err(_)) => true,
            _ => false,
        };
        if !ok {
            ctx.set_input(data);
            ctx.violation("shstrtab:stream:outcome", format!("{what}: stream section_headers_with_strtab expected {:?}, got {}", want, match &got { Ok((_, b)) => format!("Ok(strtab={})", b.is_some()), Err(e) => format!("Err({e:?})") }));
            return false;
        }
    }
    true
}

fn big_spec(enc: Enc, which: u64, rng: &mut crate::rng::Rng) -> ObjSpec {
    let mut spec = ObjSpec::new(enc);
    spec.add(Sec::new(b".text", k::SHT_PROGBITS, rng.bytes(24)));
    // user sections: null + .text + .shstrtab = 3
    match which {
        0 => spec.filler_sections = 0xfeff - 3,
        1 => spec.filler_sections = 0xff00 - 3,
        2 => spec.filler_sections = 0xff01 - 3,
        3 => spec.filler_sections = 0xff20 - 3,
        4 => spec.filler_segments = 0xfffe,
        5 => spec.filler_segments = 0xffff,
        6 => spec.filler_segments = 0x10000,
        7 => spec.filler_segments = 0x10010,
        8 => {
            // shstrndx >= 0xff00: the name table is the last section of a big table
            spec.auto_shstrtab = true;
            spec.filler_sections = 0;
            for i in 0..0xff00usize {
                let mut f = Sec::new(b"f", k::SHT_PROGBITS, Vec::new());
                f.place = crate::gen::elf::Place::Abs(0, 0);
                if i == 7 {
                    f.name = b".seven".to_vec();
                }
                spec.add(f);
            }
        }
        9 => {
            spec.filler_sections = 0xff10;
            spec.filler_segments = 0xffff + 5;
        }
        // counts that no longer fit in 16 bits
        10 => spec.filler_sections = 0x10000 - 3,
        11 => spec.filler_sections = 0x10001 - 3,
        _ => {
            spec.filler_sections = 0x10400;
            spec.filler_segments = 0x10001;
        }
    }
    spec.order = [[Part::Phdrs, Part::Bodies, Part::Shdrs], [Part::Shdrs, Part::Bodies, Part::Phdrs], [Part::Bodies, Part::Shdrs, Part::Phdrs]][(which % 3) as usize];
    spec
}

/// (ELF64?, section table?, entry count): tables whose byte size is a multiple of (or just around) floor(L / entsize)
/// entries for every size threshold L of `util::size_thresholds` (fixed round sizes + literals of the current sources)
fn threshold_counts() -> &'static [(bool, bool, usize)] {
    static V: std::sync::OnceLock<Vec<(bool, bool, usize)>> = std::sync::OnceLock::new();
    V.get_or_init(|| {
        let mut v = Vec::new();
        for &l in super::util::size_thresholds() {
            for (c64, sh, es) in [(false, true, 40u64), (true, true, 64), (false, false, 32), (true, false, 56)] {
                let per = l / es;
                let mut cs = vec![per, 2 * per, 3 * per, per + 1, per.saturating_sub(1)];
                if l % es == 0 {
                    cs.push(4 * per);
                }
                for c in cs {
                    if c >= 4 && c * es <= (6 << 20) {
                        v.push((c64, sh, c as usize));
                    }
                }
            }
        }
        v.sort_unstable();
        v.dedup();
        v
    })
}

fn self_consistent(ctx: &mut Ctx, b: &Built) -> bool {
    // oracle self-consistency: the reference locator must agree with the generator's truth
    match ref_open(&b.bytes, &[1, 2]) {
        Ok(r) => {
            let sh = r.shdrs.map(|s| (s.0 as u64, s.1)).unwrap_or((0, 0));
            let ph = r.phdrs.map(|s| (s.0 as u64, s.1)).unwrap_or((0, 0));
            if sh != (b.shoff, b.shnum) || ph != (b.phoff, b.phnum) || r.shstrndx().unwrap_or(0) != b.shstrndx {
                ctx.inconclusive(format!("generator/locator disagree: locator shdrs {:?} phdrs {:?} strndx {:?}; generator ({:#x},{}) ({:#x},{}) {}", r.shdrs, r.phdrs, r.shstrndx(), b.shoff, b.shnum, b.phoff, b.phnum, b.shstrndx));
                return false;
            }
            true
        }
        Err(e) => {
            ctx.inconclusive(format!("reference locator rejects an unmutated generated file: {e:?}"));
            false
        }
    }
}

fn run(ctx: &mut Ctx, si: usize, case: u64) {
    match si {
        0 => {
            let enc = Enc::ALL[ctx.rng.usize_below(4)];
            let mut o = GenOpts::standard();
            o.max_syms = 6;
            let (spec, _m) = gen_object(&mut ctx.rng, enc, &o);
            let mut b = build(&spec, &mut ctx.rng);
            if !self_consistent(ctx, &b) {
                return;
            }
            let nmut = ctx.rng.usize_below(4);
            let mut log = Vec::new();
            for _ in 0..nmut {
                // biased to the fields the locator depends on
                let strsec = format!("shdr[{}].", b.shstrndx);
                let l = if ctx.rng.chance(3, 4) {
                    mutate::structured_on(&mut ctx.rng, &mut b, &["ehdr.e_sh", "ehdr.e_ph", "shdr[0].", "ident.EI_CLASS", "ident.EI_DATA", &strsec])
                } else {
                    mutate::structured(&mut ctx.rng, &mut b, 1).pop()
                };
                if let Some(l) = l {
                    log.push(l);
                }
            }
            if ctx.rng.chance(1, 10) {
                if let Some(l) = mutate::alias_tables(&mut ctx.rng, &mut b) {
                    ctx.count("header-tables-sharing-bytes");
                    log.push(l);
                }
            }
            if ctx.rng.chance(1, 8) {
                mutate::truncate(&mut ctx.rng, &mut b.bytes);
                log.push(format!("truncate->{}", b.bytes.len()));
            }
            ctx.nontrivial_bytes(&b.bytes);
            ctx.sample(|| format!("{} shnum={} phnum={} len={} mutations={:?}", enc.name(), b.shnum, b.phnum, b.bytes.len(), log));
            judge_open(ctx, &b.bytes, &format!("generated object, mutations {:?}", log));
        }
        1 => {
            let enc = Enc::ALL[(case % 4) as usize];
            let which = case / 4;
            let spec = big_spec(enc, which, &mut ctx.rng);
            let b = build(&spec, &mut ctx.rng);
            if !self_consistent(ctx, &b) {
                return;
            }
            ctx.nontrivial(crate::rng::mix(case, b.bytes.len() as u64));
            ctx.sample(|| format!("{} big-count file: shnum={} phnum={} shstrndx={} len={}", enc.name(), b.shnum, b.phnum, b.shstrndx, b.bytes.len()));
            if !judge_open(ctx, &b.bytes, "big-count file") {
                return;
            }
            // the declared count +-1 through shdr[0]: one more entry than fits must fail
            let mut c = b.clone();
            if b.shnum as u64 >= k::SHN_LORESERVE {
                c.poke("shdr[0].sh_size", b.shnum as u64 - 1);
                judge_open(ctx, &c.bytes, "big-count file, shdr[0].sh_size - 1");
                c.poke("shdr[0].sh_size", b.shnum as u64 + 0x10000);
                judge_open(ctx, &c.bytes, "big-count file, shdr[0].sh_size + 0x10000");
            }
            if b.phnum as u64 >= k::PN_XNUM {
                let mut c = b.clone();
                c.poke("shdr[0].sh_info", b.phnum as u64 - 1);
                judge_open(ctx, &c.bytes, "big-count file, shdr[0].sh_info - 1");
                c.poke("shdr[0].sh_info", b.phnum as u64 + 0x100000);
                judge_open(ctx, &c.bytes, "big-count file, shdr[0].sh_info + 0x100000");
            }
        }
        2 => {
            let (c64, sh, count) = threshold_counts()[(case / 2) as usize];
            let enc = Enc { c64, big: case % 2 == 1 };
            let mut spec = ObjSpec::new(enc);
            spec.add(Sec::new(b".text", k::SHT_PROGBITS, ctx.rng.bytes(24)));
            if sh {
                spec.filler_sections = count - 3;
                spec.filler_segments = ctx.rng.usize_below(3);
            } else {
                spec.filler_segments = count;
            }
            spec.order = [[Part::Phdrs, Part::Bodies, Part::Shdrs], [Part::Shdrs, Part::Bodies, Part::Phdrs], [Part::Bodies, Part::Shdrs, Part::Phdrs]][ctx.rng.usize_below(3)];
            let b = build(&spec, &mut ctx.rng);
            if !self_consistent(ctx, &b) {
                return;
            }
            ctx.nontrivial(crate::rng::mix(case, b.bytes.len() as u64));
            ctx.count("threshold-count-file");
            ctx.sample(|| format!("{} threshold-count file: shnum={} phnum={} len={}", enc.name(), b.shnum, b.phnum, b.bytes.len()));
            judge_open(ctx, &b.bytes, "threshold-count file");
        }
        3 => {
            // a table is the last thing in the file: exact fit opens, one byte short fails
            let enc = Enc::ALL[ctx.rng.usize_below(4)];
            let mut o = GenOpts::standard();
            o.max_syms = 4;
            o.weird_views = false;
            let (mut spec, _m) = gen_object(&mut ctx.rng, enc, &o);
            spec.trailing = 0;
            spec.has_phdrs = true;
            let sh_last = ctx.rng.bool();
            spec.order = if sh_last { [Part::Bodies, Part::Phdrs, Part::Shdrs] } else { [Part::Bodies, Part::Shdrs, Part::Phdrs] };
            if !sh_last && spec.segs.is_empty() {
                spec.filler_segments = 1 + ctx.rng.usize_below(3);
            }
            let b = build(&spec, &mut ctx.rng);
            if !self_consistent(ctx, &b) {
                return;
            }
            ctx.nontrivial_bytes(&b.bytes);
            ctx.sample(|| format!("{} {} table ends at EOF (len {})", enc.name(), if sh_last { "shdr" } else { "phdr" }, b.bytes.len()));
            if judge_open(ctx, &b.bytes, "table touching EOF") {
                ctx.count("table-touching-eof:opens");
            }
            let mut short = b.bytes.clone();
            short.pop();
            if ref_open(&short, &[1, 2]).is_err() && judge_open(ctx, &short, "table one byte longer than the file") {
                ctx.count("table-one-byte-short:fails");
            }
            // declared count + 1 does not fit either
            let mut c = b.clone();
            if sh_last {
                c.poke("ehdr.e_shnum", b.shnum as u64 + 1);
            } else {
                c.poke("ehdr.e_phnum", b.phnum as u64 + 1);
            }
            judge_open(ctx, &c.bytes, "declared count + 1 at EOF");
            // and with appended bytes it fits again (the extra entry is then garbage but locatable)
            let mut ext = c.bytes.clone();
            ext.extend_from_slice(&ctx.rng.bytes(70));
            judge_open(ctx, &ext, "declared count + 1 with appended bytes");
        }
        5 => {
            // the counts live in shdr[0]: every way of declaring them (e_shnum == 0 with sh_size 0 / n / more, e_phnum ==
            // 0xffff with sh_info), and the file cut at every byte of shdr[0] and of the entry behind it
            let enc = Enc::ALL[ctx.rng.usize_below(4)];
            let mut o = GenOpts::standard();
            o.max_syms = 3;
            o.density = 3;
            o.weird_views = false;
            let (mut spec, _m) = gen_object(&mut ctx.rng, enc, &o);
            spec.trailing = 0;
            spec.has_phdrs = true;
            spec.order = if ctx.rng.bool() { [Part::Bodies, Part::Phdrs, Part::Shdrs] } else { [Part::Phdrs, Part::Bodies, Part::Shdrs] };
            if spec.segs.is_empty() {
                spec.filler_segments = 1 + ctx.rng.usize_below(3);
            }
            let mut b = build(&spec, &mut ctx.rng);
            if !self_consistent(ctx, &b) {
                return;
            }
            let n = b.shnum as u64;
            let mut log = Vec::new();
            if ctx.rng.chance(3, 4) {
                b.poke("ehdr.e_shnum", 0);
                let v = [0, n, n, n.saturating_sub(1), n + 1, 1][ctx.rng.usize_below(6)];
                b.poke("shdr[0].sh_size", v);
                log.push(format!("e_shnum=0, shdr[0].sh_size={v}"));
            }
            if ctx.rng.chance(1, 2) {
                b.poke("ehdr.e_phnum", 0xffff);
                let v = [0, b.phnum as u64, b.phnum as u64 + 1, 1][ctx.rng.usize_below(4)];
                b.poke("shdr[0].sh_info", v);
                log.push(format!("e_phnum=0xffff, shdr[0].sh_info={v}"));
            }
            if ctx.rng.chance(1, 4) {
                b.poke("ehdr.e_shstrndx", [0u64, 0xffff][ctx.rng.usize_below(2)]);
            }
            ctx.nontrivial_bytes(&b.bytes);
            ctx.count("extended-numbering-cuts:files");
            let shsz = size_of(St::Shdr, enc.c64);
            let from = b.shoff as usize;
            let to = (from + 2 * shsz + 1).min(b.bytes.len());
            ctx.sample(|| format!("{} {:?}: cut at every length in {from}..={to} (shdr table at {from}, file {} bytes)", enc.name(), log, b.bytes.len()));
            judge_open(ctx, &b.bytes, &format!("extended numbering {:?}", log));
            for l in from.saturating_sub(1)..=to {
                ctx.count("extended-numbering-cuts:prefixes");
                if !judge_open(ctx, &b.bytes[..l], &format!("extended numbering {:?}, file cut to {l} bytes (shdr[0] at {from}..{})", log, from + shsz)) {
                    return;
                }
            }
        }
        _ => entsize_clause(ctx),
    }
}

fn wrong_entsizes(right: u64, rng: &mut crate::rng::Rng) -> Vec<u64> {
    let mut v = vec![0, 1, right - 1, right + 1, 2 * right, 0xffff, 0xffff_ffff, u64::MAX, right << 32];
    v.push(rng.next_u64());
    v.retain(|x| *x != right);
    v
}

fn entsize_clause(ctx: &mut Ctx) {
    let enc = Enc::ALL[ctx.rng.usize_below(4)];
    let mut o = GenOpts::standard();
    o.density = 7;
    o.max_syms = 5;
    o.weird_views = false;
    o.ragged = false;
    let (spec, m) = gen_object(&mut ctx.rng, enc, &o);
    let b = build(&spec, &mut ctx.rng);
    ctx.nontrivial_bytes(&b.bytes);
    ctx.sample(|| format!("{} object with symtab={} dynsym={} dynamic={} versions={}", enc.name(), m.symtab.is_some(), m.dynsym.is_some(), m.dynamic.is_some(), m.versions.is_some()));
    // (a) header tables
    for (field, st_) in [("ehdr.e_shentsize", St::Shdr), ("ehdr.e_phentsize", St::Phdr)] {
        let right = size_of(st_, enc.c64) as u64;
        let present = if st_ == St::Shdr { b.shoff != 0 } else { b.phoff != 0 };
        if !present {
            continue;
        }
        for w in wrong_entsizes(right, &mut ctx.rng) {
            let w16 = w & 0xffff;
            if w16 == right {
                continue;
            }
            let mut c = b.clone();
            c.poke(field, w16);
            ctx.eval();
            let (s, t) = (open_slice(&c.bytes).is_ok(), open_stream(&c.bytes).is_ok());
            if s || t {
                ctx.set_input(&c.bytes);
                ctx.violation(&format!("entsize:{field}:accepted"), format!("{field}={w16:#x} (class size {right}) but minimal_parse ok={s}, open_stream ok={t}"));
                return;
            }
            ctx.count("entsize-clause:rejected");
        }
    }
    // (b) sh_entsize of symbol tables, version-index table, and (slice parser) .dynamic
    let mut targets: Vec<(usize, &str, u64)> = Vec::new();
    if let Some((i, _)) = &m.symtab {
        targets.push((*i, "symtab", size_of(St::Sym, enc.c64) as u64));
    }
    if let Some((i, _)) = &m.dynsym {
        targets.push((*i, "dynsym", size_of(St::Sym, enc.c64) as u64));
    }
    if let Some((i, _)) = &m.dynamic {
        targets.push((*i, "dynamic", size_of(St::Dyn, enc.c64) as u64));
    }
    if m.versions.is_some() {
        if let Some(i) = b.secs.iter().position(|s| s.hdr.get("sh_type") == k::SHT_GNU_VERSYM as u64) {
            targets.push((i, "versym", 2));
        }
    }
    for (idx, kind, right) in targets {
        // sanity: with the right entsize the accessor works (so that a failure below is due to entsize)
        let works = |bytes: &[u8]| -> (bool, bool) {
            // every slice-parser path to the table counts: the targeted accessor and the one-pass discovery
            let s = match open_slice(bytes) {
                Ok(f) => match kind {
                    "symtab" => matches!(f.symbol_table(), Ok(Some(_))) || matches!(f.find_common_data(), Ok(c) if c.symtab.is_some()),
                    "dynsym" => matches!(f.dynamic_symbol_table(), Ok(Some(_))) || matches!(f.find_common_data(), Ok(c) if c.dynsyms.is_some()),
                    "dynamic" => matches!(f.dynamic(), Ok(Some(_))) || matches!(f.find_common_data(), Ok(c) if c.dynamic.is_some()),
                    _ => matches!(f.symbol_version_table(), Ok(Some(_))),
                },
                Err(_) => false,
            };
            let t = match open_stream(bytes) {
                Ok(mut f) => match kind {
                    "symtab" => matches!(f.symbol_table(), Ok(Some(_))),
                    "dynsym" => matches!(f.dynamic_symbol_table(), Ok(Some(_))),
                    "dynamic" => false, // the statement covers only the slice parser here
                    _ => matches!(f.symbol_version_table(), Ok(Some(_))),
                },
                Err(_) => false,
            };
            (s, t)
        };
        let (s0, t0) = works(&b.bytes);
        if !s0 || (!t0 && kind != "dynamic") {
            ctx.inconclusive(format!("entsize sanity: {kind} accessor does not work on the unmutated object (slice {s0}, stream {t0})"));
            return;
        }
        for w in wrong_entsizes(right, &mut ctx.rng) {
            let mut c = b.clone();
            let wv = if enc.c64 { w } else { w & 0xffff_ffff };
            if wv == right {
                continue;
            }
            c.poke(&format!("shdr[{idx}].sh_entsize"), wv);
            ctx.eval();
            let (s, t) = works(&c.bytes);
            if s || t {
                ctx.set_input(&c.bytes);
                ctx.violation(&format!("entsize:{kind}:accepted"), format!("{kind} section {idx} with sh_entsize={wv:#x} (structure size {right}): slice accessor ok={s}, stream accessor ok={t}"));
                return;
            }
            ctx.count("entsize-clause:rejected");
        }
    }
}

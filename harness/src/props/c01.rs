//! C01 — slice parser is total: arbitrary bytes give Ok/Err/None, never a panic.
use super::{ex, scale, st, PropDef, Stratum};
use crate::codec::Enc;
use crate::corpus::{gen_input, KINDS};
use crate::ctx::{hex_trunc, Ctx, Tier};
use crate::gen::adversarial;
use crate::monitor::panic::{guard, PanicKind, PanicReport};
use crate::walk::{walk_file, walk_standalone, Sink};
use elf::endian::{AnyEndian, BigEndian, LittleEndian};
use elf::file::Class;

pub const DEF: PropDef = PropDef { id: "C01", strata, run, setup, canaries: &["panic", "steps"] };

fn setup(ctx: &mut Ctx) {
    ctx.floor("walker-runs", 1000);
    ctx.floor("opened-ok", 200);
    ctx.floor("walker-calls", 100_000);
    ctx.floor("class:generated-structured", 20);
    ctx.floor("class:random-with-ident", 20);
    ctx.floor("class:adversarial-symver", 10);
    ctx.floor("class:adversarial-sysv", 10);
    ctx.floor("class:adversarial-gnu", 10);
    ctx.floor("class:adversarial-notes", 10);
    ctx.floor("short-buffer-lengths", 60);
    ctx.floor("u32-boundary-link-cases", 50);
}

fn strata(t: Tier) -> Vec<Stratum> {
    vec![
        st("walker-corpus", scale(t, 288_000, 2_880_000, 0)),
        ex("short-buffer-sweep", scale(t, 4 * 71, 4 * 71, 4 * 71)),
        st("u32-boundary-links", scale(t, 72_000, 720_000, 400)),
        st("walker-corpus-small", scale(t, 24_000, 240_000, 60)),
    ]
}

/// Account for the outcome of one monitored run; a crate panic is a C01 violation, a budget cut is C16's.
pub fn handle(ctx: &mut Ctx, r: Result<(), PanicReport>, what: &str, last_query: &str) {
    match r {
        Ok(()) => {}
        Err(PanicReport { kind: PanicKind::Budget, .. }) => ctx.count("budget-cut(accounted-to-C16)"),
        Err(p) if p.kind == PanicKind::Harness => ctx.inconclusive(format!("harness panic at {}:{}: {}", p.file, p.line, p.msg)),
        Err(p) => {
            let sig = p.sig();
            ctx.violation(&sig, format!("panic inside the crate: '{}' at {}:{} during query `{}` while {}", p.msg, p.file, p.line, last_query, what));
        }
    }
}

pub fn walk_all_specs(ctx: &mut Ctx, data: &[u8], what: &str, salt: u64, standalone_window: usize) {
    ctx.set_input(data);
    let n = data.len() as u64;
    let mut calls = 0u64;
    let mut opened = false;
    {
        let mut s = Sink::new(n, true, salt);
        let r = guard(|| walk_file::<AnyEndian>(data, &mut s));
        handle(ctx, r, &format!("walking {what} as ElfBytes<AnyEndian>"), s.cur);
        calls += s.calls;
        opened |= s.calls > 1;
        ctx.maxv("max-iter-items", s.max_iter_items);
    }
    {
        let mut s = Sink::new(n, true, salt);
        let r = guard(|| walk_file::<LittleEndian>(data, &mut s));
        handle(ctx, r, &format!("walking {what} as ElfBytes<LittleEndian>"), s.cur);
        calls += s.calls;
    }
    {
        let mut s = Sink::new(n, true, salt);
        let r = guard(|| walk_file::<BigEndian>(data, &mut s));
        handle(ctx, r, &format!("walking {what} as ElfBytes<BigEndian>"), s.cur);
        calls += s.calls;
    }
    // stand-alone parsers over a window of the bytes
    if standalone_window > 0 {
        let w = standalone_window.min(data.len());
        let start = if data.len() > w { (salt as usize) % (data.len() - w + 1) } else { 0 };
        let win = &data[start..start + w];
        let class = if salt & 1 == 0 { Class::ELF32 } else { Class::ELF64 };
        let mut s = Sink::new(w as u64, true, salt);
        let r = if salt & 2 == 0 { guard(|| walk_standalone(AnyEndian::Little, class, win, &mut s)) } else { guard(|| walk_standalone(BigEndian, class, win, &mut s)) };
        handle(ctx, r, &format!("stand-alone parsers ({class:?}) over bytes {start}..{} of {what}", start + w), s.cur);
        calls += s.calls;
    }
    ctx.evals(calls);
    ctx.count("walker-runs");
    ctx.count_n("walker-calls", calls);
    if opened {
        ctx.count("opened-ok");
        ctx.nontrivial_bytes(data);
    }
}

fn run(ctx: &mut Ctx, si: usize, case: u64) {
    match si {
        0 | 3 => {
            let small = si == 3;
            let kind = ctx.rng.below(KINDS);
            let input = gen_input(&mut ctx.rng, kind, small);
            ctx.count(&format!("class:{}", input.class));
            ctx.sample(|| format!("{} ({} bytes) {}", input.what, input.bytes.len(), hex_trunc(&input.bytes, 24)));
            let salt = ctx.rng.next_u64();
            let win = if small { 96 } else { 600 };
            walk_all_specs(ctx, &input.bytes, &input.what, salt, win);
        }
        1 => {
            // valid header of each encoding truncated to every length 0..=70
            let enc = Enc::ALL[(case % 4) as usize];
            let len = (case / 4) as usize;
            let mut hdr = vec![0x7f, b'E', b'L', b'F', if enc.c64 { 2 } else { 1 }, if enc.big { 2 } else { 1 }, 1, 0, 0, 0, 0, 0, 0, 0, 0, 0];
            let mut tail = crate::codec::Rec::zero(crate::codec::St::EhdrTail, enc.c64);
            tail.set("e_type", 3).set("e_machine", 62).set("e_version", 1).set("e_ehsize", if enc.c64 { 64 } else { 52 });
            tail.encode(enc, &mut hdr);
            hdr.resize(71, 0);
            hdr.truncate(len);
            ctx.count("short-buffer-lengths");
            ctx.sample(|| format!("{} header truncated to {} bytes", enc.name(), len));
            walk_all_specs(ctx, &hdr, &format!("{} header truncated to {len} bytes", enc.name()), case, 71);
            // and the same lengths of pure 0xff / 0x00 bytes
            for fill in [0u8, 0xff] {
                let b = vec![fill; len];
                walk_all_specs(ctx, &b, &format!("{len} bytes of {fill:#x}"), case, 71);
            }
        }
        _ => {
            // structures whose 32-bit link/size fields sit at 2^31 / 2^32-1: on a 32-bit usize these overflow
            let enc = Enc::ALL[ctx.rng.usize_below(4)];
            ctx.count("u32-boundary-link-cases");
            let v = ctx.rng.next_u64();
            let salt = ctx.rng.next_u64();
            let small = ctx.tier == Tier::Miri;
            let what;
            let bytes = match ctx.rng.below(5) {
                0 => {
                    let total = if small { 64 } else { 64 + ctx.rng.usize_below(200) };
                    let c = adversarial::ver_overlap(&mut ctx.rng, enc, total, 4);
                    what = format!("version sections: {}", c.what);
                    let spec = adversarial::wrap_in_object(enc, None, Some(&c), None);
                    crate::gen::elf::build(&spec, &mut ctx.rng).bytes
                }
                1 => {
                    let total = if small { 64 } else { 64 + ctx.rng.usize_below(200) };
                    let c = adversarial::ver_overlap(&mut ctx.rng, enc, total, v);
                    what = format!("version sections: {}", c.what);
                    let spec = adversarial::wrap_in_object(enc, None, Some(&c), None);
                    crate::gen::elf::build(&spec, &mut ctx.rng).bytes
                }
                2 => {
                    let (nb, al) = adversarial::huge_notes(&mut ctx.rng, enc);
                    what = format!("notes claiming huge sizes, align {al:#x}");
                    let spec = adversarial::wrap_in_object(enc, None, None, Some((&nb, al)));
                    crate::gen::elf::build(&spec, &mut ctx.rng).bytes
                }
                3 => {
                    let n = if small { 4 } else { 4 + ctx.rng.usize_below(20) };
                    let mut h = adversarial::sysv_cycle(&mut ctx.rng, enc, n, 2, v);
                    // nbucket / nchain at boundary values
                    let f = ctx.rng.usize_below(2);
                    let bv = ctx.rng.boundary(32);
                    enc.put_at(&mut h.hash, 4 * f, bv, 4);
                    what = format!("{} with header word {f} = {bv:#x}", h.what);
                    let spec = adversarial::wrap_in_object(enc, Some((&h, false)), None, None);
                    crate::gen::elf::build(&spec, &mut ctx.rng).bytes
                }
                _ => {
                    let n = if small { 4 } else { 4 + ctx.rng.usize_below(20) };
                    let mut h = adversarial::gnu_nostop(&mut ctx.rng, enc, n, v);
                    let f = ctx.rng.usize_below(4);
                    let bv = ctx.rng.boundary(32);
                    enc.put_at(&mut h.hash, 4 * f, bv, 4);
                    what = format!("{} with header word {f} = {bv:#x}", h.what);
                    let spec = adversarial::wrap_in_object(enc, Some((&h, true)), None, None);
                    crate::gen::elf::build(&spec, &mut ctx.rng).bytes
                }
            };
            ctx.sample(|| format!("{} ({} bytes): {}", enc.name(), bytes.len(), what));
            walk_all_specs(ctx, &bytes, &what, salt, if small { 0 } else { 200 });
        }
    }
}

//! C01 — slice parser is total: arbitrary bytes give Ok/Err/None, never a panic.
use super::{ex, scale, st, PropDef, Stratum};
use crate::codec::Enc;
use crate::corpus::{gen_input, KINDS};
use crate::ctx::{hex_trunc, Ctx, Tier};
use crate::gen::adversarial;
use crate::monitor::panic::{guard, PanicKind, PanicReport};
use crate::walk::{walk_file, walk_standalone, Sink};
use elf::endian::{AnyEndian, BigEndian, LittleEndian};
use elf::file::Class;

pub const DEF: PropDef = PropDef { id: "C01", strata, run, setup, canaries: &["panic", "steps"] };

fn setup(ctx: &mut Ctx) {
    ctx.floor("walker-runs", 1000);
    ctx.floor("opened-ok", 200);
    ctx.floor("walker-calls", 100_000);
    ctx.floor("class:generated-structured", 20);
    ctx.floor("class:random-with-ident", 20);
    ctx.floor("class:adversarial-symver", 10);
    ctx.floor("class:adversarial-sysv", 10);
    ctx.floor("class:adversarial-gnu", 10);
    ctx.floor("class:adversarial-notes", 10);
    ctx.floor("short-buffer-lengths", 60);
    ctx.floor("u32-boundary-link-cases", 50);
    ctx.floor("targeted:calls", 10_000);
}

fn strata(t: Tier) -> Vec<Stratum> {
    vec![
        st("walker-corpus", scale(t, 288_000, 2_880_000, 0)),
        ex("short-buffer-sweep", scale(t, 4 * 71, 4 * 71, 0)),
        st("u32-boundary-links", scale(t, 72_000, 720_000, 0)),
        st("walker-corpus-small", scale(t, 24_000, 240_000, 16)),
        // direct calls with 32-bit boundary values in every link/size/count field: cheap enough for Miri,
        // where usize is 32 bits wide (i686, mips)
        st("targeted-32bit-boundaries", scale(t, 200_000, 2_000_000, 4800)),
    ]
}

/// Account for the outcome of one monitored run; a crate panic is a C01 violation, a budget cut is C16's.
pub fn handle(ctx: &mut Ctx, r: Result<(), PanicReport>, what: &str, last_query: &str) {
    match r {
        Ok(()) => {}
        Err(PanicReport { kind: PanicKind::Budget, .. }) => ctx.count("budget-cut(accounted-to-C16)"),
        Err(p) if p.kind == PanicKind::Harness => ctx.inconclusive(format!("harness panic at {}:{}: {}", p.file, p.line, p.msg)),
        Err(p) => {
            let sig = p.sig();
            ctx.violation(&sig, format!("panic inside the crate: '{}' at {}:{} during query `{}` while {}", p.msg, p.file, p.line, last_query, what));
        }
    }
}

pub fn walk_all_specs(ctx: &mut Ctx, data: &[u8], what: &str, salt: u64, standalone_window: usize) {
    ctx.set_input(data);
    let n = data.len() as u64;
    let mut calls = 0u64;
    let mut opened = false;
    {
        let mut s = Sink::new(n, true, salt);
        let r = guard(|| walk_file::<AnyEndian>(data, &mut s));
        handle(ctx, r, &format!("walking {what} as ElfBytes<AnyEndian>"), s.cur);
        calls += s.calls;
        opened |= s.calls > 1;
        ctx.maxv("max-iter-items", s.max_iter_items);
    }
    {
        let mut s = Sink::new(n, true, salt);
        let r = guard(|| walk_file::<LittleEndian>(data, &mut s));
        handle(ctx, r, &format!("walking {what} as ElfBytes<LittleEndian>"), s.cur);
        calls += s.calls;
    }
    {
        let mut s = Sink::new(n, true, salt);
        let r = guard(|| walk_file::<BigEndian>(data, &mut s));
        handle(ctx, r, &format!("walking {what} as ElfBytes<BigEndian>"), s.cur);
        calls += s.calls;
    }
    // stand-alone parsers over a window of the bytes
    if standalone_window > 0 {
        let w = standalone_window.min(data.len());
        let start = if data.len() > w { (salt as usize) % (data.len() - w + 1) } else { 0 };
        let win = &data[start..start + w];
        let class = if salt & 1 == 0 { Class::ELF32 } else { Class::ELF64 };
        let mut s = Sink::new(w as u64, true, salt);
        let r = if salt & 2 == 0 { guard(|| walk_standalone(AnyEndian::Little, class, win, &mut s)) } else { guard(|| walk_standalone(BigEndian, class, win, &mut s)) };
        handle(ctx, r, &format!("stand-alone parsers ({class:?}) over bytes {start}..{} of {what}", start + w), s.cur);
        calls += s.calls;
    }
    ctx.evals(calls);
    ctx.count("walker-runs");
    ctx.count_n("walker-calls", calls);
    if opened {
        ctx.count("opened-ok");
        ctx.nontrivial_bytes(data);
    }
}

const B32: [u64; 10] = [0, 1, 0x7fff_ffff, 0x8000_0000, 0xffff_fff0, 0xffff_fffc, 0xffff_ffff, 16, 20, 0xffff_0000];

/// Direct calls into the stand-alone parsers with 32-bit boundary values in every link, size and
/// count field. On a 32-bit usize these additions overflow unless the crate checks them.
fn targeted(ctx: &mut Ctx) {
    use crate::codec::{Rec, St};
    use elf::gnu_symver::{SymbolVersionTable, VerDefAuxIterator, VerDefIterator, VerNeedAuxIterator, VerNeedIterator, VersionIndexTable};
    use elf::hash::{GnuHashTable, SysVHashTable};
    use elf::note::NoteIterator;
    use elf::parse::ParsingTable;
    use elf::section::SectionHeader;
    use elf::string_table::StringTable;
    use elf::symbol::Symbol;
    let enc = Enc::ALL[ctx.rng.usize_below(4)];
    let class = if enc.c64 { Class::ELF64 } else { Class::ELF32 };
    let e = if enc.big { AnyEndian::Big } else { AnyEndian::Little };
    let b = |ctx: &mut Ctx| B32[ctx.rng.usize_below(B32.len())];
    let which = ctx.rng.below(7);
    let mut calls = 0u64;
    let cap = 300usize;
    let (r, what, input): (Result<(), PanicReport>, String, Vec<u8>) = match which {
        0 | 1 => {
            // version records
            let total = 64 + ctx.rng.usize_below(80);
            let mut buf = ctx.rng.bytes(total);
            let (n1, a1, n2, a2) = (b(ctx), b(ctx), b(ctx), b(ctx));
            let second = 20 + ctx.rng.usize_below(8);
            let def = which == 0;
            if def {
                let r0 = Rec::zero(St::Verdef, enc.c64).with("vd_version", 1).with("vd_cnt", 3).with("vd_aux", a1).with("vd_next", if ctx.rng.bool() { second as u64 } else { n1 });
                let r1 = Rec::zero(St::Verdef, enc.c64).with("vd_version", 1).with("vd_cnt", 0xffff).with("vd_aux", a2).with("vd_next", n2);
                buf[..20].copy_from_slice(&r0.bytes(enc));
                buf[second..second + 20].copy_from_slice(&r1.bytes(enc));
            } else {
                let r0 = Rec::zero(St::Verneed, enc.c64).with("vn_version", 1).with("vn_cnt", 3).with("vn_aux", a1).with("vn_next", if ctx.rng.bool() { second as u64 } else { n1 });
                let r1 = Rec::zero(St::Verneed, enc.c64).with("vn_version", 1).with("vn_cnt", 0xffff).with("vn_aux", a2).with("vn_next", n2);
                buf[..16].copy_from_slice(&r0.bytes(enc));
                buf[second..second + 16].copy_from_slice(&r1.bytes(enc));
            }
            // aux records with boundary next fields right behind
            let an = b(ctx);
            if total >= second + 36 {
                enc.put_at(&mut buf, second + 20 + if def { 4 } else { 12 }, an, 4);
            }
            let count = [1u64, 2, 3, 0xffff_ffff, u64::MAX][ctx.rng.usize_below(5)];
            let start = [0usize, 0, second, usize::MAX - 3, usize::MAX][ctx.rng.usize_below(5)];
            let what = format!("{} records: next {n1:#x}/{n2:#x}, aux {a1:#x}/{a2:#x}, aux-next {an:#x}, count {count:#x}, start {start:#x}", if def { "verdef" } else { "verneed" });
            let data = buf.clone();
            let r = guard(|| {
                if def {
                    for (_, aux) in VerDefIterator::new(e, class, count, start, &data).take(cap) {
                        calls += 1;
                        for _ in aux.take(cap) {
                            calls += 1;
                        }
                    }
                    for _ in VerDefAuxIterator::new(e, class, count as u16, start, &data).take(cap) {
                        calls += 1;
                    }
                } else {
                    for (_, aux) in VerNeedIterator::new(e, class, count, start, &data).take(cap) {
                        calls += 1;
                        for _ in aux.take(cap) {
                            calls += 1;
                        }
                    }
                    for _ in VerNeedAuxIterator::new(e, class, count as u16, start, &data).take(cap) {
                        calls += 1;
                    }
                }
                let strs = StringTable::new(&data);
                let t = SymbolVersionTable::new(
                    VersionIndexTable::new(e, class, &data[..8]),
                    Some((VerNeedIterator::new(e, class, count, 0, &data), strs)),
                    Some((VerDefIterator::new(e, class, count, 0, &data), strs)),
                );
                for i in [0usize, 1, 3, 4, usize::MAX] {
                    calls += 2;
                    let _ = t.get_requirement(i);
                    if let Ok(Some(d)) = t.get_definition(i) {
                        for _ in d.names.take(cap) {
                            calls += 1;
                        }
                    }
                }
            });
            (r, what, buf)
        }
        2 => {
            let (ns, ds) = (b(ctx), b(ctx));
            let mut buf = Vec::new();
            enc.put(&mut buf, ns, 4);
            enc.put(&mut buf, ds, 4);
            enc.put(&mut buf, b(ctx), 4);
            let extra = ctx.rng.usize_below(40);
            buf.extend_from_slice(&ctx.rng.bytes(extra));
            let align = [0usize, 1, 4, 8, 0x7fff_ffff, 0x8000_0000, 0xffff_ffff, usize::MAX, usize::MAX - 1][ctx.rng.usize_below(9)];
            let what = format!("note namesz {ns:#x} descsz {ds:#x} align {align:#x}");
            let data = buf.clone();
            let r = guard(|| {
                let mut it = NoteIterator::new(e, class, align, &data);
                for _ in 0..6 {
                    calls += 1;
                    let _ = it.next();
                }
            });
            (r, what, buf)
        }
        3 => {
            let mut buf = Vec::new();
            let gnu = ctx.rng.bool();
            for _ in 0..if gnu { 4 } else { 2 } {
                let v = if ctx.rng.chance(1, 3) { ctx.rng.below(6) } else { b(ctx) };
                enc.put(&mut buf, v, 4);
            }
            let extra = ctx.rng.usize_below(64);
            buf.extend_from_slice(&ctx.rng.bytes(extra));
            let what = format!("{} hash header {}", if gnu { "gnu" } else { "sysv" }, hex_trunc(&buf, 16));
            let data = buf.clone();
            let r = guard(|| {
                let syms = ParsingTable::<AnyEndian, Symbol>::new(e, class, &data);
                let strs = StringTable::new(&data);
                if gnu {
                    calls += 1;
                    if let Ok(t) = GnuHashTable::new(e, class, &data) {
                        for n in [&b""[..], b"a", b"memset"] {
                            calls += 1;
                            let _ = t.find(n, &syms, &strs);
                        }
                    }
                } else {
                    calls += 1;
                    if let Ok(t) = SysVHashTable::new(e, class, &data) {
                        for n in [&b""[..], b"a", b"memset"] {
                            calls += 1;
                            let _ = t.find(n, &syms, &strs);
                        }
                    }
                }
            });
            (r, what, buf)
        }
        4 => {
            // table location with boundary offsets/counts in a header-only file
            let mut f = vec![0x7f, b'E', b'L', b'F', if enc.c64 { 2 } else { 1 }, if enc.big { 2 } else { 1 }, 1, 0, 0, 0, 0, 0, 0, 0, 0, 0];
            let mut t = Rec::zero(St::EhdrTail, enc.c64);
            let w = if enc.c64 { 64 } else { 32 };
            let big = |ctx: &mut Ctx| if ctx.rng.bool() { b(ctx) } else { ctx.rng.boundary(w) };
            t.set("e_shoff", big(ctx)).set("e_phoff", big(ctx)).set("e_shnum", ctx.rng.boundary(16)).set("e_phnum", ctx.rng.boundary(16));
            t.set("e_shentsize", if enc.c64 { 64 } else { 40 }).set("e_phentsize", if enc.c64 { 56 } else { 32 }).set("e_shstrndx", ctx.rng.boundary(16));
            t.encode(enc, &mut f);
            let extra = ctx.rng.usize_below(80);
            f.extend_from_slice(&ctx.rng.bytes(extra));
            let what = format!("header-only file, tail {:x?}", t.v);
            let data = f.clone();
            let r = guard(|| {
                calls += 1;
                if let Ok(file) = elf::ElfBytes::<AnyEndian>::minimal_parse(&data) {
                    calls += 3;
                    let _ = file.section_headers_with_strtab();
                    let _ = file.find_common_data();
                    let _ = file.symbol_version_table();
                }
            });
            (r, what, f)
        }
        5 => {
            // fabricated headers against a tiny healthy file
            let mut f = vec![0x7f, b'E', b'L', b'F', if enc.c64 { 2 } else { 1 }, if enc.big { 2 } else { 1 }, 1, 0, 0, 0, 0, 0, 0, 0, 0, 0];
            Rec::zero(St::EhdrTail, enc.c64).with("e_version", 1).encode(enc, &mut f);
            f.extend_from_slice(&ctx.rng.bytes(32));
            let (o, z) = (if ctx.rng.bool() { b(ctx) } else { ctx.rng.boundary(64) }, if ctx.rng.bool() { b(ctx) } else { ctx.rng.boundary(64) });
            let sh = SectionHeader { sh_name: 0, sh_type: [1u32, 3, 4, 7, 9][ctx.rng.usize_below(5)], sh_flags: if ctx.rng.bool() { 0x800 } else { 0 }, sh_addr: 0, sh_offset: o, sh_size: z, sh_link: 0, sh_info: 0, sh_addralign: b(ctx), sh_entsize: b(ctx) };
            let what = format!("fabricated {:?}", sh);
            let data = f.clone();
            let r = guard(|| {
                if let Ok(file) = elf::ElfBytes::<AnyEndian>::minimal_parse(&data) {
                    calls += 5;
                    let _ = file.section_data(&sh);
                    let _ = file.section_data_as_strtab(&sh);
                    let _ = file.section_data_as_rels(&sh).map(|it| it.take(4).count());
                    let _ = file.section_data_as_relas(&sh).map(|it| it.take(4).count());
                    let _ = file.section_data_as_notes(&sh).map(|it| it.take(4).count());
                }
            });
            (r, what, f)
        }
        _ => {
            let l = ctx.rng.usize_below(64);
            let buf = ctx.rng.bytes(l);
            let idx = [usize::MAX, usize::MAX - 1, usize::MAX / 2, usize::MAX / 16, usize::MAX / 24 + 1, 0x1000_0000, 0x0aaa_aaab, 0x8000_0000][ctx.rng.usize_below(8)];
            let what = format!("table/strtab index {idx:#x} on {l} bytes");
            let data = buf.clone();
            let r = guard(|| {
                calls += 6;
                let _ = ParsingTable::<AnyEndian, Symbol>::new(e, class, &data).get(idx);
                let _ = ParsingTable::<AnyEndian, SectionHeader>::new(e, class, &data).get(idx);
                let _ = ParsingTable::<AnyEndian, u32>::new(e, class, &data).get(idx);
                let _ = ParsingTable::<AnyEndian, elf::dynamic::Dyn>::new(e, class, &data).get(idx);
                let _ = StringTable::new(&data).get_raw(idx);
                let _ = StringTable::new(&data).get(idx);
            });
            (r, what, buf)
        }
    };
    ctx.set_input(&input);
    ctx.evals(calls.max(1));
    ctx.count_n("targeted:calls", calls.max(1));
    ctx.nontrivial_bytes(&input);
    ctx.sample(|| format!("{} {}", enc.name(), what));
    handle(ctx, r, &format!("targeted 32-bit boundary case: {what}"), "direct call");
}

fn run(ctx: &mut Ctx, si: usize, case: u64) {
    match si {
        4 => targeted(ctx),
        0 | 3 => {
            let small = si == 3;
            let kind = ctx.rng.below(KINDS);
            let input = gen_input(&mut ctx.rng, kind, small);
            ctx.count(&format!("class:{}", input.class));
            ctx.sample(|| format!("{} ({} bytes) {}", input.what, input.bytes.len(), hex_trunc(&input.bytes, 24)));
            let salt = ctx.rng.next_u64();
            let win = if small { 96 } else { 600 };
            walk_all_specs(ctx, &input.bytes, &input.what, salt, win);
        }
        1 => {
            // valid header of each encoding truncated to every length 0..=70
            let enc = Enc::ALL[(case % 4) as usize];
            let len = (case / 4) as usize;
            let mut hdr = vec![0x7f, b'E', b'L', b'F', if enc.c64 { 2 } else { 1 }, if enc.big { 2 } else { 1 }, 1, 0, 0, 0, 0, 0, 0, 0, 0, 0];
            let mut tail = crate::codec::Rec::zero(crate::codec::St::EhdrTail, enc.c64);
            tail.set("e_type", 3).set("e_machine", 62).set("e_version", 1).set("e_ehsize", if enc.c64 { 64 } else { 52 });
            tail.encode(enc, &mut hdr);
            hdr.resize(71, 0);
            hdr.truncate(len);
            ctx.count("short-buffer-lengths");
            ctx.sample(|| format!("{} header truncated to {} bytes", enc.name(), len));
            walk_all_specs(ctx, &hdr, &format!("{} header truncated to {len} bytes", enc.name()), case, 71);
            // and the same lengths of pure 0xff / 0x00 bytes
            for fill in [0u8, 0xff] {
                let b = vec![fill; len];
                walk_all_specs(ctx, &b, &format!("{len} bytes of {fill:#x}"), case, 71);
            }
        }
        _ => {
            // structures whose 32-bit link/size fields sit at 2^31 / 2^32-1: on a 32-bit usize these overflow
            let enc = Enc::ALL[ctx.rng.usize_below(4)];
            ctx.count("u32-boundary-link-cases");
            let v = ctx.rng.next_u64();
            let salt = ctx.rng.next_u64();
            let small = ctx.tier == Tier::Miri;
            let what;
            let bytes = match ctx.rng.below(5) {
                0 => {
                    let total = if small { 64 } else { 64 + ctx.rng.usize_below(200) };
                    let var45 = 4 + ctx.rng.below(2);
                    let c = adversarial::ver_overlap(&mut ctx.rng, enc, total, var45);
                    what = format!("version sections: {}", c.what);
                    let spec = adversarial::wrap_in_object(enc, None, Some(&c), None);
                    crate::gen::elf::build(&spec, &mut ctx.rng).bytes
                }
                1 => {
                    let total = if small { 64 } else { 64 + ctx.rng.usize_below(200) };
                    let c = adversarial::ver_overlap(&mut ctx.rng, enc, total, v);
                    what = format!("version sections: {}", c.what);
                    let spec = adversarial::wrap_in_object(enc, None, Some(&c), None);
                    crate::gen::elf::build(&spec, &mut ctx.rng).bytes
                }
                2 => {
                    let (nb, al) = adversarial::huge_notes(&mut ctx.rng, enc);
                    what = format!("notes claiming huge sizes, align {al:#x}");
                    let spec = adversarial::wrap_in_object(enc, None, None, Some((&nb, al)));
                    crate::gen::elf::build(&spec, &mut ctx.rng).bytes
                }
                3 => {
                    let n = if small { 4 } else { 4 + ctx.rng.usize_below(20) };
                    let mut h = adversarial::sysv_cycle(&mut ctx.rng, enc, n, 2, v);
                    // nbucket / nchain at boundary values
                    let f = ctx.rng.usize_below(2);
                    let bv = ctx.rng.boundary(32);
                    enc.put_at(&mut h.hash, 4 * f, bv, 4);
                    what = format!("{} with header word {f} = {bv:#x}", h.what);
                    let spec = adversarial::wrap_in_object(enc, Some((&h, false)), None, None);
                    crate::gen::elf::build(&spec, &mut ctx.rng).bytes
                }
                _ => {
                    let n = if small { 4 } else { 4 + ctx.rng.usize_below(20) };
                    let mut h = adversarial::gnu_nostop(&mut ctx.rng, enc, n, v);
                    let f = ctx.rng.usize_below(4);
                    let bv = ctx.rng.boundary(32);
                    enc.put_at(&mut h.hash, 4 * f, bv, 4);
                    what = format!("{} with header word {f} = {bv:#x}", h.what);
                    let spec = adversarial::wrap_in_object(enc, Some((&h, true)), None, None);
                    crate::gen::elf::build(&spec, &mut ctx.rng).bytes
                }
            };
            ctx.sample(|| format!("{} ({} bytes): {}", enc.name(), bytes.len(), what));
            walk_all_specs(ctx, &bytes, &what, salt, if small { 0 } else { 200 });
        }
    }
}

//! C15 — string-table lookup returns exactly the NUL-terminated string at the offset.
use super::{ex, scale, st, PropDef, Stratum};
use crate::ctx::{hex_trunc, Ctx, Tier};
use elf::string_table::StringTable;

pub const DEF: PropDef = PropDef { id: "C15", strata, run, setup, canaries: &["panic"] };

fn setup(ctx: &mut Ctx) {
    ctx.floor("strings-starting-with-a-special-character", 10_000);
    #[cfg(all(target_pointer_width = "64", not(miri)))]
    ctx.floor("lookups-at-offsets>=2^32-24", 200);
    ctx.floor("ok", 1000);
    ctx.floor("err:bad-offset", 100);
    ctx.floor("err:missing-nul", 100);
    ctx.floor("err:utf8", 100);
    ctx.floor("offset=usize::MAX", 10);
    #[cfg(target_pointer_width = "64")]
    ctx.floor("offset>=2^32-with-low-bits-in-table", 1000);
}

const ALPHABET: [u8; 4] = [0x00, b'a', 0xC3, 0xA9];

fn n_tables() -> u64 {
    (0..=7u32).map(|l| 4u64.pow(l)).sum()
}

fn strata(t: Tier) -> Vec<Stratum> {
    vec![
        ex("small-tables-exhaustive", scale(t, n_tables(), n_tables(), 40)),
        st("random-tables", scale(t, 3_000_000, 30_000_000, 480)),
        ex("word-sized-tables-exhaustive", scale(t, n_tables5(), n_tables5(), 0)),
        st("boundary-byte-tables", scale(t, 1_000_000, 10_000_000, 200)),
        // a string table that really is longer than 4 GiB: strings at and across the 2^32 mark and at the very end
        st("table-beyond-4GiB", scale(t, 320, 3200, 0)),
    ]
}

/// bytes that matter to scanning tricks (SWAR zero-byte tests borrow across 0x01 / 0x80 / 0xff neighbours)
const ALPHABET5: [u8; 5] = [0x00, 0x01, b'a', 0x80, 0xff];

/// all tables of length 8 and 9 over ALPHABET5 (one machine word, and a word plus one tail byte)
fn n_tables5() -> u64 {
    5u64.pow(8) + 5u64.pow(9)
}

fn table5_for(case: u64) -> Vec<u8> {
    let (l, mut c) = if case < 5u64.pow(8) { (8, case) } else { (9, case - 5u64.pow(8)) };
    let mut v = Vec::with_capacity(l);
    for _ in 0..l {
        v.push(ALPHABET5[(c % 5) as usize]);
        c /= 5;
    }
    v
}

fn table_for(case: u64) -> Vec<u8> {
    let mut c = case;
    for l in 0..=7u32 {
        let n = 4u64.pow(l);
        if c < n {
            let mut v = Vec::with_capacity(l as usize);
            for i in 0..l {
                v.push(ALPHABET[((c >> (2 * i)) & 3) as usize]);
            }
            return v;
        }
        c -= n;
    }
    Vec::new()
}

/// reference: the longest NUL-free run starting at off, if off is inside and a NUL follows
fn ref_raw(table: &[u8], off: usize) -> Option<(usize, usize)> {
    if off >= table.len() {
        return None;
    }
    let mut end = off;
    while end < table.len() {
        if table[end] == 0 {
            return Some((off, end));
        }
        end += 1;
    }
    None
}

pub fn check_lookup(ctx: &mut Ctx, table: &[u8], off: usize) {
    let strtab = StringTable::new(table);
    let exp = ref_raw(table, off);
    ctx.evals(2);
    if off == usize::MAX {
        ctx.count("offset=usize::MAX");
    }
    let got_raw = strtab.get_raw(off);
    let got_str = strtab.get(off);
    match exp {
        Some((s, e)) => {
            let want = &table[s..e];
            match got_raw {
                Ok(b) => {
                    let same_ptr = b.is_empty() || b.as_ptr() as usize == table.as_ptr() as usize + s;
                    if b != want || !same_ptr {
                        ctx.set_input(table);
                        ctx.violation("get_raw:wrong-bytes", format!("get_raw({off}) on {} returned {} (ptr ok={}), expected {}", hex_trunc(table, 64), hex_trunc(b, 64), same_ptr, hex_trunc(want, 64)));
                    }
                }
                Err(e) => {
                    ctx.set_input(table);
                    ctx.violation("get_raw:spurious-error", format!("get_raw({off}) on {} failed with {e:?}, expected {}", hex_trunc(table, 64), hex_trunc(want, 64)));
                }
            }
            match std::str::from_utf8(want) {
                Ok(ws) => {
                    ctx.count("ok");
                    if e - s >= 1 {
                        let mut key = want.to_vec();
                        key.extend_from_slice(&(off as u64).to_le_bytes());
                        key.extend_from_slice(&(table.len() as u64).to_le_bytes());
                        ctx.nontrivial_bytes(&key);
                    }
                    match got_str {
                        Ok(g) if g == ws => {}
                        other => {
                            ctx.set_input(table);
                            ctx.violation("get:wrong-str", format!("get({off}) on {} returned {:?}, expected {:?}", hex_trunc(table, 64), other, ws));
                        }
                    }
                }
                Err(_) => {
                    ctx.count("err:utf8");
                    let mut key = want.to_vec();
                    key.push(0xfe);
                    ctx.nontrivial_bytes(&key);
                    if got_str.is_ok() {
                        ctx.set_input(table);
                        ctx.violation("get:accepted-invalid-utf8", format!("get({off}) on {} returned {:?} for non-UTF-8 bytes {}", hex_trunc(table, 64), got_str, hex_trunc(want, 64)));
                    }
                }
            }
        }
        None => {
            if off >= table.len() {
                ctx.count("err:bad-offset");
            } else {
                ctx.count("err:missing-nul");
            }
            if let Ok(b) = got_raw {
                ctx.set_input(table);
                ctx.violation("get_raw:no-error", format!("get_raw({off}) on {} ({} bytes) returned {} but must fail", hex_trunc(table, 64), table.len(), hex_trunc(b, 64)));
            }
            if let Ok(s) = got_str {
                ctx.set_input(table);
                ctx.violation("get:no-error", format!("get({off}) on {} ({} bytes) returned {s:?} but must fail", hex_trunc(table, 64), table.len()));
            }
        }
    }
}

fn huge_table_case(ctx: &mut Ctx) {
    let seed = ctx.rng.next_u64();
    let done = super::util::with_huge_buffer(|buf| {
        let len = buf.len();
        let mut r = crate::rng::Rng::new(seed);
        let base: usize = match r.below(4) {
            0 => super::util::G4.wrapping_sub(24),
            1 => super::util::G4.wrapping_sub(1 + r.usize_below(8)),
            2 => super::util::G4,
            _ => len - 48,
        };
        // a few short strings of boundary-heavy bytes, NUL separated; the last one may reach the end unterminated
        let alpha = [0x00u8, 0x01, b'a', b'z', 0x7f, 0x80, 0xC3, 0xA9, 0xff];
        for i in 0..48 {
            buf[base + i] = if i % 7 == 6 { 0 } else { alpha[r.usize_below(alpha.len())] };
        }
        if base + 48 == len && r.bool() {
            buf[len - 1] = b'x';
        }
        {
            let view: &[u8] = buf;
            for off in base.saturating_sub(3)..(base + 52).min(len + 3) {
                check_lookup(ctx, view, off);
            }
            check_lookup(ctx, view, len);
            check_lookup(ctx, view, usize::MAX);
            ctx.count("lookups-at-offsets>=2^32-24");
        }
        for i in 0..48 {
            buf[base + i] = 0;
        }
    });
    if done.is_none() {
        ctx.count("beyond-4GiB:not-on-this-target");
    }
}

fn run(ctx: &mut Ctx, si: usize, case: u64) {
    match si {
        4 => huge_table_case(ctx),
        0 => {
            let table = table_for(case);
            ctx.sample(|| format!("table={} every offset 0..=len+2, usize::MAX-1, usize::MAX", hex_trunc(&table, 16)));
            for off in (0..=table.len() + 2).chain([usize::MAX - 1, usize::MAX]) {
                check_lookup(ctx, &table, off);
            }
            // offsets beyond 2^32 whose low bits fall inside the table (64-bit targets)
            #[cfg(target_pointer_width = "64")]
            for hi in [super::util::G4, 1 << 33, 0xffff_ffff << 32, 1 << 63] {
                for lo in 0..=table.len() {
                    ctx.count("offset>=2^32-with-low-bits-in-table");
                    check_lookup(ctx, &table, hi | lo);
                }
            }
        }
        2 => {
            let table = table5_for(case);
            ctx.sample(|| format!("table={} every offset 0..=len", hex_trunc(&table, 16)));
            for off in 0..=table.len() {
                check_lookup(ctx, &table, off);
            }
        }
        3 => {
            // 8..40 bytes drawn from the boundary bytes only: every word position and tail length of a chunked scan
            let len = 8 + ctx.rng.usize_below(33);
            let alpha = [0x00u8, 0x00, 0x01, 0x01, b'a', 0x7f, 0x80, 0xff, 0xC3, 0xA9];
            let table: Vec<u8> = (0..len).map(|_| alpha[ctx.rng.usize_below(alpha.len())]).collect();
            ctx.sample(|| format!("table={} every offset", hex_trunc(&table, 40)));
            for off in 0..=table.len() {
                check_lookup(ctx, &table, off);
            }
        }
        _ => {
            let len = match ctx.rng.below(4) {
                0 => ctx.rng.usize_below(16),
                1 => ctx.rng.usize_below(256),
                _ if ctx.tier == Tier::Miri => ctx.rng.usize_below(160),
                _ => ctx.rng.usize_below(4097),
            };
            let mut table = vec![0u8; len];
            // mixture: mostly printable with NULs every few bytes, some high bytes, sometimes no trailing NUL
            let nul_every = 1 + ctx.rng.usize_below(24);
            let high = ctx.rng.chance(1, 3);
            for b in table.iter_mut() {
                *b = if ctx.rng.usize_below(nul_every) == 0 {
                    0
                } else if high && ctx.rng.chance(1, 6) {
                    0x80 + ctx.rng.below(0x80) as u8
                } else {
                    0x21 + ctx.rng.below(0x5e) as u8
                };
            }
            // the bytes next to a terminator take boundary values now and then
            if ctx.rng.chance(1, 3) {
                for i in 1..len {
                    if table[i] == 0 && table[i - 1] != 0 && ctx.rng.chance(1, 2) {
                        table[i - 1] = [0x01u8, 0x7f, 0x80, 0xff][ctx.rng.usize_below(4)];
                    }
                }
            }
            if len > 0 && ctx.rng.chance(1, 3) {
                table[len - 1] = b'x';
            }
            if len > 8 && ctx.rng.chance(1, 3) {
                // strings that *start* with a special character: byte-order mark, replacement character, line separator,
                // no-break space, a combining mark, a 4-byte character
                const SPECIALS: [&[u8]; 7] = [&[0xEF, 0xBB, 0xBF], &[0xEF, 0xBF, 0xBD], &[0xE2, 0x80, 0xA8], &[0xC2, 0xA0], &[0xCC, 0x81], &[0xF0, 0x9F, 0x98, 0x80], &[0xEF, 0xBF, 0xBE]];
                for _ in 0..1 + ctx.rng.usize_below(3) {
                    let sp = SPECIALS[ctx.rng.usize_below(SPECIALS.len())];
                    let at = ctx.rng.usize_below(len - 6);
                    table[at] = 0;
                    table[at + 1..at + 1 + sp.len()].copy_from_slice(sp);
                    // keep the rest of that string ASCII so that it is valid UTF-8 as a whole
                    let mut j = at + 1 + sp.len();
                    while j < len && table[j] != 0 {
                        if table[j] >= 0x80 {
                            table[j] = b'a';
                        }
                        j += 1;
                    }
                    ctx.count("strings-starting-with-a-special-character");
                }
            }
            if len > 3 && ctx.rng.chance(1, 4) {
                // a valid 2-byte UTF-8 sequence somewhere, and one split by a NUL
                let at = ctx.rng.usize_below(len - 2);
                table[at] = 0xC3;
                table[at + 1] = 0xA9;
            }
            ctx.sample(|| format!("table={} random offsets incl. len-1, len, usize::MAX", hex_trunc(&table, 48)));
            // every string start of the first part of the table, then random offsets
            let starts: Vec<usize> = (0..len.min(512)).filter(|i| *i == 0 || table[*i - 1] == 0).take(24).collect();
            for off in starts {
                check_lookup(ctx, &table, off);
            }
            for _ in 0..12 {
                let off = match ctx.rng.below(10) {
                    0 => usize::MAX,
                    1 => len,
                    2 => len.wrapping_sub(1),
                    3 => len + 1 + ctx.rng.usize_below(5),
                    4 => usize::MAX - ctx.rng.usize_below(4),
                    #[cfg(target_pointer_width = "64")]
                    5 => {
                        ctx.count("offset>=2^32-with-low-bits-in-table");
                        ((1 + ctx.rng.usize_below(0xffff)) << [32usize, 40, 48][ctx.rng.usize_below(3)]) | ctx.rng.usize_below(len + 1)
                    }
                    _ => ctx.rng.usize_below(len + 1),
                };
                check_lookup(ctx, &table, off);
            }
        }
    }
}

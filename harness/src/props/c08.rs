//! C08 — stream parser's memory and I/O are bounded by the stream, not by header claims.
//!
//! Three monitors on stream histories: the panic monitor (never panics), the allocation
//! monitor with a dynamic bound (every single request <= 8*L + 4096 for a stream of L bytes),
//! and the I/O monitor for laziness (every read issued during a call requests only bytes
//! inside the ranges that call designates).
use super::c07::{gen_history, name_queries, smart_pool};
use super::{scale, st, PropDef, Stratum};
use crate::codec::{k, size_of, Enc, Rec, St};
use crate::ctx::{Ctx, Tier};
use crate::gen::elf::build;
use crate::gen::mutate;
use crate::gen::object::{gen_object, GenOpts};
use crate::monitor::alloc;
use crate::monitor::io::{new_reader, Handle, IoEvent, IoKind, MonReader, Outcome, Policy};
use crate::observe::{obs_stream, CallMonitor, Query};
use crate::reference::locator::{ref_open, RefFile};
use elf::endian::AnyEndian;
use elf::ElfStream;
use std::rc::Rc;

pub const DEF: PropDef = PropDef { id: "C08", strata, run, setup, canaries: &["panic", "alloc", "io"] };

fn setup(ctx: &mut Ctx) {
    ctx.floor("no-section-table-but-phnum-in-shdr0", 500);
    ctx.floor("fabricated-header-queries", 10_000);
    ctx.floor("files", 1000);
    ctx.floor("opened", 300);
    ctx.floor("alloc-windows", 5000);
    ctx.floor("alloc-requests-seen", 5000);
    ctx.floor("reads-checked", 5000);
    ctx.floor("header-lies:size-or-count>=2^31", 200);
    ctx.floor("padded-files", 20);
    ctx.floor("whole-file-spanning-sections", 100);
    ctx.floor("open:read-total-checked", 300);
    ctx.floor("faulty-reader:retries-after-failed-call", 200);
}

fn strata(t: Tier) -> Vec<Stratum> {
    vec![st("generated+lying-headers", scale(t, 800_000, 8_000_000, 4)), st("huge-padding", scale(t, 12_000, 120_000, 0)), st("random-with-ident", scale(t, 240_000, 2_400_000, 2)), st("faulty-reader-retries", scale(t, 200_000, 2_000_000, 2))]
}

pub fn alloc_bound(stream_len: usize) -> u64 {
    8 * stream_len as u64 + 4096
}

struct Window<'a> {
    h: &'a Handle,
    api: u32,
    bound: u64,
    report: Option<alloc::AllocReport>,
}

impl CallMonitor for Window<'_> {
    fn before(&mut self) {
        self.h.set_api(self.api);
        alloc::arm(self.bound);
    }
    fn after(&mut self) {
        self.report = Some(alloc::disarm());
    }
}

type Ranges = Vec<(u128, u128)>;

fn covered(ranges: &Ranges, lo: u128, hi: u128) -> bool {
    // every byte of [lo, hi) lies in the union of the ranges
    if lo >= hi {
        return true;
    }
    let mut pos = lo;
    let mut sorted = ranges.clone();
    sorted.sort();
    for (a, b) in sorted {
        if a <= pos && b > pos {
            pos = b;
            if pos >= hi {
                return true;
            }
        }
    }
    false
}

/// Byte ranges the open call may read: ident, header tail, shdr[0] (extended numbering),
/// the section header table and the program header table — computed leniently from the raw
/// bytes (no validity required), so that error paths are judged too.
pub fn designated_open(data: &[u8]) -> Ranges {
    let mut v: Ranges = vec![(0, 16)];
    if data.len() < 16 || (data[4] != 1 && data[4] != 2) || (data[5] != 1 && data[5] != 2) {
        return v;
    }
    let enc = Enc { c64: data[4] == 2, big: data[5] == 2 };
    let tail = size_of(St::EhdrTail, enc.c64) as u128;
    v.push((16, 16 + tail));
    let eh = match Rec::decode(St::EhdrTail, enc, data, 16) {
        Some(e) => e,
        None => return v,
    };
    let shoff = eh.get("e_shoff") as u128;
    let phoff = eh.get("e_phoff") as u128;
    let shsz = size_of(St::Shdr, enc.c64) as u128;
    let phsz = size_of(St::Phdr, enc.c64) as u128;
    let need_shdr0 = (shoff != 0 && eh.get("e_shnum") == 0) || (phoff != 0 && eh.get("e_phnum") == k::PN_XNUM);
    let shdr0 = if shoff + shsz <= data.len() as u128 { Rec::decode(St::Shdr, enc, data, shoff as usize) } else { None };
    if need_shdr0 {
        v.push((shoff, shoff + shsz));
    }
    if shoff != 0 {
        let n = if eh.get("e_shnum") == 0 { shdr0.as_ref().map(|s| s.get("sh_size") as u128).unwrap_or(0) } else { eh.get("e_shnum") as u128 };
        v.push((shoff, shoff + n * shsz));
    }
    if phoff != 0 {
        let n = if eh.get("e_phnum") == k::PN_XNUM { shdr0.as_ref().map(|s| s.get("sh_info") as u128).unwrap_or(0) } else { eh.get("e_phnum") as u128 };
        v.push((phoff, phoff + n * phsz));
    }
    v
}

fn sec_r(s: &Rec) -> (u128, u128) {
    let o = s.get("sh_offset") as u128;
    (o, o + s.get("sh_size") as u128)
}

/// Byte ranges a query designates (liberal: every range the call could legitimately touch).
pub fn designated_query(r: &RefFile<'_>, q: &Query) -> Ranges {
    let mut v: Ranges = Vec::new();
    let all_of = |v: &mut Ranges, ty: u32, with_link: bool| {
        for i in 0..r.shnum() {
            if let Some(s) = r.shdr(i) {
                if s.get("sh_type") == ty as u64 {
                    v.push(sec_r(&s));
                    if with_link {
                        if let Some(l) = r.shdr(s.get("sh_link") as usize) {
                            v.push(sec_r(&l));
                        }
                    }
                }
            }
        }
    };
    match q {
        Query::SectionData(i) | Query::AsStrtab(i) | Query::AsRels(i) | Query::AsRelas(i) | Query::AsNotes(i) => {
            if let Some(s) = r.shdr(*i) {
                v.push(sec_r(&s));
            }
        }
        Query::ShdrsWithStrtab | Query::ByName(_) => {
            if let Some(s) = r.shstrndx().and_then(|i| r.shdr(i)) {
                v.push(sec_r(&s));
            }
        }
        Query::SymbolTable => all_of(&mut v, k::SHT_SYMTAB, true),
        Query::DynSymbolTable => all_of(&mut v, k::SHT_DYNSYM, true),
        Query::Dynamic => {
            all_of(&mut v, k::SHT_DYNAMIC, false);
            for j in 0..r.phnum() {
                if let Some(p) = r.phdr(j) {
                    if p.get("p_type") == k::PT_DYNAMIC as u64 {
                        let o = p.get("p_offset") as u128;
                        v.push((o, o + p.get("p_filesz") as u128));
                    }
                }
            }
        }
        Query::SymVer => {
            all_of(&mut v, k::SHT_GNU_VERSYM, false);
            all_of(&mut v, k::SHT_GNU_VERNEED, true);
            all_of(&mut v, k::SHT_GNU_VERDEF, true);
        }
        Query::SegmentNotes(j) => {
            if let Some(p) = r.phdr(*j) {
                let o = p.get("p_offset") as u128;
                v.push((o, o + p.get("p_filesz") as u128));
            }
        }
        _ => {}
    }
    v
}

fn check_reads(ctx: &mut Ctx, events: &[IoEvent], api: u32, ranges: &Ranges, what: &str, call: &str) -> bool {
    for ev in events.iter().filter(|e| e.api == api && e.kind == IoKind::Read) {
        ctx.count("reads-checked");
        let lo = ev.pos as u128;
        let hi = lo + ev.req as u128;
        if !covered(ranges, lo, hi) {
            ctx.violation(
                &format!("lazy:{call}:reads-outside-designated-ranges"),
                format!("{what}: during {call} the parser requested bytes [{lo:#x},{hi:#x}) which lie outside the ranges that call designates {:x?}", ranges),
            );
            return false;
        }
    }
    true
}

fn check_alloc(ctx: &mut Ctx, rep: &alloc::AllocReport, bound: u64, len: usize, what: &str, call: &str) -> bool {
    ctx.count("alloc-windows");
    ctx.count_n("alloc-requests-seen", rep.calls);
    if len >= 1024 {
        ctx.maxv("max-single-allocation-per-stream-byte-x1000(streams>=1KiB)", rep.largest.saturating_mul(1000) / len as u64);
    }
    ctx.maxv("max-single-allocation", rep.largest);
    if rep.over_bound > 0 {
        ctx.violation(
            &format!("alloc:{call}:over-bound"),
            format!("{what}: during {call} a single heap request of {} bytes was made for a stream of {} bytes (bound 8*L+4096 = {})", rep.largest_over, len, bound),
        );
        return false;
    }
    true
}

pub fn judge_file(ctx: &mut Ctx, data: &[u8], what: &str, policy: Policy, check_lazy: bool) {
    judge_file_opt(ctx, data, what, policy, check_lazy, false)
}

/// `retry`: every query is issued twice in a row (a caller retrying after a transient failure).
pub fn judge_file_opt(ctx: &mut Ctx, data: &[u8], what: &str, policy: Policy, check_lazy: bool, retry: bool) {
    ctx.count("files");
    ctx.set_input(data);
    ctx.mark_progress("stream-history");
    let len = data.len();
    let bound = alloc_bound(len);
    let seed = ctx.rng.next_u64();
    let (reader, handle) = new_reader(Rc::new(data.to_vec()), policy, seed);
    ctx.eval();
    alloc::arm(bound);
    let stream = ElfStream::<AnyEndian, MonReader>::open_stream(reader);
    let rep = alloc::disarm();
    if !check_alloc(ctx, &rep, bound, len, what, "open_stream") {
        return;
    }
    let events = handle.events();
    if check_lazy {
        let ranges = designated_open(data);
        if !check_reads(ctx, &events, 0, &ranges, what, "open_stream") {
            return;
        }
        let total: u128 = events.iter().filter(|e| e.api == 0 && e.kind == IoKind::Read).map(|e| if let Outcome::Ok(n) = e.outcome { n as u128 } else { 0 }).sum();
        let budget: u128 = ranges.iter().map(|(a, b)| b.saturating_sub(*a).min(len as u128)).sum::<u128>() + 2 * 64;
        ctx.count("open:read-total-checked");
        if total > budget {
            ctx.violation("lazy:open_stream:reads-more-than-headers", format!("{what}: open_stream read {total} bytes; header + both tables (+ shdr[0] re-read) amount to {budget}"));
            return;
        }
    }
    let mut stream = match stream {
        Ok(s) => s,
        Err(_) => return,
    };
    ctx.count("opened");
    let r = match ref_open(data, &[1, 2]) {
        Ok(r) => r,
        Err(_) => return,
    };
    let names = name_queries(&r, &mut ctx.rng, 4);
    let pool = smart_pool(&r, &names, &mut ctx.rng, true);
    let mut hist = gen_history(&mut ctx.rng, &pool, 24);
    if retry {
        hist = hist.into_iter().flat_map(|q| [q.clone(), q]).collect();
    }
    ctx.nontrivial(crate::rng::mix(crate::rng::fnv64(data), hist.len() as u64));
    ctx.sample(|| format!("{what} ({} bytes) history {:?}", len, hist.iter().take(8).collect::<Vec<_>>()));
    for (i, q) in hist.iter().enumerate() {
        ctx.eval();
        let api = i as u32 + 1;
        let mut w = Window { h: &handle, api, bound, report: None };
        let o = obs_stream(&mut stream, q, &mut w);
        if retry && o.is_err() && i % 2 == 0 {
            ctx.count("faulty-reader:retries-after-failed-call");
        }
        // a call cut before `after` (error before the crate call) leaves nothing armed
        let rep = w.report.unwrap_or_else(alloc::disarm);
        if !check_alloc(ctx, &rep, bound, len, what, q.label()) {
            return;
        }
        if check_lazy {
            let ev = handle.events();
            let ranges = designated_query(&r, q);
            if !check_reads(ctx, &ev, api, &ranges, what, q.label()) {
                return;
            }
        }
    }
    // a long session of caller-made section headers whose ranges are all inside the stream, pairwise different and
    // mostly large: whatever the parser keeps across calls, no single request may exceed the bound
    if len >= 64 && ctx.rng.chance(1, 4) {
        let n = 12 + ctx.rng.usize_below(40);
        ctx.count("fabricated-header-sessions");
        for j in 0..n {
            let off = (j as u64) % (len as u64 / 2);
            let size = match ctx.rng.below(4) {
                0 => ctx.rng.below(len as u64 - off + 1),
                _ => len as u64 - off - ctx.rng.below(((len as u64 - off) / 8).max(1)),
            };
            let sh = elf::section::SectionHeader { sh_name: 0, sh_type: k::SHT_PROGBITS, sh_flags: 0, sh_addr: 0, sh_offset: off, sh_size: size, sh_link: 0, sh_info: 0, sh_addralign: 1, sh_entsize: 0 };
            ctx.eval();
            let api = 1000 + j as u32;
            handle.set_api(api);
            alloc::arm(bound);
            let res = stream.section_data(&sh).map(|(d, _)| d.len());
            let rep = alloc::disarm();
            ctx.count("fabricated-header-queries");
            if !check_alloc(ctx, &rep, bound, len, what, "section_data(caller-made header)") {
                return;
            }
            if let Ok(l) = res {
                if l as u64 != size {
                    ctx.violation("fabricated:section_data:length", format!("{what}: section_data for a caller-made header [{off:#x},+{size:#x}) returned {l} bytes"));
                    return;
                }
            }
            if check_lazy {
                let ev = handle.events();
                if !check_reads(ctx, &ev, api, &vec![(off as u128, off as u128 + size as u128)], what, "section_data(caller-made header)") {
                    return;
                }
            }
        }
    }
}

fn count_lies(ctx: &mut Ctx, log: &[String]) {
    for l in log {
        if let Some(v) = l.split("=0x").nth(1).and_then(|h| u64::from_str_radix(h, 16).ok()) {
            if v >= 1 << 31 && (l.contains("size") || l.contains("num") || l.contains("off") || l.contains("sh_info") || l.contains("filesz")) {
                ctx.count("header-lies:size-or-count>=2^31");
            }
        }
    }
}

fn run(ctx: &mut Ctx, si: usize, _case: u64) {
    let enc = Enc::ALL[ctx.rng.usize_below(4)];
    match si {
        0 => {
            let mut o = GenOpts::unmodelled();
            o.max_syms = 8;
            let (spec, _) = gen_object(&mut ctx.rng, enc, &o);
            let mut b = build(&spec, &mut ctx.rng);
            let n = ctx.rng.usize_below(4);
            let mut log = Vec::new();
            for _ in 0..n {
                // sizes, counts and offsets driven to huge values in a small file
                if let Some(l) = mutate::structured_on(&mut ctx.rng, &mut b, &["e_shnum", "e_phnum", "e_shoff", "e_phoff", ".sh_size", ".sh_offset", ".sh_info", ".sh_link", ".p_filesz", ".p_offset", "e_shstrndx", ".sh_entsize"]) {
                    log.push(l);
                }
            }
            if ctx.rng.chance(1, 8) {
                log.extend(mutate::alias_tables(&mut ctx.rng, &mut b));
            }
            if ctx.rng.chance(1, 12) {
                // the header-only corner: no section table (e_shoff == 0) but the program header count asks for
                // shdr[0] (e_phnum == 0xffff), with any e_shentsize: opening may read the file header, nothing else
                b.poke("ehdr.e_shoff", 0);
                b.poke("ehdr.e_phnum", 0xffff);
                let es = *ctx.rng.pick(&[0u64, 1, 39, 40, 63, 64, 65, 128, 512, 4096, 0xffff]);
                b.poke("ehdr.e_shentsize", es);
                log.push(format!("e_shoff=0, e_phnum=0xffff, e_shentsize={es:#x}"));
                ctx.count("no-section-table-but-phnum-in-shdr0");
            }
            if ctx.rng.chance(1, 4) {
                // several tables each spanning (nearly) the whole file
                let k = 2 + ctx.rng.usize_below(5);
                log.extend(mutate::maximize_ranges(&mut ctx.rng, &mut b, k));
                ctx.count("whole-file-spanning-sections");
            }
            count_lies(ctx, &log);
            // laziness is judged under the plain reader; the allocation bound under every legal reader
            let (policy, lazy) = match ctx.rng.below(3) {
                0 => (Policy { max_chunk: 1 + ctx.rng.usize_below(9), ..Default::default() }, false),
                1 => (Policy { interrupt_per_256: 40, ..Default::default() }, false),
                _ => (Policy::default(), true),
            };
            judge_file(ctx, &b.bytes, &format!("generated {} + {:?}", enc.name(), log), policy, lazy);
        }
        1 => {
            let mut o = GenOpts::unmodelled();
            o.max_syms = 4;
            o.density = 4;
            let (mut spec, _) = gen_object(&mut ctx.rng, enc, &o);
            spec.max_gap = 1 << (10 + ctx.rng.below(7));
            let b = build(&spec, &mut ctx.rng);
            ctx.count("padded-files");
            judge_file(ctx, &b.bytes, &format!("generated {} with gaps up to {} bytes between parts", enc.name(), spec.max_gap), Policy::default(), true);
        }
        2 => {
            let l = ctx.rng.usize_below(300);
            let bytes = mutate::random_with_ident(&mut ctx.rng, enc, l);
            judge_file(ctx, &bytes, &format!("random bytes behind a valid {} ident", enc.name()), Policy::default(), true);
        }
        _ => {
            // a reader that delivers short reads and fails transiently now and then; every query is retried
            // once: the retry must again read only inside the query's own ranges
            let mut o = GenOpts::unmodelled();
            o.max_syms = 6;
            o.weird_views = false;
            let (spec, _) = gen_object(&mut ctx.rng, enc, &o);
            let b = build(&spec, &mut ctx.rng);
            let nf = 1 + ctx.rng.usize_below(4);
            let faults = (0..nf)
                .map(|_| crate::monitor::io::Fault { at_call: 4 + ctx.rng.below(400) as u32, kind: if ctx.rng.bool() { crate::monitor::io::FaultKind::Error } else { crate::monitor::io::FaultKind::Eof }, permanent: false })
                .collect();
            let policy = Policy { max_chunk: [8usize, 16, 48][ctx.rng.usize_below(3)], interrupt_per_256: 0, faults };
            judge_file_opt(ctx, &b.bytes, &format!("generated {} behind a short-reading reader with {nf} transient faults", enc.name()), policy, true, true);
        }
    }
}

//! C03 — returned data is the exact header-designated byte range of the input.
use super::c14::check_iteration;
use super::util::{entries_mismatch, open_slice, strtab_mismatch};
use super::{scale, st, PropDef, Stratum};
use crate::codec::{k, size_of, Enc, Rec, St};
use crate::ctx::{Ctx, Tier};
use crate::gen::elf::build;
use crate::gen::mutate;
use crate::gen::object::{gen_object, GenOpts};
use crate::reference::locator::ref_open;
use crate::reference::structs::{mismatch, Fields};
use elf::dynamic::Dyn;
use elf::endian::AnyEndian;
use elf::relocation::{Rel, Rela};
use elf::section::SectionHeader;
use elf::segment::ProgramHeader;
use elf::symbol::Symbol;
use elf::ElfBytes;

pub const DEF: PropDef = PropDef { id: "C03", strata, run, setup, canaries: &["panic"] };

fn setup(ctx: &mut Ctx) {
    #[cfg(all(target_pointer_width = "64", not(miri)))]
    {
        ctx.floor("huge-slice:opened", 1000);
        ctx.floor("huge-slice:sections-at>=2^32", 5000);
    }
    ctx.floor("section_data:ok-range-checked", 5000);
    ctx.floor("section_data:out-of-file-err", 500);
    ctx.floor("section_data:nobits-empty", 200);
    ctx.floor("section_data:compressed", 200);
    ctx.floor("section_data:compressed-too-short-err", 10);
    ctx.floor("section_data:end==len", 100);
    ctx.floor("section_data:end==len+1", 50);
    ctx.floor("section_data:zero-length", 200);
    ctx.floor("segment_data:ok-range-checked", 2000);
    ctx.floor("segment_data:out-of-file-err", 200);
    ctx.floor("segment_data:memsz!=filesz", 1000);
    ctx.floor("typed:strtab", 500);
    ctx.floor("typed:rels", 100);
    ctx.floor("typed:relas", 100);
    ctx.floor("typed:notes-section", 200);
    ctx.floor("typed:notes-segment", 100);
    ctx.floor("typed:symbol-table", 200);
    ctx.floor("typed:dynamic", 100);
    ctx.floor("typed:symbol-version-table", 100);
    ctx.floor("typed:symbol-version-table:must-fail", 10);
    ctx.floor("fabricated-header", 2000);
    ctx.floor("strtab-entry-pointer", 1000);
}

fn strata(t: Tier) -> Vec<Stratum> {
    vec![st("generated-objects", scale(t, 720_000, 7_200_000, 4)), st("fabricated-headers", scale(t, 360_000, 3_600_000, 4)), st("slices-beyond-4GiB", scale(t, 3_200, 32_000, 0))]
}

pub enum Expect {
    Err,
    /// (start, len) of the returned slice in the caller's buffer, and the compression header
    Ok(usize, usize, Option<Rec>),
}

/// What `section_data` must return for a header with these values.
pub fn expect_section_data(buf: &[u8], enc: Enc, sh_type: u32, flags: u64, off: u64, size: u64) -> Expect {
    if sh_type == k::SHT_NOBITS {
        return Expect::Ok(0, 0, None);
    }
    let end = off as u128 + size as u128;
    if end > buf.len() as u128 {
        return Expect::Err;
    }
    let (o, z) = (off as usize, size as usize);
    if flags & k::SHF_COMPRESSED == 0 {
        return Expect::Ok(o, z, None);
    }
    let cs = size_of(St::Chdr, enc.c64);
    if z < cs {
        return Expect::Err;
    }
    let chdr = Rec::decode(St::Chdr, enc, buf, o).unwrap();
    Expect::Ok(o + cs, z - cs, Some(chdr))
}

fn in_place(sub: &[u8], buf: &[u8], start: usize, len: usize) -> bool {
    if sub.len() != len {
        return false;
    }
    if len == 0 {
        return true; // no pointer requirement on empty slices
    }
    let p = sub.as_ptr() as usize;
    let b = buf.as_ptr() as usize;
    p == b + start && start + len <= buf.len()
}

/// Judge every data-returning call for one section header.
pub fn judge_section(ctx: &mut Ctx, f: &ElfBytes<'_, AnyEndian>, buf: &[u8], enc: Enc, sh: &SectionHeader, what: &str) -> bool {
    ctx.eval();
    let exp = expect_section_data(buf, enc, sh.sh_type, sh.sh_flags, sh.sh_offset, sh.sh_size);
    let got = f.section_data(sh);
    let end = sh.sh_offset as u128 + sh.sh_size as u128;
    if sh.sh_type != k::SHT_NOBITS {
        if end == buf.len() as u128 {
            ctx.count("section_data:end==len");
        } else if end == buf.len() as u128 + 1 {
            ctx.count("section_data:end==len+1");
        }
        if sh.sh_size == 0 {
            ctx.count("section_data:zero-length");
        }
    }
    let payload: Option<(usize, usize)> = match (&exp, &got) {
        (Expect::Err, Err(_)) => {
            if sh.sh_flags & k::SHF_COMPRESSED != 0 && end <= buf.len() as u128 {
                ctx.count("section_data:compressed-too-short-err");
            } else {
                ctx.count("section_data:out-of-file-err");
            }
            None
        }
        (Expect::Err, Ok((d, _))) => {
            ctx.violation(
                "section_data:no-error",
                format!("{what}: section [{:#x},+{:#x}) type {:#x} flags {:#x} does not fit in a {}-byte file, but section_data returned {} bytes", sh.sh_offset, sh.sh_size, sh.sh_type, sh.sh_flags, buf.len(), d.len()),
            );
            return false;
        }
        (Expect::Ok(..), Err(e)) => {
            ctx.violation("section_data:spurious-error", format!("{what}: section [{:#x},+{:#x}) type {:#x} flags {:#x} fits in the {}-byte file, but section_data failed: {e:?}", sh.sh_offset, sh.sh_size, sh.sh_type, sh.sh_flags, buf.len()));
            return false;
        }
        (Expect::Ok(s, l, chdr), Ok((d, c))) => {
            if sh.sh_type == k::SHT_NOBITS {
                ctx.count("section_data:nobits-empty");
            } else {
                ctx.count("section_data:ok-range-checked");
            }
            if !in_place(d, buf, *s, *l) {
                ctx.violation(
                    "section_data:wrong-range",
                    format!("{what}: section_data for [{:#x},+{:#x}) type {:#x} flags {:#x}: returned {} bytes at buffer offset {:?}, expected {} bytes at {:#x}", sh.sh_offset, sh.sh_size, sh.sh_type, sh.sh_flags, d.len(), (d.as_ptr() as usize).checked_sub(buf.as_ptr() as usize), l, s),
                );
                return false;
            }
            match (chdr, c) {
                (None, None) => {}
                (Some(r), Some(c)) => {
                    ctx.count("section_data:compressed");
                    if let Some(m) = mismatch(&c.fields(), r) {
                        ctx.violation("section_data:chdr", format!("{what}: compression header: {m}"));
                        return false;
                    }
                }
                (r, c) => {
                    ctx.violation("section_data:chdr-presence", format!("{what}: compression header expected {} got {:?}", r.is_some(), c));
                    return false;
                }
            }
            Some((*s, *l))
        }
    };
    // typed views: content must be exactly what is decodable from the designated range
    let range_bytes = payload.map(|(s, l)| if l == 0 { &buf[0..0] } else { &buf[s..s + l] });
    if sh.sh_type == k::SHT_STRTAB {
        ctx.count("typed:strtab");
        match (range_bytes, f.section_data_as_strtab(sh)) {
            (None, Err(_)) => {}
            (Some(b), Ok(tab)) => {
                if let Some(m) = strtab_mismatch(&tab, b) {
                    ctx.violation("as_strtab:wrong-bytes", format!("{what}: string table view of [{:#x},+{:#x}): {m}", sh.sh_offset, sh.sh_size));
                    return false;
                }
                // entries are borrowed from the caller's buffer at table start + offset
                for _ in 0..4 {
                    if b.is_empty() {
                        break;
                    }
                    let off = ctx.rng.usize_below(b.len());
                    if let Ok(s) = tab.get_raw(off) {
                        ctx.count("strtab-entry-pointer");
                        let start = payload.unwrap().0 + off;
                        if !in_place(s, buf, start, s.len()) {
                            ctx.violation("as_strtab:entry-not-in-place", format!("{what}: get_raw({off}) is not the buffer range at {start:#x}"));
                            return false;
                        }
                    }
                }
            }
            (e, g) => {
                ctx.violation("as_strtab:outcome", format!("{what}: section_data_as_strtab: range fits={} but call ok={}", e.is_some(), g.is_ok()));
                return false;
            }
        }
    }
    if sh.sh_type == k::SHT_REL {
        ctx.count("typed:rels");
        match (range_bytes, f.section_data_as_rels(sh)) {
            (None, Err(_)) => {}
            (Some(b), Ok(it)) => {
                let items: Vec<Rel> = it.take(b.len() / 8 + 2).collect();
                let n = b.len() / size_of(St::Rel, enc.c64);
                let idxs: Vec<usize> = (0..n).collect();
                let m = if items.len() != n { Some(format!("{} items, {} whole entries", items.len(), n)) } else { entries_mismatch::<Rel, _>(enc, b, 0, &idxs, |i| items.get(i).cloned()) };
                if let Some(m) = m {
                    ctx.violation("as_rels:content", format!("{what}: rel view of [{:#x},+{:#x}): {m}", sh.sh_offset, sh.sh_size));
                    return false;
                }
            }
            (e, g) => {
                ctx.violation("as_rels:outcome", format!("{what}: section_data_as_rels: range fits={} but call ok={}", e.is_some(), g.is_ok()));
                return false;
            }
        }
    }
    if sh.sh_type == k::SHT_RELA {
        ctx.count("typed:relas");
        match (range_bytes, f.section_data_as_relas(sh)) {
            (None, Err(_)) => {}
            (Some(b), Ok(it)) => {
                let items: Vec<Rela> = it.take(b.len() / 12 + 2).collect();
                let n = b.len() / size_of(St::Rela, enc.c64);
                let idxs: Vec<usize> = (0..n).collect();
                let m = if items.len() != n { Some(format!("{} items, {} whole entries", items.len(), n)) } else { entries_mismatch::<Rela, _>(enc, b, 0, &idxs, |i| items.get(i).cloned()) };
                if let Some(m) = m {
                    ctx.violation("as_relas:content", format!("{what}: rela view of [{:#x},+{:#x}): {m}", sh.sh_offset, sh.sh_size));
                    return false;
                }
            }
            (e, g) => {
                ctx.violation("as_relas:outcome", format!("{what}: section_data_as_relas: range fits={} but call ok={}", e.is_some(), g.is_ok()));
                return false;
            }
        }
    }
    if sh.sh_type == k::SHT_NOTE {
        ctx.count("typed:notes-section");
        match (range_bytes, f.section_data_as_notes(sh)) {
            (None, Err(_)) => {}
            (Some(b), Ok(it)) => {
                let before = ctx.violations.len();
                check_iteration(ctx, "section_data_as_notes", enc.big, sh.sh_addralign, b, it);
                if ctx.violations.len() != before {
                    return false;
                }
            }
            (e, g) => {
                ctx.violation("as_notes:outcome", format!("{what}: section_data_as_notes: range fits={} but call ok={}", e.is_some(), g.is_ok()));
                return false;
            }
        }
    }
    true
}

pub fn judge_segment(ctx: &mut Ctx, f: &ElfBytes<'_, AnyEndian>, buf: &[u8], enc: Enc, ph: &ProgramHeader, what: &str) -> bool {
    ctx.eval();
    if ph.p_memsz != ph.p_filesz {
        ctx.count("segment_data:memsz!=filesz");
    }
    let end = ph.p_offset as u128 + ph.p_filesz as u128;
    let fits = end <= buf.len() as u128;
    let got = f.segment_data(ph);
    match (fits, &got) {
        (false, Err(_)) => ctx.count("segment_data:out-of-file-err"),
        (true, Ok(d)) => {
            ctx.count("segment_data:ok-range-checked");
            if !in_place(d, buf, ph.p_offset as usize, ph.p_filesz as usize) {
                ctx.violation(
                    "segment_data:wrong-range",
                    format!("{what}: segment_data for p_offset={:#x} p_filesz={:#x} p_memsz={:#x}: returned {} bytes at buffer offset {:?}", ph.p_offset, ph.p_filesz, ph.p_memsz, d.len(), (d.as_ptr() as usize).checked_sub(buf.as_ptr() as usize)),
                );
                return false;
            }
        }
        (false, Ok(d)) => {
            ctx.violation("segment_data:no-error", format!("{what}: segment [{:#x},+{:#x}) does not fit in a {}-byte file but segment_data returned {} bytes", ph.p_offset, ph.p_filesz, buf.len(), d.len()));
            return false;
        }
        (true, Err(e)) => {
            ctx.violation("segment_data:spurious-error", format!("{what}: segment [{:#x},+{:#x}) fits but segment_data failed: {e:?}", ph.p_offset, ph.p_filesz));
            return false;
        }
    }
    if ph.p_type == k::PT_NOTE {
        ctx.count("typed:notes-segment");
        match (fits, f.segment_data_as_notes(ph)) {
            (false, Err(_)) => {}
            (true, Ok(it)) => {
                let b = &buf[ph.p_offset as usize..(ph.p_offset + ph.p_filesz) as usize];
                let before = ctx.violations.len();
                check_iteration(ctx, "segment_data_as_notes", enc.big, ph.p_align, b, it);
                if ctx.violations.len() != before {
                    return false;
                }
            }
            (e, g) => {
                ctx.violation("segment_as_notes:outcome", format!("{what}: segment_data_as_notes: range fits={e} but call ok={}", g.is_ok()));
                return false;
            }
        }
    }
    true
}

/// symbol_table / dynamic_symbol_table / dynamic: content-based range check
fn judge_tables(ctx: &mut Ctx, f: &ElfBytes<'_, AnyEndian>, buf: &[u8], enc: Enc, what: &str) -> bool {
    let r = match ref_open(buf, &[1, 2]) {
        Ok(r) => r,
        Err(_) => return true,
    };
    for (ty, is_dyn) in [(k::SHT_SYMTAB, false), (k::SHT_DYNSYM, true)] {
        let Some((_, sh)) = r.first_section_of_type(ty) else { continue };
        let got = if is_dyn { f.dynamic_symbol_table() } else { f.symbol_table() };
        let es = size_of(St::Sym, enc.c64);
        let link = r.shdr(sh.get("sh_link") as usize);
        let fits = r.sec_range(&sh);
        let strfits = link.as_ref().and_then(|l| r.sec_range(l));
        let entsize_ok = sh.get("sh_entsize") == es as u64;
        ctx.eval();
        match (fits, strfits, entsize_ok, got) {
            (Some((s, l)), Some((ss, sl)), true, Ok(Some((tab, strs)))) => {
                ctx.count("typed:symbol-table");
                let n = l / es;
                let idxs: Vec<usize> = (0..n).collect();
                let m = if tab.len() != n { Some(format!("len {} != designated {}/{}", tab.len(), l, es)) } else { entries_mismatch::<Symbol, _>(enc, buf, s, &idxs, |i| tab.get(i).ok()) };
                let m = m.or_else(|| strtab_mismatch(&strs, &buf[ss..ss + sl]));
                if let Some(m) = m {
                    ctx.violation("symbol_table:content", format!("{what}: {} designated [{s:#x},+{l:#x}) strtab [{ss:#x},+{sl:#x}): {m}", if is_dyn { "dynsym" } else { "symtab" }));
                    return false;
                }
            }
            (Some(_), Some(_), true, other) => {
                ctx.violation("symbol_table:spurious-failure", format!("{what}: symbol table and its strtab fit and entsize is right, but the accessor returned {:?}", other.map(|o| o.is_some())));
                return false;
            }
            (_, _, _, Ok(Some(_))) => {
                ctx.violation("symbol_table:no-error", format!("{what}: symbol table range fits={} strtab fits={} entsize ok={} but the accessor succeeded", fits.is_some(), strfits.is_some(), entsize_ok));
                return false;
            }
            _ => {}
        }
    }
    // symbol-version table: every part must be the range its own header designates (versym, verneed and the
    // string table verneed links to, verdef and the string table *verdef* links to)
    let count_of = |ty: u32| (0..r.shnum()).filter(|i| r.shdr(*i).map(|s| s.get("sh_type") == ty as u64).unwrap_or(false)).count();
    if count_of(k::SHT_GNU_VERSYM) == 1 && count_of(k::SHT_GNU_VERNEED) <= 1 && count_of(k::SHT_GNU_VERDEF) <= 1 {
        use elf::gnu_symver::{SymbolVersionTable, VerDefIterator, VerNeedIterator, VersionIndexTable};
        use elf::string_table::StringTable;
        let (_, vs) = r.first_section_of_type(k::SHT_GNU_VERSYM).unwrap();
        let class = f.ehdr.class;
        let e = f.ehdr.endianness;
        let mut all_fit = vs.get("sh_entsize") == 2;
        let vsr = r.sec_range(&vs);
        all_fit &= vsr.is_some();
        let part = |ty: u32| -> Option<Option<((usize, usize), (usize, usize), u64)>> {
            // None = must fail; Some(None) = section absent; Some(Some(..)) = (range, strtab range, count)
            match r.first_section_of_type(ty) {
                None => Some(None),
                Some((_, sh)) => {
                    let rg = r.sec_range(&sh)?;
                    let link = r.shdr(sh.get("sh_link") as usize)?;
                    let sr = r.sec_range(&link)?;
                    Some(Some((rg, sr, sh.get("sh_info"))))
                }
            }
        };
        let needs = part(k::SHT_GNU_VERNEED);
        let defs = part(k::SHT_GNU_VERDEF);
        all_fit &= needs.is_some() && defs.is_some();
        ctx.eval();
        match (all_fit, f.symbol_version_table()) {
            (true, Ok(Some(t))) => {
                ctx.count("typed:symbol-version-table");
                let (vo, vl) = vsr.unwrap();
                let nt = needs.unwrap().map(|((o, l), (so, sl), c)| (VerNeedIterator::new(e, class, c, 0, &buf[o..o + l]), StringTable::new(&buf[so..so + sl])));
                let dt = defs.unwrap().map(|((o, l), (so, sl), c)| (VerDefIterator::new(e, class, c, 0, &buf[o..o + l]), StringTable::new(&buf[so..so + sl])));
                let want = SymbolVersionTable::new(VersionIndexTable::new(e, class, &buf[vo..vo + vl]), nt, dt);
                let n = vl / 2;
                let (a, b) = (crate::observe::dump_symver(&t, n), crate::observe::dump_symver(&want, n));
                if a != b {
                    ctx.violation("symbol_version_table:content", format!("{what}: the version table differs from one built over the header-designated ranges (versym [{vo:#x},+{vl:#x})): got {} expected {}", a.chars().take(240).collect::<String>(), b.chars().take(240).collect::<String>()));
                    return false;
                }
            }
            (true, other) => {
                ctx.violation("symbol_version_table:spurious-failure", format!("{what}: every version section and linked string table fits, but symbol_version_table() returned {:?}", other.map(|o| o.is_some())));
                return false;
            }
            (false, Ok(Some(_))) => {
                ctx.violation("symbol_version_table:no-error", format!("{what}: a version section or the string table it links to does not fit in the file (or versym entsize is wrong), but symbol_version_table() succeeded"));
                return false;
            }
            _ => ctx.count("typed:symbol-version-table:must-fail"),
        }
    }
    if let Some((_, sh)) = r.first_section_of_type(k::SHT_DYNAMIC) {
        let es = size_of(St::Dyn, enc.c64);
        let exp = expect_section_data(buf, enc, k::SHT_DYNAMIC, sh.get("sh_flags"), sh.get("sh_offset"), sh.get("sh_size"));
        let entsize_ok = sh.get("sh_entsize") == es as u64;
        ctx.eval();
        match (exp, entsize_ok, f.dynamic()) {
            (Expect::Ok(s, l, _), true, Ok(Some(tab))) => {
                ctx.count("typed:dynamic");
                let n = l / es;
                let idxs: Vec<usize> = (0..n).collect();
                let m = if tab.len() != n { Some(format!("len {} != designated {}/{}", tab.len(), l, es)) } else { entries_mismatch::<Dyn, _>(enc, buf, s, &idxs, |i| tab.get(i).ok()) };
                if let Some(m) = m {
                    ctx.violation("dynamic:content", format!("{what}: .dynamic designated [{s:#x},+{l:#x}): {m}"));
                    return false;
                }
            }
            (Expect::Ok(..), true, other) => {
                ctx.violation("dynamic:spurious-failure", format!("{what}: .dynamic fits and entsize is right but dynamic() returned {:?}", other.map(|o| o.is_some())));
                return false;
            }
            (Expect::Err, _, Ok(Some(_))) => {
                ctx.violation("dynamic:no-error", format!("{what}: .dynamic range does not fit but dynamic() succeeded"));
                return false;
            }
            _ => {}
        }
    }
    true
}

/// An ELF64 object inside a slice that really is longer than 4 GiB: a hole of 2^32 zero bytes is spliced in at a
/// structure boundary and every file offset behind it moved up, so sections, segments and tables live at offsets
/// >= 2^32. Same judges as for ordinary files (native 64-bit only; the zero pages of the hole cost no memory).
fn huge_slice_case(ctx: &mut Ctx) {
    let enc = Enc { c64: true, big: ctx.rng.bool() };
    let mut o = GenOpts::standard();
    o.max_syms = 8;
    o.weird_views = false;
    let (spec, _m) = gen_object(&mut ctx.rng, enc, &o);
    let mut b = build(&spec, &mut ctx.rng);
    let cands = mutate::cut_points(&b);
    if cands.is_empty() {
        ctx.count("huge-slice:no-cut-point");
        return;
    }
    let at = cands[ctx.rng.usize_below(cands.len())] as usize;
    let g4 = super::util::G4;
    let hole: usize = [g4, g4.wrapping_sub(16), g4.wrapping_sub(at.min(1 << 31))][ctx.rng.usize_below(3)];
    mutate::relocate(&mut b, at as u64, hole as u64);
    let bytes = b.bytes.clone();
    if bytes.len() + hole > super::util::HUGE_LEN {
        return;
    }
    ctx.set_input(&bytes);
    ctx.nontrivial(crate::rng::mix(crate::rng::fnv64(&bytes), (at ^ hole) as u64));
    let what = format!("generated {} ({} bytes) inside a slice with a hole of {hole:#x} zero bytes at {at:#x}", enc.name(), bytes.len());
    ctx.sample(|| what.clone());
    let done = super::util::with_huge_buffer(|buf| {
        buf[..at].copy_from_slice(&bytes[..at]);
        buf[at + hole..bytes.len() + hole].copy_from_slice(&bytes[at..]);
        {
            let view: &[u8] = &buf[..bytes.len() + hole];
            match open_slice(view) {
                Ok(f) => {
                    ctx.count("huge-slice:opened");
                    let mut ok = true;
                    if let Some(shdrs) = f.section_headers() {
                        for sh in shdrs.iter() {
                            if sh.sh_offset >= 1u64 << 32 {
                                ctx.count("huge-slice:sections-at>=2^32");
                            }
                            if ok && !judge_section(ctx, &f, view, enc, &sh, &what) {
                                ok = false;
                            }
                        }
                    }
                    if let Some(phdrs) = f.segments() {
                        for ph in phdrs.iter() {
                            if ok && !judge_segment(ctx, &f, view, enc, &ph, &what) {
                                ok = false;
                            }
                        }
                    }
                    if ok {
                        judge_tables(ctx, &f, view, enc, &what);
                    }
                }
                Err(e) => ctx.violation("huge-slice:does-not-open", format!("{what}: the relocated file does not open: {e}")),
            }
        }
        buf[..at].fill(0);
        buf[at + hole..bytes.len() + hole].fill(0);
    });
    if done.is_none() {
        ctx.count("huge-slice:not-on-this-target");
    }
}

fn run(ctx: &mut Ctx, si: usize, _case: u64) {
    if si == 2 {
        huge_slice_case(ctx);
        return;
    }
    let enc = Enc::ALL[ctx.rng.usize_below(4)];
    let mut o = GenOpts::standard();
    o.max_syms = 8;
    let (spec, _m) = gen_object(&mut ctx.rng, enc, &o);
    let mut b = build(&spec, &mut ctx.rng);
    match si {
        0 => {
            // mutate section/segment header fields (ranges, types, flags), never the locator's inputs
            let nmut = ctx.rng.usize_below(4);
            let mut log = Vec::new();
            for _ in 0..nmut {
                if let Some(l) = mutate::structured_on(&mut ctx.rng, &mut b, &[".sh_offset", ".sh_size", ".sh_type", ".sh_flags", ".sh_addralign", ".sh_link", ".sh_entsize", ".p_offset", ".p_filesz", ".p_memsz", ".p_align", ".p_type"]) {
                    if l.starts_with("shdr[0].") {
                        continue;
                    }
                    log.push(l);
                }
            }
            let buf = b.bytes.clone();
            ctx.set_input(&buf);
            ctx.nontrivial_bytes(&buf);
            ctx.sample(|| format!("{} {} sections {} segments len={} mutations={:?}", enc.name(), b.shnum, b.phnum, buf.len(), log));
            let f = match open_slice(&buf) {
                Ok(f) => f,
                Err(_) => {
                    ctx.count("did-not-open");
                    return;
                }
            };
            let what = format!("generated object (mutations {:?})", log);
            if let Some(shdrs) = f.section_headers() {
                for sh in shdrs.iter() {
                    if !judge_section(ctx, &f, &buf, enc, &sh, &what) {
                        return;
                    }
                }
            }
            if let Some(phdrs) = f.segments() {
                for ph in phdrs.iter() {
                    if !judge_segment(ctx, &f, &buf, enc, &ph, &what) {
                        return;
                    }
                }
            }
            judge_tables(ctx, &f, &buf, enc, &what);
        }
        _ => {
            // caller-fabricated headers against a healthy file
            let buf = b.bytes.clone();
            ctx.set_input(&buf);
            let f = match open_slice(&buf) {
                Ok(f) => f,
                Err(e) => {
                    ctx.inconclusive(format!("unmutated generated object did not open: {e}"));
                    return;
                }
            };
            let len = buf.len() as u64;
            let bits = if enc.c64 { 64 } else { 64 }; // fabricated native headers are 64-bit in both classes
            for _ in 0..24 {
                ctx.count("fabricated-header");
                let cur = ctx.rng.below(len + 1);
                let off = mutate::boundary_for(&mut ctx.rng, len, cur, 8);
                let size = match ctx.rng.below(4) {
                    0 => len.wrapping_sub(off),
                    1 => len.wrapping_sub(off).wrapping_add(1),
                    2 => 0,
                    _ => ctx.rng.boundary(bits),
                };
                let sh = SectionHeader {
                    sh_name: 0,
                    sh_type: [k::SHT_PROGBITS, k::SHT_NOBITS, k::SHT_STRTAB, k::SHT_NOTE, k::SHT_REL, k::SHT_RELA, k::SHT_SYMTAB, 0x7fff_ffff][ctx.rng.usize_below(8)],
                    sh_flags: if ctx.rng.chance(1, 4) { k::SHF_COMPRESSED } else { 0 } | ctx.rng.below(8),
                    sh_addr: 0,
                    sh_offset: off,
                    sh_size: size,
                    sh_link: ctx.rng.boundary(32) as u32,
                    sh_info: 0,
                    sh_addralign: crate::gen::notes::ALIGNS[ctx.rng.usize_below(crate::gen::notes::ALIGNS.len())],
                    sh_entsize: ctx.rng.boundary(64),
                };
                let mut key = Vec::new();
                key.extend_from_slice(&off.to_le_bytes());
                key.extend_from_slice(&size.to_le_bytes());
                key.extend_from_slice(&sh.sh_type.to_le_bytes());
                key.extend_from_slice(&len.to_le_bytes());
                ctx.nontrivial_bytes(&key);
                ctx.sample(|| format!("{} fabricated {:?} against a {}-byte file", enc.name(), sh, len));
                if !judge_section(ctx, &f, &buf, enc, &sh, &format!("fabricated header {:?}", sh)) {
                    return;
                }
                let ph = ProgramHeader {
                    p_type: [k::PT_LOAD, k::PT_NOTE, k::PT_DYNAMIC][ctx.rng.usize_below(3)],
                    p_offset: off,
                    p_vaddr: 0,
                    p_paddr: 0,
                    p_filesz: size,
                    p_memsz: size.wrapping_add(ctx.rng.boundary(64)),
                    p_flags: 0,
                    p_align: crate::gen::notes::ALIGNS[ctx.rng.usize_below(crate::gen::notes::ALIGNS.len())],
                };
                if !judge_segment(ctx, &f, &buf, enc, &ph, &format!("fabricated header {:?}", ph)) {
                    return;
                }
            }
        }
    }
}

/// Judge every data-returning call on arbitrary file bytes (libFuzzer target `ranges`).
pub fn judge_bytes(ctx: &mut Ctx, buf: &[u8]) {
    ctx.set_input(buf);
    let f = match open_slice(buf) {
        Ok(f) => f,
        Err(_) => return,
    };
    let enc = Enc { c64: f.ehdr.class == elf::file::Class::ELF64, big: buf[5] == 2 };
    if let Some(shdrs) = f.section_headers() {
        for sh in shdrs.iter().take(64) {
            if !judge_section(ctx, &f, buf, enc, &sh, "fuzz input") {
                return;
            }
        }
    }
    if let Some(phdrs) = f.segments() {
        for ph in phdrs.iter().take(32) {
            if !judge_segment(ctx, &f, buf, enc, &ph, "fuzz input") {
                return;
            }
        }
    }
    judge_tables(ctx, &f, buf, enc, "fuzz input");
}

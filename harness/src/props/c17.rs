//! C17 — stream I/O failures surface as errors and never corrupt later answers.
//!
//! Fault enumeration: for each (file, history) the history is first run fault-free under the
//! I/O monitor to learn the number N of I/O calls and the fault-free answers; then it is
//! replayed with a fault injected at every single I/O call index 0..N, for each fault kind
//! (error / premature EOF) and duration (transient / permanent), plus random multi-fault
//! schedules. Every history repeats each query after the faulted position.
use super::c07::{name_queries, smart_pool, ApiTag};
use super::{scale, st, PropDef, Stratum};
use crate::codec::Enc;
use crate::ctx::{Ctx, Tier};
use crate::gen::elf::build;
use crate::gen::object::{gen_object, GenOpts};
use crate::monitor::io::{new_reader, Fault, FaultKind, MonReader, Policy};
use crate::observe::{obs_stream, Obs, Query};
use crate::reference::locator::ref_open;
use elf::endian::AnyEndian;
use elf::ElfStream;
use std::rc::Rc;

pub const DEF: PropDef = PropDef { id: "C17", strata, run, setup, canaries: &["panic", "io"] };

fn setup(ctx: &mut Ctx) {
    ctx.floor("histories", 100);
    ctx.floor("histories:every-fault-index-fired", 50);
    ctx.floor("faults-injected", 5000);
    ctx.floor("faults-fired", 5000);
    ctx.floor("fault:error", 1000);
    ctx.floor("fault:eof", 1000);
    ctx.floor("fault:interrupted", 1000);
    ctx.floor("interrupt:during-query:retried-with-right-answer", 200);
    ctx.floor("interrupt:during-query:err", 50);
    ctx.floor("fault:transient", 1000);
    ctx.floor("fault:permanent", 1000);
    ctx.floor("fault:on-seek", 500);
    ctx.floor("fault:on-read", 500);
    ctx.floor("fault:during-open", 500);
    ctx.floor("fault:during-query", 500);
    ctx.floor("post-fault:answer-equals-fault-free", 2000);
    ctx.floor("post-fault:repeat-of-faulted-query-ok", 200);
    ctx.floor("multi-fault-schedules", 100);
    ctx.floor("reader:short-reads", 50);
    ctx.floor("reader:full-reads", 50);
    ctx.floor("fault:mid-range(after-partial-delivery)", 200);
}

fn strata(t: Tier) -> Vec<Stratum> {
    vec![st("single-fault-enumeration", scale(t, 120_000, 1_200_000, 2)), st("multi-fault-schedules", scale(t, 200_000, 2_000_000, 2))]
}

struct Run {
    open_ok: bool,
    answers: Vec<Obs>,
    fired: Vec<(u32, u32)>,
    /// `Interrupted` faults: the caller may retry those, so the call may also succeed (with the right answer)
    fired_soft: Vec<(u32, u32)>,
    io_calls: u32,
    /// I/O call index at which each API call started (api tag -> first io call)
    kinds: Vec<bool>, // per I/O call: true = read
}

fn replay(data: &Rc<Vec<u8>>, hist: &[Query], faults: Vec<Fault>, max_chunk: usize, seed: u64) -> Run {
    let (reader, handle) = new_reader(data.clone(), Policy { faults, max_chunk, ..Default::default() }, seed);
    let mut answers = Vec::with_capacity(hist.len());
    let stream = ElfStream::<AnyEndian, MonReader>::open_stream(reader);
    let open_ok = stream.is_ok();
    if let Ok(mut s) = stream {
        for (i, q) in hist.iter().enumerate() {
            answers.push(obs_stream(&mut s, q, &mut ApiTag { h: &handle, api: i as u32 + 1 }));
        }
    }
    let kinds = handle.events().iter().map(|e| e.kind == crate::monitor::io::IoKind::Read).collect();
    Run { open_ok, answers, fired: handle.fired(), fired_soft: handle.fired_soft(), io_calls: handle.calls(), kinds }
}

fn judge(ctx: &mut Ctx, what: &str, hist: &[Query], clean: &Run, faulty: &Run, desc: &str) -> bool {
    ctx.eval();
    let fired_open = faulty.fired.iter().any(|(_, api)| *api == 0);
    if fired_open {
        ctx.count("fault:during-open");
        if faulty.open_ok {
            ctx.violation("open:fault-swallowed", format!("{what}: {desc}: the fault fired during open_stream, which nevertheless returned Ok"));
            return false;
        }
        return true;
    }
    let soft_open = faulty.fired_soft.iter().any(|(_, api)| *api == 0);
    if !faulty.open_ok && soft_open {
        ctx.count("interrupt:during-open:err");
        return true;
    }
    if soft_open {
        ctx.count("interrupt:during-open:retried");
    }
    if !faulty.open_ok {
        // no fault fired during open, yet it failed although the fault-free open succeeds
        ctx.violation("open:fails-without-fault", format!("{what}: {desc}: open_stream failed although no fault fired during it"));
        return false;
    }
    let mut faulted_queries: Vec<&Query> = Vec::new();
    for (i, q) in hist.iter().enumerate() {
        let api = i as u32 + 1;
        let fired_here = faulty.fired.iter().any(|(_, a)| *a == api);
        let got = &faulty.answers[i];
        let want = &clean.answers[i];
        if fired_here {
            ctx.count("fault:during-query");
            if got.is_ok() {
                ctx.violation(
                    &format!("{}:fault-swallowed", q.label()),
                    format!("{what}: {desc}: a fault fired during call #{i} {:?}, which nevertheless returned Ok({})", q, short(got)),
                );
                return false;
            }
            faulted_queries.push(q);
        } else if faulty.fired_soft.iter().any(|(_, a)| *a == api) {
            // an Interrupted read/seek: failing is fine, carrying on is fine, a different answer is not
            match got {
                Err(_) => ctx.count("interrupt:during-query:err"),
                Ok(g) => {
                    if Some(g) != want.as_ref().ok() {
                        ctx.violation(
                            &format!("{}:fabricated-after-interrupt", q.label()),
                            format!("{what}: {desc}: an Interrupted error was delivered during call #{i} {:?}, which returned {} but the fault-free answer is {}", q, short(got), short(want)),
                        );
                        return false;
                    }
                    ctx.count("interrupt:during-query:retried-with-right-answer");
                }
            }
        } else {
            match got {
                Err(_) => ctx.count("post-fault:err"),
                Ok(g) => {
                    if Some(g) != want.as_ref().ok() {
                        ctx.violation(
                            &format!("{}:residue", q.label()),
                            format!("{what}: {desc}: call #{i} {:?} (no fault during it) returned {} but the fault-free answer is {}", q, short(got), short(want)),
                        );
                        return false;
                    }
                    ctx.count("post-fault:answer-equals-fault-free");
                    if faulted_queries.contains(&q) {
                        ctx.count("post-fault:repeat-of-faulted-query-ok");
                    }
                }
            }
        }
    }
    true
}

fn short(o: &Obs) -> String {
    let s = match o {
        Ok(s) => s.clone(),
        Err(e) => format!("Err({e})"),
    };
    if s.len() > 200 {
        let mut c = 200;
        while !s.is_char_boundary(c) {
            c -= 1;
        }
        format!("{}…", &s[..c])
    } else {
        s
    }
}

fn make_case(ctx: &mut Ctx) -> Option<(Rc<Vec<u8>>, Vec<Query>, String)> {
    let enc = Enc::ALL[ctx.rng.usize_below(4)];
    let mut o = GenOpts::unmodelled();
    o.max_syms = 5;
    o.density = 5;
    o.weird_views = ctx.rng.bool();
    let (spec, _) = gen_object(&mut ctx.rng, enc, &o);
    let b = build(&spec, &mut ctx.rng);
    let r = ref_open(&b.bytes, &[1, 2]).ok()?;
    let names = name_queries(&r, &mut ctx.rng, 2);
    let pool = smart_pool(&r, &names, &mut ctx.rng, true);
    // base history, then every query repeated (so that each is re-asked after any fault position)
    let n = 1 + ctx.rng.usize_below(5);
    let base: Vec<Query> = (0..n).map(|_| pool[ctx.rng.usize_below(pool.len())].clone()).collect();
    // three shapes: (a) base then the whole base again; (b) every query issued twice in a row (a caller retrying at
    // once); (c) the sections in file order, each twice (adjacent ranges read back to back)
    let mut hist: Vec<Query>;
    match ctx.rng.below(3) {
        0 => {
            hist = base.clone();
            hist.extend(base);
        }
        1 => {
            hist = base.iter().flat_map(|q| [q.clone(), q.clone()]).collect();
            hist.extend(base);
        }
        _ => {
            let mut secs: Vec<(u64, usize)> = (1..r.shnum()).filter_map(|i| r.shdr(i).map(|s| (s.get("sh_offset"), i))).collect();
            secs.sort();
            let start = ctx.rng.usize_below(secs.len().max(1));
            hist = secs.iter().skip(start).take(2 + n).flat_map(|(_, i)| [Query::SectionData(*i), Query::SectionData(*i)]).collect();
            if hist.is_empty() {
                hist = base.clone();
            }
            hist.extend(base);
        }
    }
    let what = format!("generated {} ({} bytes), history {:?}", enc.name(), b.bytes.len(), hist.iter().take(5).collect::<Vec<_>>());
    Some((Rc::new(b.bytes), hist, what))
}

fn run(ctx: &mut Ctx, si: usize, _case: u64) {
    let Some((data, hist, what)) = make_case(ctx) else { return };
    ctx.set_input(&data);
    // half of the histories run over a reader that delivers short reads, so that a fault can hit after part
    // of a range has already been delivered
    let chunk = if ctx.rng.bool() { 0 } else { [3usize, 16, 64][ctx.rng.usize_below(3)] };
    ctx.count(if chunk == 0 { "reader:full-reads" } else { "reader:short-reads" });
    // one reader seed per history: the same short-read pattern in every replay, and a different rotation of the error kinds
    let rseed = ctx.rng.next_u64();
    let clean = replay(&data, &hist, vec![], chunk, rseed);
    if !clean.open_ok {
        ctx.inconclusive("unmutated generated object does not open as a stream".to_string());
        return;
    }
    let n = clean.io_calls;
    ctx.count("histories");
    ctx.maxv("max-io-calls-per-history", n as u64);
    ctx.nontrivial(crate::rng::mix(crate::rng::fnv64(&data), crate::rng::fnv64(format!("{:?}", hist).as_bytes())));
    ctx.sample(|| format!("{what}: N={n} I/O calls fault-free"));
    match si {
        0 => {
            let mut all_fired = true;
            // exhaustive over the I/O call indices; very long short-read histories are sampled (and then not
            // counted as exhaustively enumerated)
            let indices: Vec<u32> = if n <= 300 {
                (0..n).collect()
            } else {
                all_fired = false;
                ctx.count("histories:fault-indices-sampled(N>300)");
                (0..300).map(|_| ctx.rng.below(n as u64) as u32).collect()
            };
            for k in indices {
                for kind in [FaultKind::Error, FaultKind::Eof, FaultKind::Interrupted] {
                    for permanent in [false, true] {
                        if kind == FaultKind::Interrupted && permanent {
                            continue;
                        }
                        let f = Fault { at_call: k, kind, permanent };
                        ctx.count("faults-injected");
                        ctx.count(match kind { FaultKind::Error => "fault:error", FaultKind::Eof => "fault:eof", FaultKind::Interrupted => "fault:interrupted" });
                        ctx.count(if permanent { "fault:permanent" } else { "fault:transient" });
                        let faulty = replay(&data, &hist, vec![f], chunk, rseed);
                        if faulty.fired.is_empty() && faulty.fired_soft.is_empty() {
                            all_fired = false;
                            ctx.count("faults-not-reached");
                            continue;
                        }
                        ctx.count("faults-fired");
                        let is_read = clean.kinds.get(k as usize).copied().unwrap_or(false);
                        if is_read && k > 0 && clean.kinds.get(k as usize - 1).copied().unwrap_or(false) {
                            ctx.count("fault:mid-range(after-partial-delivery)");
                        }
                        ctx.count(if is_read { "fault:on-read" } else { "fault:on-seek" });
                        let desc = format!("{:?} fault at I/O call {k} ({}), {}", kind, if is_read { "read" } else { "seek" }, if permanent { "permanent" } else { "transient" });
                        if !judge(ctx, &what, &hist, &clean, &faulty, &desc) {
                            return;
                        }
                    }
                }
            }
            if all_fired {
                ctx.count("histories:every-fault-index-fired");
            }
        }
        _ => {
            for _ in 0..6 {
                let nf = 2 + ctx.rng.usize_below(4);
                let faults: Vec<Fault> = (0..nf)
                    .map(|_| Fault { at_call: ctx.rng.below(n as u64 + 2) as u32, kind: [FaultKind::Error, FaultKind::Eof, FaultKind::Error, FaultKind::Eof, FaultKind::Interrupted][ctx.rng.usize_below(5)], permanent: ctx.rng.chance(1, 8) })
                    .collect();
                ctx.count("multi-fault-schedules");
                ctx.count_n("faults-injected", nf as u64);
                let desc = format!("schedule {:?}", faults);
                let faulty = replay(&data, &hist, faults, chunk, rseed);
                ctx.count_n("faults-fired", (faulty.fired.len() + faulty.fired_soft.len()) as u64);
                if faulty.fired.is_empty() && faulty.fired_soft.is_empty() {
                    continue;
                }
                if !judge(ctx, &what, &hist, &clean, &faulty, &desc) {
                    return;
                }
            }
        }
    }
}

//! Owned, comparable observations (`Obs`) of every query, for both parsers.
//!
//! An `Obs` is `Ok(canonical dump of everything observable through the returned value)` or
//! `Err(error text)`. The same dump functions serve `ElfBytes` and `ElfStream`, so two
//! observations are equal iff the two parsers (or two specs, two paths, a prefix and the
//! full file) expose the same content.
use crate::rng::fnv64;
use elf::dynamic::DynamicTable;
use elf::endian::EndianParse;
use elf::gnu_symver::SymbolVersionTable;
use elf::hash::{GnuHashTable, SysVHashTable};
use elf::note::{Note, NoteIterator};
use elf::parse::ParseError;
use elf::relocation::{RelIterator, RelaIterator};
use elf::section::SectionHeader;
use elf::segment::ProgramHeader;
use elf::string_table::StringTable;
use elf::symbol::SymbolTable;
use elf::ElfBytes;
#[cfg(feature = "elf_std")]
use elf::ElfStream;
use std::fmt::Write as _;
#[cfg(feature = "elf_std")]
use std::io::{Read, Seek};

pub type Obs = Result<String, String>;

#[derive(Clone, Debug, PartialEq, Eq, Hash)]
pub enum Query {
    Ehdr,
    Shdrs,
    Phdrs,
    SectionData(usize),
    AsStrtab(usize),
    AsRels(usize),
    AsRelas(usize),
    AsNotes(usize),
    /// slice parser only
    SegmentData(usize),
    SegmentNotes(usize),
    ShdrsWithStrtab,
    ByName(String),
    SymbolTable,
    DynSymbolTable,
    Dynamic,
    SymVer,
    /// slice parser only: find_common_data incl. hash lookups of every dynsym name
    CommonData,
}

impl Query {
    pub fn stream_supported(&self) -> bool {
        !matches!(self, Query::SegmentData(_) | Query::CommonData)
    }
    pub fn label(&self) -> &'static str {
        match self {
            Query::Ehdr => "ehdr",
            Query::Shdrs => "section_headers",
            Query::Phdrs => "segments",
            Query::SectionData(_) => "section_data",
            Query::AsStrtab(_) => "section_data_as_strtab",
            Query::AsRels(_) => "section_data_as_rels",
            Query::AsRelas(_) => "section_data_as_relas",
            Query::AsNotes(_) => "section_data_as_notes",
            Query::SegmentData(_) => "segment_data",
            Query::SegmentNotes(_) => "segment_data_as_notes",
            Query::ShdrsWithStrtab => "section_headers_with_strtab",
            Query::ByName(_) => "section_header_by_name",
            Query::SymbolTable => "symbol_table",
            Query::DynSymbolTable => "dynamic_symbol_table",
            Query::Dynamic => "dynamic",
            Query::SymVer => "symbol_version_table",
            Query::CommonData => "find_common_data",
        }
    }
}

fn e2s(e: ParseError) -> String {
    format!("{e:?}")
}

pub fn err_kind(e: &str) -> &str {
    e.split(|c| c == '(' || c == ' ').next().unwrap_or(e)
}

/// bulk bytes are represented by length + digest (+ a short prefix for readability)
pub fn dump_bytes(b: &[u8]) -> String {
    let mut s = format!("bytes[{}]#{:016x}:", b.len(), fnv64(b));
    for x in b.iter().take(8) {
        let _ = write!(s, "{:02x}", x);
    }
    s
}

/// A `Clone` of a returned value must be observably the same value: appends a marker (which makes two otherwise
/// equal observations differ) when the dump of an explicit `Clone::clone` differs from the original's.
fn clone_marker<T: Clone, F: Fn(&T) -> String>(t: &T, dump: F) -> String {
    let c = Clone::clone(t);
    let (a, b) = (dump(t), dump(&c));
    if a == b {
        String::new()
    } else {
        format!("CLONE-DIFFERS[{:016x} vs {:016x}]", fnv64(a.as_bytes()), fnv64(b.as_bytes()))
    }
}

pub fn dump_strtab(t: &StringTable<'_>) -> String {
    let mut s = dump_strtab_plain(t);
    if s.len() < 4096 {
        s.push_str(&clone_marker(t, dump_strtab_plain));
    }
    s
}

/// everything observable of a string table: every string at a string start, walking from 0
fn dump_strtab_plain(t: &StringTable<'_>) -> String {
    let mut s = String::from("strtab{");
    let mut off = 0usize;
    let mut n = 0;
    loop {
        match t.get_raw(off) {
            Ok(b) => {
                let _ = write!(s, "{}:{};", off, dump_bytes(b));
                match t.get(off) {
                    Ok(_) => s.push('u'),
                    Err(_) => s.push('x'),
                }
                off += b.len() + 1;
            }
            Err(e) => {
                let _ = write!(s, "end@{}:{}", off, err_kind(&format!("{e:?}")));
                break;
            }
        }
        n += 1;
        if n > 200_000 {
            s.push_str("…");
            break;
        }
    }
    s.push('}');
    s
}

pub fn dump_symtab<E: EndianParse>(t: &SymbolTable<'_, E>, strs: &StringTable<'_>) -> String {
    let mut s = dump_symtab_plain(t, strs);
    if t.len() <= 64 {
        s.push_str(&clone_marker(t, |x| dump_symtab_plain(x, strs)));
    }
    s
}

fn dump_symtab_plain<E: EndianParse>(t: &SymbolTable<'_, E>, strs: &StringTable<'_>) -> String {
    let mut s = format!("symtab[{}]{{", t.len());
    for (i, y) in t.iter().enumerate() {
        let _ = write!(s, "{}:{:?}", i, y);
        match strs.get_raw(y.st_name as usize) {
            Ok(b) => {
                let _ = write!(s, "={};", dump_bytes(b));
            }
            Err(e) => {
                let _ = write!(s, "=!{};", err_kind(&format!("{e:?}")));
            }
        }
        if i > 100_000 {
            break;
        }
    }
    s.push('}');
    s.push_str(&dump_strtab(strs));
    s
}

pub fn dump_dynamic<E: EndianParse>(t: &DynamicTable<'_, E>) -> String {
    let mut s = dump_dynamic_plain(t);
    if t.len() <= 64 {
        s.push_str(&clone_marker(t, dump_dynamic_plain));
    }
    s
}

fn dump_dynamic_plain<E: EndianParse>(t: &DynamicTable<'_, E>) -> String {
    let mut s = format!("dynamic[{}]{{", t.len());
    for d in t.iter().take(100_000) {
        let _ = write!(s, "{:?};", d);
    }
    s.push('}');
    s
}

pub fn dump_notes<E: EndianParse>(it: NoteIterator<'_, E>, cap: usize) -> String {
    let mut s = String::from("notes{");
    for (i, n) in it.enumerate() {
        match &n {
            Note::Unknown(a) => {
                let _ = write!(s, "any(type={},name={},desc={},str={:?});", a.n_type, dump_bytes(a.name), dump_bytes(a.desc), a.name_str().map_err(|_| "utf8"));
            }
            other => {
                let _ = write!(s, "{:?};", other);
            }
        }
        if i > cap {
            s.push_str("…");
            break;
        }
    }
    s.push('}');
    s
}

pub fn dump_rels<E: EndianParse>(it: RelIterator<'_, E>, cap: usize) -> String {
    let mut s = String::from("rels{");
    for r in it.take(cap + 2) {
        let _ = write!(s, "{:?};", r);
    }
    s.push('}');
    s
}

pub fn dump_relas<E: EndianParse>(it: RelaIterator<'_, E>, cap: usize) -> String {
    let mut s = String::from("relas{");
    for r in it.take(cap + 2) {
        let _ = write!(s, "{:?};", r);
    }
    s.push('}');
    s
}

pub fn dump_symver<E: EndianParse>(t: &SymbolVersionTable<'_, E>, nsyms: usize) -> String {
    let mut s = String::from("symver{");
    let n = nsyms.min(4096);
    for i in (0..n + 2).chain([usize::MAX]) {
        match t.get_requirement(i) {
            Ok(Some(r)) => {
                let _ = write!(s, "r{}={:?};", i, r);
            }
            Ok(None) => {
                let _ = write!(s, "r{}=-;", i);
            }
            Err(e) => {
                let _ = write!(s, "r{}=!{};", i, err_kind(&format!("{e:?}")));
            }
        }
        match t.get_definition(i) {
            Ok(Some(d)) => {
                let _ = write!(s, "d{}=(hash={},flags={},hidden={},names=[", i, d.hash, d.flags, d.hidden);
                for (k, nm) in d.names.enumerate() {
                    match nm {
                        Ok(x) => {
                            let _ = write!(s, "{:?},", x);
                        }
                        Err(e) => {
                            let _ = write!(s, "!{},", err_kind(&format!("{e:?}")));
                        }
                    }
                    if k > 70_000 {
                        break;
                    }
                }
                s.push_str("]);");
            }
            Ok(None) => {
                let _ = write!(s, "d{}=-;", i);
            }
            Err(e) => {
                let _ = write!(s, "d{}=!{};", i, err_kind(&format!("{e:?}")));
            }
        }
    }
    s.push('}');
    s
}

pub fn dump_shdrs<'a, I: Iterator<Item = SectionHeader>>(it: I) -> String {
    let mut s = String::from("shdrs{");
    let mut n = 0usize;
    let mut h = 0u64;
    for sh in it {
        if n < 64 {
            let _ = write!(s, "{:?};", sh);
        } else {
            h = crate::rng::mix(h, fnv64(format!("{:?}", sh).as_bytes()));
        }
        n += 1;
    }
    let _ = write!(s, "n={},rest#{:016x}}}", n, h);
    s
}

pub fn dump_phdrs<'a, I: Iterator<Item = ProgramHeader>>(it: I) -> String {
    let mut s = String::from("phdrs{");
    let mut n = 0usize;
    let mut h = 0u64;
    for ph in it {
        if n < 64 {
            let _ = write!(s, "{:?};", ph);
        } else {
            h = crate::rng::mix(h, fnv64(format!("{:?}", ph).as_bytes()));
        }
        n += 1;
    }
    let _ = write!(s, "n={},rest#{:016x}}}", n, h);
    s
}

pub fn dump_ehdr<E: EndianParse>(h: &elf::file::FileHeader<E>) -> String {
    format!(
        "ehdr(class={:?},big={},version={},osabi={},abiversion={},type={},machine={},entry={},phoff={},shoff={},flags={},ehsize={},phentsize={},phnum={},shentsize={},shnum={},shstrndx={})",
        h.class, h.endianness.is_big(), h.version, h.osabi, h.abiversion, h.e_type, h.e_machine, h.e_entry, h.e_phoff, h.e_shoff, h.e_flags, h.e_ehsize, h.e_phentsize, h.e_phnum, h.e_shentsize, h.e_shnum, h.e_shstrndx
    )
}

/// lookups of every symbol name (and a few absent names) through a hash table
fn dump_hash_lookups<E: EndianParse>(s: &mut String, sysv: Option<&SysVHashTable<'_, E>>, gnu: Option<&GnuHashTable<'_, E>>, syms: &SymbolTable<'_, E>, strs: &StringTable<'_>) {
    let mut names: Vec<Vec<u8>> = Vec::new();
    for y in syms.iter().take(2000) {
        if let Ok(n) = strs.get_raw(y.st_name as usize) {
            names.push(n.to_vec());
        }
    }
    names.push(b"__absent__".to_vec());
    names.push(b"zz".to_vec());
    for n in &names {
        if let Some(t) = sysv {
            match t.find(n, syms, strs) {
                Ok(Some((i, y))) => {
                    let _ = write!(s, "sysv({})={}:{:?};", dump_bytes(n), i, y);
                }
                Ok(None) => {
                    let _ = write!(s, "sysv({})=-;", dump_bytes(n));
                }
                Err(e) => {
                    let _ = write!(s, "sysv({})=!{};", dump_bytes(n), err_kind(&format!("{e:?}")));
                }
            }
        }
        if let Some(t) = gnu {
            match t.find(n, syms, strs) {
                Ok(Some((i, y))) => {
                    let _ = write!(s, "gnu({})={}:{:?};", dump_bytes(n), i, y);
                }
                Ok(None) => {
                    let _ = write!(s, "gnu({})=-;", dump_bytes(n));
                }
                Err(e) => {
                    let _ = write!(s, "gnu({})=!{};", dump_bytes(n), err_kind(&format!("{e:?}")));
                }
            }
        }
    }
}

pub fn dump_hashes<E: EndianParse>(sysv: Option<&SysVHashTable<'_, E>>, gnu: Option<&GnuHashTable<'_, E>>, syms: &SymbolTable<'_, E>, strs: &StringTable<'_>) -> String {
    let mut s = String::from("hash{");
    if let Some(g) = gnu {
        let _ = write!(s, "gnuhdr={:?};", g.hdr);
    }
    dump_hash_lookups(&mut s, sysv, gnu, syms, strs);
    s.push('}');
    s
}

fn nth_shdr_slice<E: EndianParse>(f: &ElfBytes<'_, E>, i: usize) -> Result<SectionHeader, String> {
    match f.section_headers() {
        Some(t) => t.get(i).map_err(|_| "no such section".to_string()),
        None => Err("no such section".to_string()),
    }
}

fn nth_phdr_slice<E: EndianParse>(f: &ElfBytes<'_, E>, i: usize) -> Result<ProgramHeader, String> {
    match f.segments() {
        Some(t) => t.get(i).map_err(|_| "no such segment".to_string()),
        None => Err("no such segment".to_string()),
    }
}

/// number of symbols the version table is probed for: from the versym section's size
fn versym_count_slice<E: EndianParse>(f: &ElfBytes<'_, E>) -> usize {
    if let Some(t) = f.section_headers() {
        for sh in t.iter() {
            if sh.sh_type == elf::abi::SHT_GNU_VERSYM {
                return (sh.sh_size / 2).min(4096) as usize;
            }
        }
    }
    0
}

pub fn obs_slice<E: EndianParse>(f: &ElfBytes<'_, E>, q: &Query) -> Obs {
    let cap = 100_000usize;
    match q {
        Query::Ehdr => Ok(dump_ehdr(&f.ehdr)),
        Query::Shdrs => Ok(match f.section_headers() {
            Some(t) => dump_shdrs(t.iter()) + &(if t.len() <= 64 { clone_marker(&t, |x| dump_shdrs(x.iter())) } else { String::new() }),
            None => "shdrs:none".to_string(),
        }),
        Query::Phdrs => Ok(match f.segments() {
            Some(t) => dump_phdrs(t.iter()) + &(if t.len() <= 64 { clone_marker(&t, |x| dump_phdrs(x.iter())) } else { String::new() }),
            None => "phdrs:none".to_string(),
        }),
        Query::SectionData(i) => {
            let sh = nth_shdr_slice(f, *i)?;
            let (b, c) = f.section_data(&sh).map_err(e2s)?;
            Ok(format!("{};chdr={:?}", dump_bytes(b), c))
        }
        Query::AsStrtab(i) => {
            let sh = nth_shdr_slice(f, *i)?;
            let t = f.section_data_as_strtab(&sh).map_err(e2s)?;
            Ok(dump_strtab(&t))
        }
        Query::AsRels(i) => {
            let sh = nth_shdr_slice(f, *i)?;
            let it = f.section_data_as_rels(&sh).map_err(e2s)?;
            Ok(dump_rels(it, cap))
        }
        Query::AsRelas(i) => {
            let sh = nth_shdr_slice(f, *i)?;
            let it = f.section_data_as_relas(&sh).map_err(e2s)?;
            Ok(dump_relas(it, cap))
        }
        Query::AsNotes(i) => {
            let sh = nth_shdr_slice(f, *i)?;
            let it = f.section_data_as_notes(&sh).map_err(e2s)?;
            Ok(dump_notes(it, cap))
        }
        Query::SegmentData(i) => {
            let ph = nth_phdr_slice(f, *i)?;
            let b = f.segment_data(&ph).map_err(e2s)?;
            Ok(dump_bytes(b))
        }
        Query::SegmentNotes(i) => {
            let ph = nth_phdr_slice(f, *i)?;
            let it = f.segment_data_as_notes(&ph).map_err(e2s)?;
            Ok(dump_notes(it, cap))
        }
        Query::ShdrsWithStrtab => {
            let (shdrs, strs) = f.section_headers_with_strtab().map_err(e2s)?;
            Ok(format!("shdrs={};strs={}", shdrs.is_some(), strs.map(|t| dump_strtab(&t)).unwrap_or("none".to_string())))
        }
        Query::ByName(n) => {
            let r = f.section_header_by_name(n).map_err(e2s)?;
            Ok(format!("{:?}", r))
        }
        Query::SymbolTable => match f.symbol_table().map_err(e2s)? {
            Some((t, s)) => Ok(dump_symtab(&t, &s)),
            None => Ok("none".to_string()),
        },
        Query::DynSymbolTable => match f.dynamic_symbol_table().map_err(e2s)? {
            Some((t, s)) => Ok(dump_symtab(&t, &s)),
            None => Ok("none".to_string()),
        },
        Query::Dynamic => match f.dynamic().map_err(e2s)? {
            Some(t) => Ok(dump_dynamic(&t)),
            None => Ok("none".to_string()),
        },
        Query::SymVer => match f.symbol_version_table().map_err(e2s)? {
            Some(t) => Ok(dump_symver(&t, versym_count_slice(f))),
            None => Ok("none".to_string()),
        },
        Query::CommonData => {
            let c = f.find_common_data().map_err(e2s)?;
            let mut s = String::from("common{");
            match (&c.symtab, &c.symtab_strs) {
                (Some(t), Some(st)) => {
                    let _ = write!(s, "symtab={};", dump_symtab(t, st));
                }
                (a, b) => {
                    let _ = write!(s, "symtab={}/{};", a.is_some(), b.is_some());
                }
            }
            match (&c.dynsyms, &c.dynsyms_strs) {
                (Some(t), Some(st)) => {
                    let _ = write!(s, "dynsyms={};", dump_symtab(t, st));
                    let _ = write!(s, "{}", dump_hashes(c.sysv_hash.as_ref(), c.gnu_hash.as_ref(), t, st));
                }
                (a, b) => {
                    let _ = write!(s, "dynsyms={}/{};hash={}/{};", a.is_some(), b.is_some(), c.sysv_hash.is_some(), c.gnu_hash.is_some());
                }
            }
            match &c.dynamic {
                Some(t) => {
                    let _ = write!(s, "dynamic={};", dump_dynamic(t));
                }
                None => s.push_str("dynamic=none;"),
            }
            s.push('}');
            Ok(s)
        }
    }
}

/// Called right before and right after the crate call of a stream query, so that monitors
/// (allocation window, I/O api tag) bracket exactly the crate's work and not the dump.
pub trait CallMonitor {
    fn before(&mut self) {}
    fn after(&mut self) {}
}

pub struct NoMonitor;
impl CallMonitor for NoMonitor {}

#[cfg(feature = "elf_std")]
fn versym_count_stream<E: EndianParse, S: Read + Seek>(f: &ElfStream<E, S>) -> usize {
    for sh in f.section_headers().iter() {
        if sh.sh_type == elf::abi::SHT_GNU_VERSYM {
            return (sh.sh_size / 2).min(4096) as usize;
        }
    }
    0
}

#[cfg(feature = "elf_std")]
pub fn obs_stream<E: EndianParse, S: Read + Seek>(f: &mut ElfStream<E, S>, q: &Query, m: &mut dyn CallMonitor) -> Obs {
    let cap = 100_000usize;
    macro_rules! call {
        ($e:expr) => {{
            m.before();
            let r = $e;
            m.after();
            r
        }};
    }
    match q {
        Query::Ehdr => Ok(dump_ehdr(&f.ehdr)),
        Query::Shdrs => Ok(if f.section_headers().is_empty() && f.ehdr.e_shoff == 0 { "shdrs:none".to_string() } else { dump_shdrs(f.section_headers().iter().copied()) }),
        Query::Phdrs => Ok(if f.segments().is_empty() && f.ehdr.e_phoff == 0 { "phdrs:none".to_string() } else { dump_phdrs(f.segments().iter().copied()) }),
        Query::SectionData(i) => {
            let sh = *f.section_headers().get(*i).ok_or("no such section".to_string())?;
            let (b, c) = call!(f.section_data(&sh)).map_err(e2s)?;
            Ok(format!("{};chdr={:?}", dump_bytes(b), c))
        }
        Query::AsStrtab(i) => {
            let sh = *f.section_headers().get(*i).ok_or("no such section".to_string())?;
            let t = call!(f.section_data_as_strtab(&sh)).map_err(e2s)?;
            Ok(dump_strtab(&t))
        }
        Query::AsRels(i) => {
            let sh = *f.section_headers().get(*i).ok_or("no such section".to_string())?;
            let it = call!(f.section_data_as_rels(&sh)).map_err(e2s)?;
            Ok(dump_rels(it, cap))
        }
        Query::AsRelas(i) => {
            let sh = *f.section_headers().get(*i).ok_or("no such section".to_string())?;
            let it = call!(f.section_data_as_relas(&sh)).map_err(e2s)?;
            Ok(dump_relas(it, cap))
        }
        Query::AsNotes(i) => {
            let sh = *f.section_headers().get(*i).ok_or("no such section".to_string())?;
            let it = call!(f.section_data_as_notes(&sh)).map_err(e2s)?;
            Ok(dump_notes(it, cap))
        }
        Query::SegmentData(_) | Query::CommonData => Err("not a stream query".to_string()),
        Query::SegmentNotes(i) => {
            let ph = *f.segments().get(*i).ok_or("no such segment".to_string())?;
            let it = call!(f.segment_data_as_notes(&ph)).map_err(e2s)?;
            Ok(dump_notes(it, cap))
        }
        Query::ShdrsWithStrtab => {
            let have = !(f.section_headers().is_empty() && f.ehdr.e_shoff == 0);
            let (_, strs) = call!(f.section_headers_with_strtab()).map_err(e2s)?;
            Ok(format!("shdrs={};strs={}", have, strs.map(|t| dump_strtab(&t)).unwrap_or("none".to_string())))
        }
        Query::ByName(n) => {
            let r = call!(f.section_header_by_name(n)).map_err(e2s)?;
            Ok(format!("{:?}", r.copied()))
        }
        Query::SymbolTable => match call!(f.symbol_table()).map_err(e2s)? {
            Some((t, s)) => Ok(dump_symtab(&t, &s)),
            None => Ok("none".to_string()),
        },
        Query::DynSymbolTable => match call!(f.dynamic_symbol_table()).map_err(e2s)? {
            Some((t, s)) => Ok(dump_symtab(&t, &s)),
            None => Ok("none".to_string()),
        },
        Query::Dynamic => match call!(f.dynamic()).map_err(e2s)? {
            Some(t) => Ok(dump_dynamic(&t)),
            None => Ok("none".to_string()),
        },
        Query::SymVer => {
            let n = versym_count_stream(f);
            match call!(f.symbol_version_table()).map_err(e2s)? {
                Some(t) => Ok(dump_symver(&t, n)),
                None => Ok("none".to_string()),
            }
        }
    }
}

/// The complete query set for a file with `nsec` sections and `nseg` segments.
pub fn full_query_set(nsec: usize, nseg: usize, names: &[String], stream_only: bool) -> Vec<Query> {
    let mut v = vec![Query::Ehdr, Query::Shdrs, Query::Phdrs, Query::ShdrsWithStrtab, Query::SymbolTable, Query::DynSymbolTable, Query::Dynamic, Query::SymVer];
    if !stream_only {
        v.push(Query::CommonData);
    }
    for i in 0..nsec {
        v.push(Query::SectionData(i));
        v.push(Query::AsStrtab(i));
        v.push(Query::AsRels(i));
        v.push(Query::AsRelas(i));
        v.push(Query::AsNotes(i));
    }
    for j in 0..nseg {
        if !stream_only {
            v.push(Query::SegmentData(j));
        }
        v.push(Query::SegmentNotes(j));
    }
    for n in names {
        v.push(Query::ByName(n.clone()));
    }
    v
}

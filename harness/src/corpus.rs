//! The shared input corpus of C01/C06/C16: seeds, generated objects, every mutator, random
//! bytes, adversarial link structures.
use crate::codec::{size_of, Enc, St};
use crate::gen::adversarial;
use crate::gen::elf::{build, Built, Field};
use crate::gen::mutate;
use crate::gen::object::{gen_object, GenOpts};
use crate::reference::locator::ref_open;
use crate::rng::Rng;
use std::sync::OnceLock;

pub const SAMPLE_DIR: &str = "/repo/sample-objects";
pub const SAMPLES: [&str; 9] = [
    "basic.x86_64", "phnum.m68k.so", "stripped.x86_64.so", "symver.aarch64.so", "symver.armhf.so", "symver.m68k.so", "symver.riscv64.so", "symver.x86_64.so",
    "symver.powerpc64le.so",
];

static SEEDS: OnceLock<Vec<(String, Vec<u8>)>> = OnceLock::new();

pub fn seeds() -> &'static Vec<(String, Vec<u8>)> {
    SEEDS.get_or_init(|| {
        let mut v = Vec::new();
        for s in SAMPLES {
            if let Ok(b) = std::fs::read(format!("{SAMPLE_DIR}/{s}")) {
                if !b.is_empty() {
                    v.push((s.to_string(), b));
                }
            }
        }
        v
    })
}

/// Field map of any file the reference locator can open: ELF header, and the first/last
/// section and program headers.
pub fn fieldmap_of(bytes: &[u8]) -> Option<(Enc, Vec<Field>)> {
    let r = ref_open(bytes, &[1, 2]).ok()?;
    let enc = r.enc;
    let mut fields = Vec::new();
    for (i, n) in ["EI_CLASS", "EI_DATA", "EI_VERSION"].iter().enumerate() {
        fields.push(Field { off: 4 + i, w: 1, name: format!("ident.{n}") });
    }
    let mut o = 16;
    for fd in crate::codec::layout(St::EhdrTail, enc.c64) {
        fields.push(Field { off: o, w: fd.w, name: format!("ehdr.{}", fd.name) });
        o += fd.w;
    }
    if let Some((off, n)) = r.shdrs {
        let es = size_of(St::Shdr, enc.c64);
        for i in (0..n.min(40)).chain(n.saturating_sub(2).max(n.min(40))..n) {
            let mut o = off + i * es;
            for fd in crate::codec::layout(St::Shdr, enc.c64) {
                fields.push(Field { off: o, w: fd.w, name: format!("shdr[{i}].{}", fd.name) });
                o += fd.w;
            }
        }
    }
    if let Some((off, n)) = r.phdrs {
        let es = size_of(St::Phdr, enc.c64);
        for i in 0..n.min(16) {
            let mut o = off + i * es;
            for fd in crate::codec::layout(St::Phdr, enc.c64) {
                fields.push(Field { off: o, w: fd.w, name: format!("phdr[{i}].{}", fd.name) });
                o += fd.w;
            }
        }
    }
    Some((enc, fields))
}

pub struct Input {
    pub bytes: Vec<u8>,
    pub what: String,
    /// structural class of the input (for coverage counters)
    pub class: &'static str,
}

pub const KINDS: u64 = 14;

/// One corpus input. `max_len` bounds generated sizes (Miri uses small ones).
pub fn gen_input(rng: &mut Rng, kind: u64, small: bool) -> Input {
    let enc = Enc::ALL[rng.usize_below(4)];
    let mut o = GenOpts::unmodelled();
    o.max_syms = if small { 3 } else { 16 };
    if small {
        o.density = 3;
    }
    match kind % KINDS {
        0 if !small && !seeds().is_empty() => {
            // a sample object with 1-3 header fields driven to boundary values
            let (name, bytes) = &seeds()[rng.usize_below(seeds().len())];
            let mut bytes = bytes.clone();
            let mut log = Vec::new();
            if let Some((enc, fields)) = fieldmap_of(&bytes) {
                let mut b = Built { enc, bytes, fields, secs: vec![], segs: vec![], shoff: 0, phoff: 0, shnum: 0, phnum: 0, shstrndx: 0 };
                let k = 1 + rng.usize_below(3);
                log = mutate::structured(rng, &mut b, k);
                bytes = b.bytes;
            }
            if rng.chance(1, 8) {
                mutate::truncate(rng, &mut bytes);
            }
            Input { bytes, what: format!("seed {name} + {:?}", log), class: "seed-structured" }
        }
        1 if !small && !seeds().is_empty() => {
            let (name, bytes) = &seeds()[rng.usize_below(seeds().len())];
            let mut bytes = bytes.clone();
            let n = 1 + rng.usize_below(8);
            mutate::byteflips(rng, &mut bytes, n);
            Input { bytes, what: format!("seed {name} + {n} byte flips"), class: "seed-flips" }
        }
        2 => {
            let (spec, _) = gen_object(rng, enc, &o);
            let mut b = build(&spec, rng);
            let log = if rng.chance(1, 6) { mutate::extended_encoding(rng, &mut b) } else { Vec::new() };
            Input { bytes: b.bytes, what: format!("generated {} {:?}", enc.name(), log), class: "generated" }
        }
        3 | 4 => {
            let (spec, _) = gen_object(rng, enc, &o);
            let mut b = build(&spec, rng);
            let k = 1 + rng.usize_below(3);
            let mut log = mutate::structured(rng, &mut b, k);
            if rng.chance(1, 6) {
                log.extend(mutate::alias_tables(rng, &mut b));
            }
            Input { bytes: b.bytes, what: format!("generated {} + {:?}", enc.name(), log), class: "generated-structured" }
        }
        5 => {
            let (spec, _) = gen_object(rng, enc, &o);
            let mut b = build(&spec, rng);
            let n = 1 + rng.usize_below(6);
            mutate::byteflips(rng, &mut b.bytes, n);
            if rng.bool() {
                mutate::truncate(rng, &mut b.bytes);
            } else if rng.bool() {
                mutate::extend(rng, &mut b.bytes);
            }
            Input { bytes: b.bytes, what: format!("generated {} + flips/truncate/extend", enc.name()), class: "generated-flips" }
        }
        6 => {
            let len = if small { rng.usize_below(120) } else { rng.usize_below(600) };
            Input { bytes: mutate::random_with_ident(rng, enc, len), what: format!("random bytes behind a valid {} ident", enc.name()), class: "random-with-ident" }
        }
        7 => {
            let len = if small { rng.usize_below(80) } else { rng.usize_below(300) };
            Input { bytes: rng.bytes(len), what: "pure random bytes".to_string(), class: "random" }
        }
        8 => {
            // now and then a table with thousands of symbols (one bucket: long chains)
            let n = if small { 4 + rng.usize_below(8) } else if rng.chance(1, 24) { 4200 + rng.usize_below(1500) } else { 4 + rng.usize_below(120) };
            let cyc = 1 + rng.usize_below(n);
            let v = rng.next_u64();
            let h = adversarial::sysv_cycle(rng, enc, n, cyc, v);
            let spec = adversarial::wrap_in_object(enc, Some((&h, false)), None, None);
            Input { bytes: build(&spec, rng).bytes, what: format!("object with {}", h.what), class: "adversarial-sysv" }
        }
        9 => {
            let n = if small { 4 + rng.usize_below(8) } else { 4 + rng.usize_below(120) };
            let v = rng.next_u64();
            let h = adversarial::gnu_nostop(rng, enc, n, v);
            let spec = adversarial::wrap_in_object(enc, Some((&h, true)), None, None);
            Input { bytes: build(&spec, rng).bytes, what: format!("object with {}", h.what), class: "adversarial-gnu" }
        }
        10 => {
            let total = if small { 64 + rng.usize_below(64) } else { 64 + rng.usize_below(1500) };
            let var = rng.next_u64();
            let v = adversarial::ver_overlap(rng, enc, total, var);
            let spec = adversarial::wrap_in_object(enc, None, Some(&v), None);
            Input { bytes: build(&spec, rng).bytes, what: format!("object with version sections: {}", v.what), class: "adversarial-symver" }
        }
        13 => {
            // a segment-only object (no section headers): PT_DYNAMIC with the entries a link editor writes, a PT_LOAD
            // that maps the file, notes; then boundary values in the fields of some program headers
            o.density = 7;
            o.no_shdrs = true;
            o.weird_views = false;
            let (spec, _) = gen_object(rng, enc, &o);
            let mut b = build(&spec, rng);
            let mut log = Vec::new();
            let w = if enc.c64 { 64 } else { 32 };
            for i in 0..b.phnum {
                if rng.chance(1, 2) {
                    continue;
                }
                for _ in 0..1 + rng.usize_below(2) {
                    let f = *rng.pick(&["p_offset", "p_vaddr", "p_filesz", "p_memsz", "p_paddr", "p_align"]);
                    let v = rng.boundary(w);
                    if b.poke(&format!("phdr[{i}].{f}"), v) {
                        log.push(format!("phdr[{i}].{f}={v:#x}"));
                    }
                }
            }
            Input { bytes: b.bytes, what: format!("segment-only {} with linked PT_DYNAMIC; {}", enc.name(), log.join(" ")), class: "segment-only-linked" }
        }
        12 => {
            o.density = 7;
            let (mut spec, _) = gen_object(rng, enc, &o);
            let what = adversarial::link_cycles(&mut spec, rng);
            Input { bytes: build(&spec, rng).bytes, what: format!("generated {} with {what}", enc.name()), class: "adversarial-header-links" }
        }
        _ => {
            let (nb, al) = adversarial::huge_notes(rng, enc);
            let spec = adversarial::wrap_in_object(enc, None, None, Some((&nb, al)));
            Input { bytes: build(&spec, rng).bytes, what: format!("object with notes claiming huge sizes, align {al:#x}"), class: "adversarial-notes" }
        }
    }
}

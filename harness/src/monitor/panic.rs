//! Panic monitor: a panic hook that records (location, message) and a `guard` that runs a
//! closure under `catch_unwind` and classifies what it caught.
use std::cell::RefCell;
use std::panic::{catch_unwind, AssertUnwindSafe};
use std::sync::Once;

#[derive(Clone, Debug, PartialEq, Eq)]
pub enum PanicKind {
    /// the step-budget panic raised by the in-crate hook
    Budget,
    /// the instrumented reader was called an absurd number of times: the stream parser is spinning on it
    IoBudget,
    /// a panic located in the harness's own sources: a harness bug, never a verdict
    Harness,
    /// anything else reached from a monitored call: the crate's (or core/std on its behalf)
    Crate,
}

#[derive(Clone, Debug)]
pub struct PanicReport {
    pub kind: PanicKind,
    pub file: String,
    pub line: u32,
    pub msg: String,
}

impl PanicReport {
    pub fn sig(&self) -> String {
        format!("panic@{}:{}", self.file, self.line)
    }
}

thread_local! {
    static LAST: RefCell<Option<(String, u32, String)>> = const { RefCell::new(None) };
}

static INIT: Once = Once::new();

pub const BUDGET_MSG: &str = "elf_verif_hooks: step budget exceeded";
pub const IO_BUDGET_MSG: &str = "elfmon: I/O call budget exceeded";

pub fn install() {
    INIT.call_once(|| {
        std::panic::set_hook(Box::new(|info| {
            let (file, line) = match info.location() {
                Some(l) => (l.file().to_string(), l.line()),
                None => ("<unknown>".to_string(), 0),
            };
            let msg = if let Some(s) = info.payload().downcast_ref::<&str>() {
                s.to_string()
            } else if let Some(s) = info.payload().downcast_ref::<String>() {
                s.clone()
            } else {
                "<non-string payload>".to_string()
            };
            LAST.with(|l| *l.borrow_mut() = Some((file, line, msg)));
        }));
    });
}

/// Used by the fuzz entry: same hook as `install` (kept separate for clarity at the call site).
pub fn install_quiet_only_if_unset() {
    install();
}

pub fn classify(file: &str, msg: &str) -> PanicKind {
    // The harness is the root crate of its build, so its own files appear relative
    // ("src/props/c01.rs"); the elf crate is a path dependency and appears with its absolute
    // path ("/repo/src/…"), and core/std with their sysroot paths.
    if msg.contains(BUDGET_MSG) {
        PanicKind::Budget
    } else if msg.contains(IO_BUDGET_MSG) {
        PanicKind::IoBudget
    } else if file.starts_with("src/") || file.contains("verif/harness/") || file.contains("verif/fuzz/") {
        PanicKind::Harness
    } else {
        PanicKind::Crate
    }
}

/// Run `f`; `Err` carries the classified panic.
pub fn guard<T, F: FnOnce() -> T>(f: F) -> Result<T, PanicReport> {
    install();
    LAST.with(|l| *l.borrow_mut() = None);
    match catch_unwind(AssertUnwindSafe(f)) {
        Ok(v) => Ok(v),
        Err(_) => {
            let (file, line, msg) = LAST
                .with(|l| l.borrow_mut().take())
                .unwrap_or(("<unknown>".to_string(), 0, "<no hook record>".to_string()));
            let kind = classify(&file, &msg);
            // a cut run leaves the budget disarmed; make sure later code starts clean
            crate::monitor::steps::reset(u64::MAX);
            Err(PanicReport { kind, file, line, msg })
        }
    }
}

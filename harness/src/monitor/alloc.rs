//! Allocation monitor: a counting `GlobalAlloc` around `System`.
//!
//! While *armed* it counts every alloc/alloc_zeroed/realloc call, remembers the largest
//! request, and counts requests above a bound set by the harness. Requests above the hard
//! cap are refused (null), so that a header-claimed 2^60-byte request aborts this worker
//! process instead of taking the machine down; the driver attributes the abort through the
//! worker's progress file.
use std::alloc::{GlobalAlloc, Layout, System};
// usize atomics: 64-bit atomics do not exist on every target the harness runs on under Miri (32-bit MIPS)
use std::sync::atomic::{AtomicBool, AtomicUsize, Ordering};

pub struct CountingAlloc;

static ARMED: AtomicBool = AtomicBool::new(false);
static CALLS: AtomicUsize = AtomicUsize::new(0);
static LARGEST: AtomicUsize = AtomicUsize::new(0);
static BOUND: AtomicUsize = AtomicUsize::new(usize::MAX);
static OVER_BOUND: AtomicUsize = AtomicUsize::new(0);
static LARGEST_OVER: AtomicUsize = AtomicUsize::new(0);
static REFUSED: AtomicUsize = AtomicUsize::new(0);
/// counts all calls, armed or not (for the canary and for sanity)
static TOTAL: AtomicUsize = AtomicUsize::new(0);

pub const HARD_CAP: u64 = 256 << 20;
/// set while the harness itself maps its one multi-GiB zero buffer (see `huge_buffer`)
static ALLOW_HUGE: AtomicBool = AtomicBool::new(false);

#[inline]
fn note(size: usize) -> bool {
    TOTAL.fetch_add(1, Ordering::Relaxed);
    if ARMED.load(Ordering::Relaxed) {
        CALLS.fetch_add(1, Ordering::Relaxed);
        LARGEST.fetch_max(size, Ordering::Relaxed);
        if size > BOUND.load(Ordering::Relaxed) {
            OVER_BOUND.fetch_add(1, Ordering::Relaxed);
            LARGEST_OVER.fetch_max(size, Ordering::Relaxed);
        }
    }
    if size as u64 > HARD_CAP && !ALLOW_HUGE.load(Ordering::Relaxed) {
        REFUSED.fetch_add(1, Ordering::Relaxed);
        return false;
    }
    true
}

unsafe impl GlobalAlloc for CountingAlloc {
    unsafe fn alloc(&self, layout: Layout) -> *mut u8 {
        if !note(layout.size()) {
            return std::ptr::null_mut();
        }
        System.alloc(layout)
    }
    unsafe fn alloc_zeroed(&self, layout: Layout) -> *mut u8 {
        if !note(layout.size()) {
            return std::ptr::null_mut();
        }
        System.alloc_zeroed(layout)
    }
    unsafe fn realloc(&self, ptr: *mut u8, layout: Layout, new_size: usize) -> *mut u8 {
        if !note(new_size) {
            return std::ptr::null_mut();
        }
        System.realloc(ptr, layout, new_size)
    }
    unsafe fn dealloc(&self, ptr: *mut u8, layout: Layout) {
        System.dealloc(ptr, layout)
    }
}

#[derive(Clone, Copy, Debug, Default)]
pub struct AllocReport {
    pub calls: u64,
    pub largest: u64,
    pub over_bound: u64,
    pub largest_over: u64,
}

/// Arm the monitor; every request larger than `bound` bytes is counted as over-bound.
pub fn arm(bound: u64) {
    CALLS.store(0, Ordering::Relaxed);
    LARGEST.store(0, Ordering::Relaxed);
    OVER_BOUND.store(0, Ordering::Relaxed);
    LARGEST_OVER.store(0, Ordering::Relaxed);
    BOUND.store(usize::try_from(bound).unwrap_or(usize::MAX), Ordering::Relaxed);
    ARMED.store(true, Ordering::SeqCst);
}

pub fn disarm() -> AllocReport {
    ARMED.store(false, Ordering::SeqCst);
    AllocReport {
        calls: CALLS.load(Ordering::Relaxed) as u64,
        largest: LARGEST.load(Ordering::Relaxed) as u64,
        over_bound: OVER_BOUND.load(Ordering::Relaxed) as u64,
        largest_over: LARGEST_OVER.load(Ordering::Relaxed) as u64,
    }
}

pub fn total_calls() -> u64 {
    TOTAL.load(Ordering::Relaxed) as u64
}
pub fn refused() -> u64 {
    REFUSED.load(Ordering::Relaxed) as u64
}

/// A zero-filled buffer of `len` bytes that costs no memory until touched (the allocator maps fresh zero pages):
/// lets native 64-bit runs hand the crate slices longer than 4 GiB. The hard cap is lifted for this one request.
#[cfg(all(target_pointer_width = "64", not(miri)))]
pub fn huge_zeroed(len: usize) -> Vec<u8> {
    ALLOW_HUGE.store(true, Ordering::SeqCst);
    let v = vec![0u8; len];
    ALLOW_HUGE.store(false, Ordering::SeqCst);
    v
}

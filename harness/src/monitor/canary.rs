//! Canaries: a monitor that cannot fire proves nothing. Each check runs the canaries of the
//! monitors it relies on first; a failed canary makes the check inconclusive.
use crate::monitor::panic::{classify, guard, PanicKind};
use std::hint::black_box;

fn alloc_canary() -> Result<String, String> {
    use crate::monitor::alloc;
    alloc::arm(64);
    let b = black_box(Box::new(black_box(5u64)));
    let v: Vec<u8> = black_box(Vec::with_capacity(black_box(1000)));
    let r = alloc::disarm();
    drop(b);
    drop(v);
    if r.calls < 2 {
        return Err(format!("armed window with two allocations counted {} calls", r.calls));
    }
    if r.over_bound != 1 || r.largest < 1000 {
        return Err(format!("bound 64: expected exactly one over-bound request (1000 B), saw {} (largest {})", r.over_bound, r.largest));
    }
    alloc::arm(u64::MAX);
    let x = black_box(3u64) + black_box(4u64);
    let r = alloc::disarm();
    black_box(x);
    if r.calls != 0 {
        return Err(format!("armed window without allocation counted {} calls", r.calls));
    }
    Ok("counts a Box and a 1000-byte Vec, flags the Vec against a 64-byte bound, silent on a no-op".into())
}

fn steps_canary() -> Result<String, String> {
    use crate::monitor::steps;
    use elf::endian::{EndianParse, LittleEndian};
    if !steps::available() {
        return Err("crate was built without --cfg elf_verif_hooks".into());
    }
    let data = [0u8; 64];
    steps::reset(u64::MAX);
    let mut off = 0usize;
    for _ in 0..5 {
        let _ = LittleEndian.parse_u32_at(&mut off, &data);
    }
    let n = steps::steps();
    if n != 5 {
        return Err(format!("5 integer reads counted as {n} steps"));
    }
    steps::reset(10);
    let r = guard(|| {
        let mut off = 0usize;
        for _ in 0..16 {
            let _ = LittleEndian.parse_u16_at(&mut off, &data);
        }
    });
    steps::reset(u64::MAX);
    match r {
        Err(p) if p.kind == PanicKind::Budget => Ok("5 reads = 5 steps; a 10-step budget cuts a 16-read loop".into()),
        Err(p) => Err(format!("budget panic misclassified: {:?}", p)),
        Ok(()) => Err("a 10-step budget did not cut a 16-read loop".into()),
    }
}

fn panic_canary() -> Result<String, String> {
    let r = guard(|| {
        if black_box(true) {
            panic!("deliberate harness panic");
        }
    });
    match r {
        Err(p) if p.kind == PanicKind::Harness && p.msg.contains("deliberate") => {}
        other => return Err(format!("deliberate harness panic not caught/classified: {:?}", other.err())),
    }
    // arithmetic overflow must be a panic in this build (overflow-checks on)
    let r = guard(|| {
        let a: u8 = black_box(255);
        let b: u8 = black_box(1);
        black_box(a + b)
    });
    let overflow_checked = r.is_err();
    if classify("/repo/src/file.rs", "index out of bounds") != PanicKind::Crate {
        return Err("a panic located in /repo/src is not attributed to the crate".into());
    }
    if classify("/root/.rustup/toolchains/x/lib/rustlib/src/rust/library/core/src/slice/index.rs", "x") != PanicKind::Crate {
        return Err("a panic located in core is not attributed to the monitored call".into());
    }
    if classify("/repo/src/endian.rs", crate::monitor::panic::BUDGET_MSG) != PanicKind::Budget {
        return Err("budget panic not recognised".into());
    }
    Ok(format!("catches and classifies panics; overflow-checks={}", if overflow_checked { "on" } else { "off" }))
}

#[cfg(feature = "full")]
fn io_canary() -> Result<String, String> {
    use crate::monitor::io::*;
    use std::io::{Read, Seek, SeekFrom};
    use std::rc::Rc;
    let data = Rc::new((0u8..100).collect::<Vec<u8>>());
    let (mut r, h) = new_reader(data.clone(), Policy::default(), 1);
    let mut buf = [0u8; 3];
    r.seek(SeekFrom::Start(5)).map_err(|e| e.to_string())?;
    r.read_exact(&mut buf).map_err(|e| e.to_string())?;
    if buf != [5, 6, 7] {
        return Err(format!("read wrong bytes {:?}", buf));
    }
    let ev = h.events();
    if ev.len() != 2 || ev[0].kind != IoKind::Seek || ev[0].req != 5 || ev[1].kind != IoKind::Read || ev[1].pos != 5 || ev[1].req != 3 || ev[1].outcome != Outcome::Ok(3) {
        return Err(format!("log does not match the seek(5)+read(3) pattern: {:?}", ev));
    }
    // fault injector fires at the requested call
    let pol = Policy { faults: vec![Fault { at_call: 1, kind: FaultKind::Error, permanent: false }], ..Default::default() };
    let (mut r, h) = new_reader(data.clone(), pol, 1);
    r.seek(SeekFrom::Start(0)).map_err(|e| e.to_string())?;
    let e1 = r.read(&mut buf);
    let e2 = r.read(&mut buf);
    if e1.is_ok() || e2.is_err() || h.fired().len() != 1 || h.fired()[0].0 != 1 {
        return Err(format!("transient fault at call 1: first read {:?}, second {:?}, fired {:?}", e1.is_ok(), e2.is_ok(), h.fired()));
    }
    // short reads + interrupts still deliver the right bytes through read_exact
    let pol = Policy { max_chunk: 2, interrupt_per_256: 128, faults: vec![] };
    let (mut r, h) = new_reader(data, pol, 7);
    let mut big = [0u8; 40];
    r.seek(SeekFrom::Start(10)).map_err(|e| e.to_string())?;
    r.read_exact(&mut big).map_err(|e| e.to_string())?;
    let (ints, shorts, _) = h.stats();
    if big[0] != 10 || big[39] != 49 || ints == 0 || shorts == 0 {
        return Err(format!("awkward-but-legal reader: bytes ok={}, interrupts={}, short reads={}", big[0] == 10 && big[39] == 49, ints, shorts));
    }
    Ok(format!("logs seek/read pattern, transient fault fires once at call 1, {} interrupts and {} short reads delivered 40 bytes intact", ints, shorts))
}

#[cfg(not(feature = "full"))]
fn io_canary() -> Result<String, String> {
    Err("io monitor needs the `full` feature".into())
}

pub fn run(names: &[String]) -> i32 {
    let mut bad = 0;
    for n in names {
        let r = match n.as_str() {
            "alloc" => alloc_canary(),
            "steps" => steps_canary(),
            "panic" => panic_canary(),
            "io" => io_canary(),
            other => Err(format!("unknown canary {other}")),
        };
        match r {
            Ok(s) => println!("CANARY {n} ok: {s}"),
            Err(s) => {
                println!("CANARY {n} FAILED: {s}");
                bad += 1;
            }
        }
    }
    if bad > 0 { 3 } else { 0 }
}

//! Wall-clock watchdog for properties whose statement says "returns within seconds" (C16): a case that has been
//! running for `limit_s` seconds (cases take micro- to milliseconds; the limit is minutes) is reported through the
//! progress file and exit status 97; the driver turns that into a violation replayable by (stratum, case).
//! Loops that perform no integer read are invisible to the step counter; this is what sees them.
use std::sync::atomic::{AtomicU64, Ordering};
use std::sync::Mutex;

static SEQ: AtomicU64 = AtomicU64::new(0);
static INFO: Mutex<(String, u64)> = Mutex::new((String::new(), 0));

pub const EXIT_HANG: i32 = 97;

pub fn begin_case(stratum: &str, case: u64) {
    if let Ok(mut g) = INFO.lock() {
        if g.0 != stratum {
            g.0 = stratum.to_string();
        }
        g.1 = case;
    }
    SEQ.fetch_add(1, Ordering::SeqCst);
}

/// all cases are done (writing the report is not a case)
pub fn finish() {
    SEQ.store(u64::MAX, Ordering::SeqCst);
}

pub fn start(limit_s: u64, progress: Option<String>) {
    std::thread::spawn(move || {
        let mut last = SEQ.load(Ordering::SeqCst);
        let mut since = std::time::Instant::now();
        loop {
            std::thread::sleep(std::time::Duration::from_millis(500));
            let cur = SEQ.load(Ordering::SeqCst);
            if cur == u64::MAX {
                return;
            }
            if cur != last || cur == 0 {
                last = cur;
                since = std::time::Instant::now();
                continue;
            }
            if since.elapsed().as_secs() >= limit_s {
                let (s, c) = INFO.lock().map(|g| g.clone()).unwrap_or_default();
                if let Some(p) = &progress {
                    let _ = std::fs::write(p, format!("{s} {c} did-not-return-within-{limit_s}s\n\n"));
                }
                eprintln!("HANG stratum={s} case={c}: the case has been running for {limit_s} s");
                std::process::exit(EXIT_HANG);
            }
        }
    });
}

pub mod alloc;
pub mod canary;
#[cfg(not(miri))]
pub mod hang;
#[cfg(feature = "full")]
pub mod io;
pub mod panic;
pub mod steps;

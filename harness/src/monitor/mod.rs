pub mod alloc;
pub mod canary;
#[cfg(feature = "full")]
pub mod io;
pub mod panic;
pub mod steps;

//! Step monitor: thin API over the in-crate hook (`elf::verif_hooks`), a logical clock that
//! counts the crate's integer reads. Without `--cfg elf_verif_hooks` the API is inert and
//! `available()` is false (the canary then makes the check inconclusive).

#[cfg(elf_verif_hooks)]
pub fn reset(budget: u64) {
    elf::verif_hooks::reset(budget)
}
#[cfg(elf_verif_hooks)]
pub fn steps() -> u64 {
    elf::verif_hooks::steps()
}
#[cfg(elf_verif_hooks)]
pub fn available() -> bool {
    true
}

#[cfg(not(elf_verif_hooks))]
pub fn reset(_budget: u64) {}
#[cfg(not(elf_verif_hooks))]
pub fn steps() -> u64 {
    0
}
#[cfg(not(elf_verif_hooks))]
pub fn available() -> bool {
    false
}

//! I/O monitor: an instrumented `Read + Seek` object over in-memory bytes.
//!
//! It logs every call `(call#, api-call tag, kind, position, requested, returned)` into a
//! pre-reserved buffer (no allocation while the allocation monitor is armed), can behave in
//! every *legal* awkward way (short reads, `ErrorKind::Interrupted` before reads) and can
//! inject *faults* (error, premature EOF) at chosen I/O call indices, transient or permanent.
use crate::rng::Rng;
use std::cell::RefCell;
use std::io::{Error, ErrorKind, Read, Seek, SeekFrom};
use std::rc::Rc;

#[derive(Clone, Copy, Debug, PartialEq, Eq)]
pub enum IoKind {
    Seek,
    Read,
}

#[derive(Clone, Copy, Debug, PartialEq, Eq)]
pub enum Outcome {
    /// read: bytes delivered; seek: new position
    Ok(u64),
    Interrupted,
    FaultError,
    FaultEof,
    /// an error the contract itself requires (seek to a negative position)
    ContractError,
}

#[derive(Clone, Copy, Debug)]
pub struct IoEvent {
    pub call: u32,
    /// tag set by the harness before each API call (0 = open)
    pub api: u32,
    pub kind: IoKind,
    /// position before the call
    pub pos: u64,
    /// read: buffer length requested; seek: target position (resolved), u64::MAX if negative
    pub req: u64,
    pub outcome: Outcome,
}

#[derive(Clone, Copy, Debug, PartialEq, Eq)]
pub enum FaultKind {
    /// the call returns Err(ErrorKind::Other)
    Error,
    /// a read returns Ok(0) although bytes remain (premature EOF); a seek fails with an error
    Eof,
    /// the call returns Err(ErrorKind::Interrupted): std's convention is that the operation may be retried, so a
    /// caller (or `read_exact` on its behalf) may legitimately carry on and succeed — with the right bytes
    Interrupted,
}

/// the error kinds an `Error` fault cycles through (by I/O call index)
/// more reader calls than any terminating use can make (a one-byte-per-read policy over a 4 MiB table makes ~4e6):
/// beyond base + 64 per stream byte the parser is spinning
const CALL_BUDGET_BASE: u64 = 20_000_000;

const ERROR_KINDS: [ErrorKind; 17] = [
    ErrorKind::Other, ErrorKind::UnexpectedEof, ErrorKind::WouldBlock, ErrorKind::TimedOut, ErrorKind::InvalidData, ErrorKind::Unsupported, ErrorKind::NotFound,
    ErrorKind::PermissionDenied, ErrorKind::ConnectionReset, ErrorKind::ConnectionAborted, ErrorKind::BrokenPipe, ErrorKind::InvalidInput, ErrorKind::WriteZero,
    ErrorKind::OutOfMemory, ErrorKind::AlreadyExists, ErrorKind::NotConnected, ErrorKind::AddrInUse,
];

#[derive(Clone, Copy, Debug)]
pub struct Fault {
    pub at_call: u32,
    pub kind: FaultKind,
    /// permanent: every call with index >= at_call fails
    pub permanent: bool,
}

#[derive(Clone, Debug, Default)]
pub struct Policy {
    /// deliver at most this many bytes per read (0 = unlimited); the actual count is
    /// 1..=max_chunk, seeded
    pub max_chunk: usize,
    /// probability (per 256) that a read first returns ErrorKind::Interrupted
    pub interrupt_per_256: u32,
    pub faults: Vec<Fault>,
}

pub struct IoState {
    pub data: Rc<Vec<u8>>,
    /// a hole of zeros spliced into the stream at `at` with length `len`: the logical stream is
    /// data[..at] ++ zeros(len) ++ data[at..] (multi-GiB streams without the memory)
    pub hole: Option<(u64, u64)>,
    pub pos: u64,
    pub calls: u32,
    pub api: u32,
    pub log: Vec<IoEvent>,
    pub log_dropped: u64,
    pub policy: Policy,
    pub rng: Rng,
    /// indices of I/O calls at which a fault actually fired, with the api tag
    pub fired: Vec<(u32, u32)>,
    /// the same for `Interrupted` faults (which a caller may retry)
    pub fired_soft: Vec<(u32, u32)>,
    /// rotates the error kind of hard faults (derived from the reader's seed)
    pub kind_salt: usize,
    /// consecutive interrupts delivered (bounded so that a retry loop always makes progress)
    consecutive_interrupts: u32,
    pub interrupts: u64,
    pub short_reads: u64,
}

pub const LOG_CAP: usize = 1 << 16;

#[derive(Clone)]
pub struct Handle(pub Rc<RefCell<IoState>>);

pub struct MonReader {
    st: Rc<RefCell<IoState>>,
}

pub fn new_reader(data: Rc<Vec<u8>>, policy: Policy, seed: u64) -> (MonReader, Handle) {
    let st = Rc::new(RefCell::new(IoState {
        data,
        hole: None,
        pos: 0,
        calls: 0,
        api: 0,
        log: Vec::with_capacity(LOG_CAP),
        log_dropped: 0,
        policy,
        rng: Rng::new(seed),
        fired: Vec::with_capacity(64),
        fired_soft: Vec::new(),
        kind_salt: (seed % 17) as usize,
        consecutive_interrupts: 0,
        interrupts: 0,
        short_reads: 0,
    }));
    (MonReader { st: st.clone() }, Handle(st))
}

impl Handle {
    pub fn set_api(&self, api: u32) {
        self.0.borrow_mut().api = api;
    }
    /// where the stream stands when it is handed to the parser (not logged as an I/O call)
    pub fn set_pos(&self, pos: u64) {
        self.0.borrow_mut().pos = pos;
    }
    pub fn set_hole(&self, at: u64, len: u64) {
        self.0.borrow_mut().hole = Some((at, len));
    }
    pub fn calls(&self) -> u32 {
        self.0.borrow().calls
    }
    pub fn events(&self) -> Vec<IoEvent> {
        self.0.borrow().log.clone()
    }
    pub fn fired(&self) -> Vec<(u32, u32)> {
        self.0.borrow().fired.clone()
    }
    pub fn fired_soft(&self) -> Vec<(u32, u32)> {
        self.0.borrow().fired_soft.clone()
    }
    pub fn stats(&self) -> (u64, u64, u64) {
        let s = self.0.borrow();
        (s.interrupts, s.short_reads, s.log_dropped)
    }
}

impl IoState {
    /// logical length of the stream
    pub fn len(&self) -> u64 {
        self.data.len() as u64 + self.hole.map(|h| h.1).unwrap_or(0)
    }
    fn push(&mut self, ev: IoEvent) {
        if self.log.len() < LOG_CAP {
            self.log.push(ev);
        } else {
            self.log_dropped += 1;
        }
    }
    /// which fault (if any) applies to the I/O call with index `call`
    fn fault_for(&self, call: u32) -> Option<FaultKind> {
        for f in &self.policy.faults {
            if f.at_call == call || (f.permanent && f.kind != FaultKind::Interrupted && call >= f.at_call) {
                return Some(f.kind);
            }
        }
        None
    }
}

impl Read for MonReader {
    fn read_vectored(&mut self, bufs: &mut [std::io::IoSliceMut<'_>]) -> std::io::Result<usize> {
        self.vectored(bufs)
    }
    fn read(&mut self, buf: &mut [u8]) -> std::io::Result<usize> {
        let mut s = self.st.borrow_mut();
        let call = s.calls;
        s.calls += 1;
        if s.calls as u64 > CALL_BUDGET_BASE + 64 * s.data.len() as u64 {
            drop(s);
            panic!("{} ({} calls on a {}-byte stream)", crate::monitor::panic::IO_BUDGET_MSG, call, self.st.borrow().data.len());
        }
        let pos = s.pos;
        let api = s.api;
        let req = buf.len() as u64;
        if let Some(fk) = s.fault_for(call) {
            if fk == FaultKind::Interrupted {
                if s.fired_soft.len() < 64 {
                    s.fired_soft.push((call, api));
                }
            } else if s.fired.len() < 64 {
                s.fired.push((call, api));
            }
            let outcome = match fk {
                FaultKind::Error => Outcome::FaultError,
                FaultKind::Eof => Outcome::FaultEof,
                FaultKind::Interrupted => Outcome::Interrupted,
            };
            s.push(IoEvent { call, api, kind: IoKind::Read, pos, req, outcome });
            return match fk {
                FaultKind::Error => Err(Error::new(ERROR_KINDS[(call as usize + s.kind_salt) % ERROR_KINDS.len()], "injected read fault")),
                FaultKind::Eof => Ok(0),
                FaultKind::Interrupted => Err(Error::new(ErrorKind::Interrupted, "injected interrupt")),
            };
        }
        // legal awkwardness: Interrupted (at most 3 in a row, so retry loops terminate)
        if s.policy.interrupt_per_256 > 0 && s.consecutive_interrupts < 3 && !buf.is_empty() {
            let p = s.policy.interrupt_per_256 as u64;
            if s.rng.below(256) < p {
                s.consecutive_interrupts += 1;
                s.interrupts += 1;
                s.push(IoEvent { call, api, kind: IoKind::Read, pos, req, outcome: Outcome::Interrupted });
                return Err(Error::new(ErrorKind::Interrupted, "interrupted (legal, retry)"));
            }
        }
        s.consecutive_interrupts = 0;
        let len = s.len();
        let avail = if pos >= len { 0u64 } else { len - pos };
        let mut n = (buf.len() as u64).min(avail) as usize;
        // a read never crosses a border of the hole (a legal short read)
        if let Some((at, hl)) = s.hole {
            for border in [at, at + hl] {
                if pos < border && pos + n as u64 > border {
                    n = (border - pos) as usize;
                }
            }
        }
        if s.policy.max_chunk > 0 && n > 1 {
            let mc = s.policy.max_chunk;
            let k = 1 + s.rng.usize_below(mc);
            if k < n {
                n = k;
                s.short_reads += 1;
            }
        }
        if n > 0 {
            let data = s.data.clone();
            match s.hole {
                Some((at, hl)) if pos >= at && pos < at + hl => buf[..n].fill(0),
                Some((at, hl)) if pos >= at + hl => {
                    let p = (pos - hl) as usize;
                    buf[..n].copy_from_slice(&data[p..p + n]);
                }
                _ => {
                    let p = pos as usize;
                    buf[..n].copy_from_slice(&data[p..p + n]);
                }
            }
        }
        s.pos = pos + n as u64;
        s.push(IoEvent { call, api, kind: IoKind::Read, pos, req, outcome: Outcome::Ok(n as u64) });
        Ok(n)
    }
}

impl MonReader {
    /// `Read::read_vectored` done natively (as `File`, `Cursor` and `BufReader` do): one I/O call that may fill several
    /// buffers, under the same faults and short-read policy as `read`.
    fn vectored(&mut self, bufs: &mut [std::io::IoSliceMut<'_>]) -> std::io::Result<usize> {
        let total: usize = bufs.iter().map(|b| b.len()).sum();
        let mut tmp = vec![0u8; total.min(1 << 20)];
        let n = self.read(&mut tmp)?;
        let mut done = 0;
        for b in bufs.iter_mut() {
            if done == n {
                break;
            }
            let k = b.len().min(n - done);
            b[..k].copy_from_slice(&tmp[done..done + k]);
            done += k;
        }
        Ok(n)
    }
}

impl Seek for MonReader {
    fn seek(&mut self, from: SeekFrom) -> std::io::Result<u64> {
        let mut s = self.st.borrow_mut();
        let call = s.calls;
        s.calls += 1;
        if s.calls as u64 > CALL_BUDGET_BASE + 64 * s.data.len() as u64 {
            drop(s);
            panic!("{} ({} calls on a {}-byte stream)", crate::monitor::panic::IO_BUDGET_MSG, call, self.st.borrow().data.len());
        }
        let pos = s.pos;
        let api = s.api;
        let len = s.len();
        let target: Option<u64> = match from {
            SeekFrom::Start(n) => Some(n),
            SeekFrom::End(off) => (len as i128 + off as i128).try_into().ok(),
            SeekFrom::Current(off) => (pos as i128 + off as i128).try_into().ok(),
        };
        if let Some(fk) = s.fault_for(call) {
            if fk == FaultKind::Interrupted {
                if s.fired_soft.len() < 64 {
                    s.fired_soft.push((call, api));
                }
                s.push(IoEvent { call, api, kind: IoKind::Seek, pos, req: target.unwrap_or(u64::MAX), outcome: Outcome::Interrupted });
                return Err(Error::new(ErrorKind::Interrupted, "injected interrupt (seek)"));
            }
            if s.fired.len() < 64 {
                s.fired.push((call, api));
            }
            s.push(IoEvent { call, api, kind: IoKind::Seek, pos, req: target.unwrap_or(u64::MAX), outcome: Outcome::FaultError });
            return Err(Error::new(ERROR_KINDS[(call as usize + s.kind_salt) % ERROR_KINDS.len()], "injected seek fault"));
        }
        match target {
            Some(t) => {
                s.pos = t;
                s.push(IoEvent { call, api, kind: IoKind::Seek, pos, req: t, outcome: Outcome::Ok(t) });
                Ok(t)
            }
            None => {
                s.push(IoEvent { call, api, kind: IoKind::Seek, pos, req: u64::MAX, outcome: Outcome::ContractError });
                Err(Error::new(ErrorKind::InvalidInput, "seek to a negative position"))
            }
        }
    }
}

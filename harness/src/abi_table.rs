//! The integer constants of the crate under test (`elf::abi`), scanned from its current sources by build.rs, and the
//! subset of names its code refers to. Used by C19 (values vs the ABI reference) and by the generators (fields that
//! carry such constants are drawn from these pools).
include!(concat!(env!("OUT_DIR"), "/abi_table.rs"));

use crate::rng::Rng;

/// values of every exported constant whose name starts with `prefix`
pub fn family(prefix: &str) -> Vec<u64> {
    ABI_CONSTS.iter().filter(|(n, _, _)| n.starts_with(prefix)).map(|(_, _, v)| *v as u64).collect()
}

/// the same, restricted to the names the crate's code (not its tables) mentions
pub fn family_referenced(prefix: &str) -> Vec<u64> {
    ABI_CONSTS.iter().filter(|(n, _, _)| n.starts_with(prefix) && ABI_REFERENCED.contains(n)).map(|(_, _, v)| *v as u64).collect()
}

/// A value for a field that carries constants of one family: half of the time one of the `common` values, otherwise
/// any exported constant of the family, one the code refers to, or any value of the field's width.
pub fn pick(rng: &mut Rng, prefix: &str, common: &[u64], bits: u32) -> u64 {
    let mask = if bits >= 64 { u64::MAX } else { (1u64 << bits) - 1 };
    match rng.below(8) {
        0..=3 => common[rng.usize_below(common.len())],
        4 | 5 => {
            let f = family(prefix);
            if f.is_empty() { common[0] } else { f[rng.usize_below(f.len())] & mask }
        }
        6 => {
            let f = family_referenced(prefix);
            if f.is_empty() { common[rng.usize_below(common.len())] } else { f[rng.usize_below(f.len())] & mask }
        }
        _ => rng.next_u64() & mask,
    }
}

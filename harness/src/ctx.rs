//! Per-shard run context: counters, digests of non-trivial cases, samples, violations, and
//! the shard report (JSON) that the `check` driver merges.
use crate::rng::Rng;
use std::collections::{BTreeMap, BTreeSet};
use std::fmt::Write as _;

pub const MAX_DIGESTS: usize = 50_000;
pub const MAX_SAMPLES_PER_STRATUM: usize = 3;
pub const MAX_VIOLATIONS: usize = 40;

#[derive(Clone, Copy, Debug, PartialEq, Eq)]
pub enum Tier {
    Quick,
    Thorough,
    /// reduced sizes for runs under Miri
    Miri,
}

#[derive(Clone, Debug)]
pub struct Violation {
    pub property: String,
    /// stable signature: entry point + structural key (used to match known findings)
    pub sig: String,
    pub detail: String,
    pub stratum: String,
    pub case: u64,
    pub input_hex: String,
}

pub struct Ctx {
    pub property: &'static str,
    pub tier: Tier,
    pub seed: u64,
    pub shard: u64,
    pub nshards: u64,
    pub rng: Rng,
    pub verbose: bool,
    pub evaluations: u64,
    pub counters: BTreeMap<String, u64>,
    pub maxes: BTreeMap<String, u64>,
    pub digests: BTreeSet<u64>,
    pub digests_dropped: u64,
    pub samples: Vec<String>,
    pub violations: Vec<Violation>,
    pub violations_dropped: u64,
    pub inconclusive: Vec<String>,
    pub floors: Vec<(String, u64)>,
    pub exhaustive_strata: Vec<String>,
    // current case
    pub cur_stratum: String,
    pub cur_case: u64,
    cur_samples: usize,
    /// input bytes of the current case (for replay files)
    pub cur_input: Vec<u8>,
    /// file into which the worker writes 'stratum case sig' before risky calls (abort attribution)
    pub progress_path: Option<String>,
}

impl Ctx {
    pub fn new(property: &'static str, tier: Tier, seed: u64, shard: u64, nshards: u64) -> Self {
        Ctx {
            property,
            tier,
            seed,
            shard,
            nshards,
            rng: Rng::new(0),
            verbose: false,
            evaluations: 0,
            counters: BTreeMap::new(),
            maxes: BTreeMap::new(),
            digests: BTreeSet::new(),
            digests_dropped: 0,
            samples: Vec::new(),
            violations: Vec::new(),
            violations_dropped: 0,
            inconclusive: Vec::new(),
            floors: Vec::new(),
            exhaustive_strata: Vec::new(),
            cur_stratum: String::new(),
            cur_case: 0,
            cur_samples: 0,
            cur_input: Vec::new(),
            progress_path: None,
        }
    }

    pub fn begin_stratum(&mut self, name: &str) {
        self.cur_stratum = name.to_string();
        self.cur_samples = 0;
    }

    pub fn begin_case(&mut self, case: u64) {
        self.cur_case = case;
        self.cur_input.clear();
    }

    #[inline]
    pub fn eval(&mut self) {
        self.evaluations += 1;
    }
    #[inline]
    pub fn evals(&mut self, n: u64) {
        self.evaluations += n;
    }
    #[inline]
    pub fn count(&mut self, name: &str) {
        self.count_n(name, 1);
    }
    pub fn count_n(&mut self, name: &str, n: u64) {
        if let Some(c) = self.counters.get_mut(name) {
            *c += n;
        } else {
            self.counters.insert(name.to_string(), n);
        }
    }
    pub fn maxv(&mut self, name: &str, v: u64) {
        if let Some(c) = self.maxes.get_mut(name) {
            if v > *c {
                *c = v;
            }
        } else {
            self.maxes.insert(name.to_string(), v);
        }
    }
    /// Record the digest of a case that is non-trivial by the property's rule.
    pub fn nontrivial(&mut self, digest: u64) {
        if self.digests.len() < MAX_DIGESTS {
            self.digests.insert(digest);
        } else if !self.digests.contains(&digest) {
            self.digests_dropped += 1;
        }
    }
    pub fn nontrivial_bytes(&mut self, data: &[u8]) {
        self.nontrivial(crate::rng::fnv64(data));
    }
    pub fn sample<F: FnOnce() -> String>(&mut self, f: F) {
        if self.cur_samples < MAX_SAMPLES_PER_STRATUM && self.shard == 0 {
            self.cur_samples += 1;
            let s = f();
            let s = if s.len() > 600 { format!("{}…", &s[..s.char_indices().take_while(|(i, _)| *i < 600).last().map(|(i, _)| i).unwrap_or(0)]) } else { s };
            self.samples.push(format!("[{}#{}] {}", self.cur_stratum, self.cur_case, s));
        }
    }
    /// Record what is about to run, so that the driver can attribute a process abort.
    pub fn mark_progress(&self, what: &str) {
        if let Some(p) = &self.progress_path {
            let _ = std::fs::write(p, format!("{} {} {}\n{}\n", self.cur_stratum, self.cur_case, what, hex(&self.cur_input[..self.cur_input.len().min(65536)])));
        }
    }
    pub fn set_input(&mut self, data: &[u8]) {
        self.cur_input.clear();
        let n = data.len().min(1 << 20);
        self.cur_input.extend_from_slice(&data[..n]);
    }
    pub fn violation(&mut self, sig: &str, detail: String) {
        if self.verbose {
            eprintln!("VIOLATION-DETAIL property={} sig={} :: {}", self.property, sig, detail);
        }
        // one report per signature per shard is enough
        if self.violations.iter().any(|v| v.sig == sig) {
            self.violations_dropped += 1;
            return;
        }
        if self.violations.len() >= MAX_VIOLATIONS {
            self.violations_dropped += 1;
            return;
        }
        self.violations.push(Violation {
            property: self.property.to_string(),
            sig: sig.to_string(),
            detail,
            stratum: self.cur_stratum.clone(),
            case: self.cur_case,
            input_hex: hex(&self.cur_input[..self.cur_input.len().min(65536)]),
        });
    }
    /// `cond` must hold; otherwise records a violation. Returns cond.
    pub fn check<F: FnOnce() -> String>(&mut self, cond: bool, sig: &str, detail: F) -> bool {
        if !cond {
            let d = detail();
            self.violation(sig, d);
        }
        cond
    }
    pub fn inconclusive(&mut self, why: String) {
        if self.inconclusive.len() < 20 {
            self.inconclusive.push(format!("[{}#{}] {}", self.cur_stratum, self.cur_case, why));
        }
    }
    pub fn floor(&mut self, counter: &str, min: u64) {
        if !self.floors.iter().any(|(c, _)| c == counter) {
            self.floors.push((counter.to_string(), min));
        }
    }

    pub fn to_json(&self, wall_s: f64) -> String {
        let mut o = String::new();
        o.push('{');
        let _ = write!(o, "\"property\":{},", jstr(self.property));
        let _ = write!(o, "\"shard\":{},\"nshards\":{},\"seed\":{},", self.shard, self.nshards, self.seed);
        let _ = write!(o, "\"tier\":{},", jstr(match self.tier { Tier::Quick => "quick", Tier::Thorough => "thorough", Tier::Miri => "miri" }));
        let _ = write!(o, "\"wall_s\":{:.3},", wall_s);
        let _ = write!(o, "\"evaluations\":{},", self.evaluations);
        let _ = write!(o, "\"digests_dropped\":{},", self.digests_dropped);
        let _ = write!(o, "\"violations_dropped\":{},", self.violations_dropped);
        o.push_str("\"counters\":{");
        let mut first = true;
        for (k, v) in &self.counters {
            if !first { o.push(','); }
            first = false;
            let _ = write!(o, "{}:{}", jstr(k), v);
        }
        o.push_str("},\"maxes\":{");
        first = true;
        for (k, v) in &self.maxes {
            if !first { o.push(','); }
            first = false;
            let _ = write!(o, "{}:{}", jstr(k), v);
        }
        o.push_str("},\"floors\":{");
        first = true;
        for (k, v) in &self.floors {
            if !first { o.push(','); }
            first = false;
            let _ = write!(o, "{}:{}", jstr(k), v);
        }
        o.push_str("},\"exhaustive_strata\":[");
        first = true;
        for s in &self.exhaustive_strata {
            if !first { o.push(','); }
            first = false;
            o.push_str(&jstr(s));
        }
        o.push_str("],\"digests\":[");
        first = true;
        for d in &self.digests {
            if !first { o.push(','); }
            first = false;
            let _ = write!(o, "\"{:016x}\"", d);
        }
        o.push_str("],\"samples\":[");
        first = true;
        for s in &self.samples {
            if !first { o.push(','); }
            first = false;
            o.push_str(&jstr(s));
        }
        o.push_str("],\"inconclusive\":[");
        first = true;
        for s in &self.inconclusive {
            if !first { o.push(','); }
            first = false;
            o.push_str(&jstr(s));
        }
        o.push_str("],\"violations\":[");
        first = true;
        for v in &self.violations {
            if !first { o.push(','); }
            first = false;
            let _ = write!(
                o,
                "{{\"property\":{},\"sig\":{},\"detail\":{},\"stratum\":{},\"case\":{},\"input_hex\":{}}}",
                jstr(&v.property), jstr(&v.sig), jstr(&v.detail), jstr(&v.stratum), v.case, jstr(&v.input_hex)
            );
        }
        o.push_str("]}");
        o
    }
}

pub fn hex(data: &[u8]) -> String {
    let mut s = String::with_capacity(data.len() * 2);
    for b in data {
        let _ = write!(s, "{:02x}", b);
    }
    s
}

pub fn unhex(s: &str) -> Vec<u8> {
    let b = s.as_bytes();
    let mut out = Vec::with_capacity(b.len() / 2);
    let mut i = 0;
    while i + 1 < b.len() {
        let h = (b[i] as char).to_digit(16).unwrap_or(0) as u8;
        let l = (b[i + 1] as char).to_digit(16).unwrap_or(0) as u8;
        out.push(h << 4 | l);
        i += 2;
    }
    out
}

/// hex of at most `n` bytes with a length suffix
pub fn hex_trunc(data: &[u8], n: usize) -> String {
    if data.len() <= n {
        format!("{}({}B)", hex(data), data.len())
    } else {
        format!("{}…({}B)", hex(&data[..n]), data.len())
    }
}

pub fn jstr(s: &str) -> String {
    let mut o = String::with_capacity(s.len() + 2);
    o.push('"');
    for c in s.chars() {
        match c {
            '"' => o.push_str("\\\""),
            '\\' => o.push_str("\\\\"),
            '\n' => o.push_str("\\n"),
            '\r' => o.push_str("\\r"),
            '\t' => o.push_str("\\t"),
            c if (c as u32) < 0x20 => {
                let _ = write!(o, "\\u{:04x}", c as u32);
            }
            c => o.push(c),
        }
    }
    o.push('"');
    o
}

//! The walker: an **allocation-free** routine that, given bytes, opens them with a given
//! endian spec and calls every public entry point reachable from the result with benign and
//! hostile arguments, folding all results into a 64-bit digest.
//!
//! It is used under three monitors: the panic monitor (C01), the counting allocator (C06 —
//! which is why nothing here may allocate: no Vec, no format!, no String) and the step
//! monitor (C16: every query runs under a logical-step budget derived from the input size,
//! and every drained iterator is checked against its item bound).
use crate::monitor::steps;
use core::fmt::Write as _;
use elf::compression::CompressionHeader;
use elf::dynamic::Dyn;
use elf::endian::EndianParse;
use elf::file::{parse_ident, Class, FileHeader};
use elf::gnu_symver::{
    SymbolVersionTable, VerDef, VerDefAux, VerDefAuxIterator, VerDefIterator, VerNeed, VerNeedAux, VerNeedAuxIterator, VerNeedIterator,
    VersionIndex, VersionIndexTable,
};
use elf::hash::{gnu_hash, sysv_hash, GnuHashHeader, GnuHashTable, SysVHashHeader, SysVHashTable};
use elf::note::{Note, NoteGnuAbiTag, NoteIterator};
use elf::parse::{ParseAt, ParseError, ParsingIterator, ParsingTable};
use elf::relocation::{Rel, Rela};
use elf::section::SectionHeader;
use elf::segment::ProgramHeader;
use elf::string_table::StringTable;
use elf::symbol::{Symbol, SymbolTable};
use elf::ElfBytes;

#[derive(Clone, Copy, Debug, PartialEq, Eq)]
pub enum Kind {
    /// work must be linear in the input size
    Linear,
    /// a scan of a linked list of linked lists (symbol-version queries)
    Quadratic,
}

pub struct Sink {
    pub h: u64,
    pub calls: u64,
    pub oks: u64,
    pub errs: u64,
    pub nones: u64,
    pub items: u64,
    /// label of the query currently running (for attribution of a cut run)
    pub cur: &'static str,
    /// input size, for budgets and item bounds
    pub n: u64,
    /// arm step budgets (C16); otherwise only count
    pub budgets: bool,
    pub max_steps_linear: u64,
    pub max_steps_linear_label: &'static str,
    pub max_steps_quadratic: u64,
    /// largest fraction (x1000) of its budget that any query used
    pub max_budget_fraction_x1000: u64,
    pub max_iter_items: u64,
    /// an iterator yielded more items than its bound: (label, items, bound)
    pub iter_overrun: Option<(&'static str, u64, u64)>,
    /// an iterator yielded Some again after returning None (entry iterators only)
    pub resurrect: Option<&'static str>,
    pub salt: u64,
}

pub fn linear_budget(n: u64) -> u64 {
    n.saturating_mul(64).saturating_add(4096)
}
pub fn quadratic_budget(n: u64) -> u64 {
    (n.saturating_mul(n) / 8).saturating_add(linear_budget(n))
}

impl Sink {
    pub fn new(n: u64, budgets: bool, salt: u64) -> Sink {
        Sink {
            h: 0xcbf2_9ce4_8422_2325,
            calls: 0,
            oks: 0,
            errs: 0,
            nones: 0,
            items: 0,
            cur: "",
            n,
            budgets,
            max_steps_linear: 0,
            max_steps_linear_label: "",
            max_steps_quadratic: 0,
            max_budget_fraction_x1000: 0,
            max_iter_items: 0,
            iter_overrun: None,
            resurrect: None,
            salt,
        }
    }
    #[inline]
    pub fn fold(&mut self, v: u64) {
        self.h = (self.h ^ v).wrapping_mul(0x0000_0100_0000_01B3);
    }
    pub fn fold_bytes(&mut self, b: &[u8]) {
        self.fold(b.len() as u64);
        // fold at most the first and last 16 bytes: enough to notice a shifted slice, cheap
        for x in b.iter().take(16) {
            self.fold(*x as u64);
        }
        for x in b.iter().rev().take(16) {
            self.fold(*x as u64);
        }
    }
    pub fn begin(&mut self, label: &'static str, kind: Kind) {
        self.cur = label;
        self.calls += 1;
        let budget = if self.budgets {
            match kind {
                Kind::Linear => linear_budget(self.n),
                Kind::Quadratic => quadratic_budget(self.n),
            }
        } else {
            u64::MAX
        };
        steps::reset(budget);
    }
    pub fn end(&mut self, kind: Kind) {
        let s = steps::steps();
        let budget = match kind {
            Kind::Linear => linear_budget(self.n),
            Kind::Quadratic => quadratic_budget(self.n),
        };
        let frac = s.saturating_mul(1000) / budget.max(1);
        if frac > self.max_budget_fraction_x1000 {
            self.max_budget_fraction_x1000 = frac;
        }
        match kind {
            Kind::Linear => {
                if s > self.max_steps_linear {
                    self.max_steps_linear = s;
                    self.max_steps_linear_label = self.cur;
                }
            }
            Kind::Quadratic => {
                if s > self.max_steps_quadratic {
                    self.max_steps_quadratic = s;
                }
            }
        }
        steps::reset(u64::MAX);
    }
    pub fn res<T>(&mut self, r: &Result<T, ParseError>) {
        match r {
            Ok(_) => {
                self.oks += 1;
                self.fold(1);
            }
            Err(e) => {
                self.errs += 1;
                fold_err(self, e);
            }
        }
    }
    fn overrun(&mut self, label: &'static str, items: u64, bound: u64) {
        if self.iter_overrun.is_none() {
            self.iter_overrun = Some((label, items, bound));
        }
    }
}

struct StackBuf {
    buf: [u8; 200],
    len: usize,
}

impl core::fmt::Write for StackBuf {
    fn write_str(&mut self, s: &str) -> core::fmt::Result {
        for b in s.bytes() {
            if self.len < self.buf.len() {
                self.buf[self.len] = b;
                self.len += 1;
            }
        }
        Ok(())
    }
}

/// Display and source() of every ParseError produced, formatted into a stack buffer.
pub fn fold_err(sink: &mut Sink, e: &ParseError) {
    use core::error::Error;
    let mut sb = StackBuf { buf: [0; 200], len: 0 };
    let _ = write!(sb, "{}", e);
    let mut k = 0u64;
    for b in &sb.buf[..sb.len] {
        k = k.wrapping_mul(31).wrapping_add(*b as u64);
    }
    sink.fold(k);
    if let Some(src) = e.source() {
        let mut sb2 = StackBuf { buf: [0; 200], len: 0 };
        let _ = write!(sb2, "{}", src);
        sink.fold(sb2.len as u64);
    }
}

/// Drain an iterator to its first None (bounded), then poll it a few times more.
fn drain<I: Iterator, F: FnMut(&mut Sink, I::Item)>(sink: &mut Sink, label: &'static str, mut it: I, bound: u64, check_resurrect: bool, mut f: F) {
    let mut n: u64 = 0;
    loop {
        match it.next() {
            Some(x) => {
                n += 1;
                sink.items += 1;
                f(sink, x);
                if n > bound.saturating_add(2) {
                    sink.overrun(label, n, bound);
                    break;
                }
            }
            None => break,
        }
    }
    if n > sink.max_iter_items {
        sink.max_iter_items = n;
    }
    if n <= bound.saturating_add(2) {
        for _ in 0..3 {
            if it.next().is_some() && check_resurrect && sink.resurrect.is_none() {
                sink.resurrect = Some(label);
            }
        }
    }
    sink.fold(n);
}

fn fold_shdr(s: &mut Sink, h: &SectionHeader) {
    s.fold(h.sh_name as u64);
    s.fold(h.sh_type as u64);
    s.fold(h.sh_flags);
    s.fold(h.sh_addr);
    s.fold(h.sh_offset);
    s.fold(h.sh_size);
    s.fold(h.sh_link as u64);
    s.fold(h.sh_info as u64);
    s.fold(h.sh_addralign);
    s.fold(h.sh_entsize);
    #[cfg(feature = "elf_to_str")]
    {
        s.fold(elf::to_str::sh_type_to_str(h.sh_type).map(|x| x.len() as u64).unwrap_or(0));
    }
}

fn fold_phdr(s: &mut Sink, h: &ProgramHeader) {
    s.fold(h.p_type as u64);
    s.fold(h.p_offset);
    s.fold(h.p_vaddr);
    s.fold(h.p_paddr);
    s.fold(h.p_filesz);
    s.fold(h.p_memsz);
    s.fold(h.p_flags as u64);
    s.fold(h.p_align);
    #[cfg(feature = "elf_to_str")]
    {
        s.fold(elf::to_str::p_type_to_str(h.p_type).map(|x| x.len() as u64).unwrap_or(0));
    }
}

fn fold_sym(s: &mut Sink, y: &Symbol) {
    s.fold(y.st_name as u64);
    s.fold(y.st_value);
    s.fold(y.st_size);
    s.fold(y.st_shndx as u64);
    s.fold(((y.st_bind() as u64) << 16) | ((y.st_symtype() as u64) << 8) | y.st_vis() as u64);
    s.fold(y.is_undefined() as u64);
    #[cfg(feature = "elf_to_str")]
    {
        s.fold(elf::to_str::st_symtype_to_str(y.st_symtype()).map(|x| x.len() as u64).unwrap_or(0));
        s.fold(elf::to_str::st_bind_to_str(y.st_bind()).map(|x| x.len() as u64).unwrap_or(0));
        s.fold(elf::to_str::st_vis_to_str(y.st_vis()).map(|x| x.len() as u64).unwrap_or(0));
    }
}

fn fold_note(s: &mut Sink, n: &Note<'_>) {
    match n {
        Note::GnuAbiTag(t) => {
            s.fold(1);
            s.fold(t.os as u64 ^ ((t.major as u64) << 32));
            s.fold(t.minor as u64 ^ ((t.subminor as u64) << 32));
            #[cfg(feature = "elf_to_str")]
            {
                s.fold(elf::to_str::note_abi_tag_os_to_str(t.os).map(|x| x.len() as u64).unwrap_or(0));
            }
        }
        Note::GnuBuildId(b) => {
            s.fold(2);
            s.fold_bytes(b.0);
        }
        Note::Unknown(a) => {
            s.fold(3);
            s.fold(a.n_type);
            s.fold_bytes(a.name);
            s.fold_bytes(a.desc);
            match a.name_str() {
                Ok(x) => s.fold(x.len() as u64),
                Err(e) => fold_err(s, &e),
            }
        }
    }
}

pub fn hostile_indices(len: usize, entsize: usize) -> [usize; 12] {
    let es = entsize.max(1);
    // incl. indices whose product with the entry size wraps to a small offset
    let half = 1usize << (usize::BITS - 1);
    [0, 1, len.wrapping_sub(1), len, len.wrapping_add(1), usize::MAX / es, (usize::MAX / es).wrapping_add(1), usize::MAX, half, half / es.next_power_of_two().max(1), (usize::MAX / es).wrapping_add(2), 1usize << (usize::BITS / 2)]
}

fn walk_table<'d, E: EndianParse, P: ParseAt, F: FnMut(&mut Sink, &P)>(sink: &mut Sink, label: &'static str, t: &ParsingTable<'d, E, P>, class: Class, mut f: F) {
    sink.begin(label, Kind::Linear);
    let len = t.len();
    sink.fold(len as u64);
    sink.fold(t.is_empty() as u64);
    for i in hostile_indices(len, P::size_for(class)) {
        let r = t.get(i);
        sink.res(&r);
        if let Ok(v) = &r {
            f(sink, v);
        }
    }
    let bound = sink.n;
    drain(sink, label, t.iter(), bound, true, |s, v| f(s, &v));
    sink.end(Kind::Linear);
}

/// long NUL-free query text ("all argument values" includes names far longer than anything in the file)
static LONG: [u8; 4096] = {
    let mut a = [b'_'; 4096];
    a[0] = b'.';
    a[1] = b't';
    a[2] = b'e';
    a[3] = b'x';
    a[4] = b't';
    a[5] = b'.';
    a
};
const LONG_LENS: [usize; 8] = [31, 63, 64, 65, 127, 256, 1000, 4096];

fn long_name(n: usize) -> &'static [u8] {
    &LONG[..n.min(LONG.len())]
}

const NAMES: [&[u8]; 7] = [b"", b"memset", b"a", b"\xff\xfe", b"use_memset_v2", b"\x0f\x0f\x0f\x0f\x0f\x0f\x0f\xff", b"ab\x0f\x0f\x0f\x0f\x0f\x0f\x0f\xf0\xffz"];

fn walk_hashes<'d, E: EndianParse>(sink: &mut Sink, e: E, class: Class, hash_bytes: &'d [u8], symtab: &SymbolTable<'d, E>, strs: &StringTable<'d>) {
    sink.begin("SysVHashTable::new", Kind::Linear);
    let sysv = SysVHashTable::new(e, class, hash_bytes);
    sink.res(&sysv);
    sink.end(Kind::Linear);
    sink.begin("GnuHashTable::new", Kind::Linear);
    let gnu = GnuHashTable::new(e, class, hash_bytes);
    sink.res(&gnu);
    sink.end(Kind::Linear);
    // names drawn from the file (first symbols) and fixed ones
    let nsym = symtab.len().min(24);
    for k in 0..nsym + NAMES.len() + LONG_LENS.len() {
        let name: &[u8] = if k < nsym {
            match symtab.get(k).ok().and_then(|s| strs.get_raw(s.st_name as usize).ok()) {
                Some(n) => n,
                None => continue,
            }
        } else if k < nsym + NAMES.len() {
            NAMES[k - nsym]
        } else {
            long_name(LONG_LENS[k - nsym - NAMES.len()])
        };
        if let Ok(t) = &sysv {
            sink.begin("SysVHashTable::find", Kind::Linear);
            let r = t.find(name, symtab, strs);
            sink.res(&r);
            if let Ok(Some((i, s))) = &r {
                sink.fold(*i as u64);
                fold_sym(sink, s);
            }
            sink.end(Kind::Linear);
        }
        if let Ok(t) = &gnu {
            sink.begin("GnuHashTable::find", Kind::Linear);
            let r = t.find(name, symtab, strs);
            sink.res(&r);
            if let Ok(Some((i, s))) = &r {
                sink.fold(*i as u64);
                fold_sym(sink, s);
            }
            sink.end(Kind::Linear);
        }
    }
    // `GnuHashTable::hdr` is a public field too: lookups on a table whose header the caller rewrote
    if let Ok(mut t) = GnuHashTable::new(e, class, hash_bytes) {
        let vals = [0u32, 1, 2, 31, 32, 33, 64, 0x7fff_ffff, 0x8000_0000, u32::MAX];
        for k in 0..vals.len() {
            let v = vals[k];
            match (k + sink.salt as usize) % 4 {
                0 => t.hdr.nbucket = v,
                1 => t.hdr.nbloom = v,
                2 => t.hdr.nshift = v,
                _ => t.hdr.table_start_idx = v,
            }
            for name in [NAMES[1], NAMES[4], NAMES[0]] {
                sink.begin("GnuHashTable::find(hdr rewritten)", Kind::Linear);
                let r = t.find(name, symtab, strs);
                sink.res(&r);
                sink.end(Kind::Linear);
            }
        }
    }
    sink.fold(sysv_hash(NAMES[1]) as u64);
    sink.fold(gnu_hash(NAMES[4]) as u64);
}

fn walk_symver<E: EndianParse>(sink: &mut Sink, label_req: &'static str, label_def: &'static str, t: &SymbolVersionTable<'_, E>, nsyms: usize) {
    let idxs = [0usize, 1, 2, 3, nsyms.wrapping_sub(1), nsyms, nsyms.wrapping_add(1), usize::MAX / 2, usize::MAX];
    for i in idxs {
        sink.begin(label_req, Kind::Quadratic);
        let r = t.get_requirement(i);
        sink.res(&r);
        if let Ok(Some(q)) = &r {
            sink.fold_bytes(q.file.as_bytes());
            sink.fold_bytes(q.name.as_bytes());
            sink.fold(q.hash as u64 ^ ((q.flags as u64) << 32) ^ ((q.hidden as u64) << 48));
        } else if let Ok(None) = &r {
            sink.nones += 1;
        }
        sink.end(Kind::Quadratic);
        sink.begin(label_def, Kind::Quadratic);
        let r = t.get_definition(i);
        sink.res(&r);
        if let Ok(Some(d)) = r {
            sink.fold(d.hash as u64 ^ ((d.flags as u64) << 32) ^ ((d.hidden as u64) << 48));
            drain(sink, "SymbolNamesIterator", d.names, 0x1_0000.min(sink.n), false, |s, n| match n {
                Ok(x) => s.fold_bytes(x.as_bytes()),
                Err(e) => fold_err(s, &e),
            });
        }
        sink.end(Kind::Quadratic);
    }
}

/// The stand-alone parsers on arbitrary bytes (no file needed).
pub fn walk_standalone<E: EndianParse>(e: E, class: Class, data: &[u8], sink: &mut Sink) {
    let n = data.len();
    let salt = sink.salt as usize;
    // every ParseAt at hostile offsets
    let pow = 1usize << (salt % usize::BITS as usize);
    let offs = [0usize, 1, salt % (n + 1), n.wrapping_sub(1), n, n + 1, n + 9, usize::MAX - 8, usize::MAX - 1, usize::MAX, pow, pow.wrapping_add(salt % (n + 1)), pow.wrapping_sub(1 + salt % 9), (isize::MAX as usize).wrapping_add(salt % (n + 2))];
    macro_rules! pa {
        ($t:ty, $label:expr) => {{
            sink.begin($label, Kind::Linear);
            for o in offs {
                let mut off = o;
                let r = <$t>::parse_at(e, class, &mut off, data);
                sink.res(&r);
                sink.fold(off as u64);
            }
            sink.fold(<$t>::size_for(class) as u64);
            for es in [0usize, 1, <$t>::size_for(class), <$t>::size_for(class) + 1, usize::MAX] {
                let r = <$t>::validate_entsize(class, es);
                sink.res(&r);
            }
            sink.end(Kind::Linear);
        }};
    }
    pa!(SectionHeader, "SectionHeader::parse_at");
    pa!(ProgramHeader, "ProgramHeader::parse_at");
    pa!(Symbol, "Symbol::parse_at");
    pa!(Rel, "Rel::parse_at");
    pa!(Rela, "Rela::parse_at");
    pa!(Dyn, "Dyn::parse_at");
    pa!(CompressionHeader, "CompressionHeader::parse_at");
    pa!(SysVHashHeader, "SysVHashHeader::parse_at");
    pa!(GnuHashHeader, "GnuHashHeader::parse_at");
    pa!(VersionIndex, "VersionIndex::parse_at");
    pa!(VerDef, "VerDef::parse_at");
    pa!(VerDefAux, "VerDefAux::parse_at");
    pa!(VerNeed, "VerNeed::parse_at");
    pa!(VerNeedAux, "VerNeedAux::parse_at");
    pa!(NoteGnuAbiTag, "NoteGnuAbiTag::parse_at");
    pa!(u32, "u32::parse_at");
    pa!(u64, "u64::parse_at");

    // integer reads
    sink.begin("EndianParse::parse_*_at", Kind::Linear);
    for o in offs {
        let mut off = o;
        let r = e.parse_u8_at(&mut off, data);
        sink.res(&r);
        let r = e.parse_u16_at(&mut off, data);
        sink.res(&r);
        let r = e.parse_u32_at(&mut off, data);
        sink.res(&r);
        let r = e.parse_u64_at(&mut off, data);
        sink.res(&r);
        let r = e.parse_i32_at(&mut off, data);
        sink.res(&r);
        let r = e.parse_i64_at(&mut off, data);
        sink.res(&r);
        sink.fold(off as u64);
    }
    sink.end(Kind::Linear);

    // ident / header tail on every short length
    sink.begin("parse_ident", Kind::Linear);
    for l in 0..=20usize.min(n) {
        let r = parse_ident::<E>(&data[..l]);
        sink.res(&r);
    }
    let r = parse_ident::<E>(data);
    sink.res(&r);
    sink.end(Kind::Linear);
    sink.begin("FileHeader::parse_tail", Kind::Linear);
    for l in [0usize, 1, 35, 36, 47, 48, 49, n] {
        let l = l.min(n);
        let r = FileHeader::<E>::parse_tail((e, class, 0, 0), &data[..l]);
        sink.res(&r);
        if let Ok(h) = &r {
            sink.fold(h.e_shoff ^ h.e_phoff ^ h.e_entry);
            #[cfg(feature = "elf_to_str")]
            {
                sink.fold(elf::to_str::e_type_to_str(h.e_type).map(|x| x.len() as u64).unwrap_or(0));
                sink.fold(elf::to_str::e_machine_to_str(h.e_machine).map(|x| x.len() as u64).unwrap_or(0));
                sink.fold(elf::to_str::e_osabi_to_str(h.osabi).map(|x| x.len() as u64).unwrap_or(0));
            }
        }
    }
    sink.end(Kind::Linear);

    // string table
    sink.begin("StringTable::get", Kind::Linear);
    let st = StringTable::new(data);
    for o in offs {
        match st.get_raw(o) {
            Ok(b) => sink.fold_bytes(b),
            Err(err) => fold_err(sink, &err),
        }
        match st.get(o) {
            Ok(b) => sink.fold(b.len() as u64),
            Err(err) => fold_err(sink, &err),
        }
    }
    sink.end(Kind::Linear);

    // lazy tables / plain iterators over the raw bytes
    walk_table::<E, SectionHeader, _>(sink, "ParsingTable<SectionHeader>", &ParsingTable::new(e, class, data), class, |s, h| fold_shdr(s, h));
    walk_table::<E, ProgramHeader, _>(sink, "ParsingTable<ProgramHeader>", &ParsingTable::new(e, class, data), class, |s, h| fold_phdr(s, h));
    let symtab: SymbolTable<'_, E> = ParsingTable::new(e, class, data);
    walk_table::<E, Symbol, _>(sink, "ParsingTable<Symbol>", &symtab, class, |s, y| fold_sym(s, y));
    walk_table::<E, Dyn, _>(sink, "ParsingTable<Dyn>", &ParsingTable::new(e, class, data), class, |s, d| {
        s.fold(d.d_tag as u64 ^ d.d_val() ^ d.d_ptr());
        #[cfg(feature = "elf_to_str")]
        {
            s.fold(elf::to_str::d_tag_to_str(d.d_tag).map(|x| x.len() as u64).unwrap_or(0));
        }
    });
    walk_table::<E, VersionIndex, _>(sink, "ParsingTable<VersionIndex>", &ParsingTable::new(e, class, data), class, |s, v| {
        s.fold(v.index() as u64 | (v.is_hidden() as u64) << 16 | (v.is_local() as u64) << 17 | (v.is_global() as u64) << 18)
    });
    walk_table::<E, u32, _>(sink, "ParsingTable<u32>", &ParsingTable::new(e, class, data), class, |s, v| s.fold(*v as u64));
    walk_table::<E, u64, _>(sink, "ParsingTable<u64>", &ParsingTable::new(e, class, data), class, |s, v| s.fold(*v));
    sink.begin("ParsingIterator<Rel>", Kind::Linear);
    let bound = sink.n;
    drain(sink, "ParsingIterator<Rel>", ParsingIterator::<E, Rel>::new(e, class, data), bound, true, |s, r| s.fold(r.r_offset ^ r.r_sym as u64 ^ ((r.r_type as u64) << 32)));
    sink.end(Kind::Linear);
    sink.begin("ParsingIterator<Rela>", Kind::Linear);
    drain(sink, "ParsingIterator<Rela>", ParsingIterator::<E, Rela>::new(e, class, data), bound, true, |s, r| s.fold(r.r_offset ^ r.r_sym as u64 ^ r.r_addend as u64));
    sink.end(Kind::Linear);

    // notes with hostile alignments
    for align in [0usize, 1, 2, 3, 4, 8, 16, 1 << 31, u32::MAX as usize, 1usize << (usize::BITS - 1), usize::MAX] {
        sink.begin("NoteIterator", Kind::Linear);
        drain(sink, "NoteIterator", NoteIterator::new(e, class, align, data), bound, false, |s, nt| fold_note(s, &nt));
        sink.end(Kind::Linear);
    }

    // hash tables over the raw bytes, with the raw bytes also as symbol and string table
    let strs = StringTable::new(data);
    walk_hashes(sink, e, class, data, &symtab, &strs);

    // version record iterators with hostile counts / starting offsets
    let counts = [0u64, 1, 2, 0xffff, 0xffff_ffff, u64::MAX];
    let starts = [0usize, salt % (n + 1), n.wrapping_sub(1), n, usize::MAX - 19, usize::MAX];
    for c in counts {
        for s0 in starts {
            sink.begin("VerDefIterator", Kind::Quadratic);
            let declared = c.min(bound);
            drain(sink, "VerDefIterator", VerDefIterator::new(e, class, c, s0, data), declared, false, |s, (vd, aux)| {
                s.fold(vd.vd_hash as u64 ^ ((vd.vd_ndx as u64) << 32) ^ ((vd.vd_flags as u64) << 48));
                let b = (vd.vd_cnt as u64).min(s.n);
                drain(s, "VerDefAuxIterator", aux, b, false, |s, a| s.fold(a.vda_name as u64));
            });
            sink.end(Kind::Quadratic);
            sink.begin("VerNeedIterator", Kind::Quadratic);
            drain(sink, "VerNeedIterator", VerNeedIterator::new(e, class, c, s0, data), declared, false, |s, (vn, aux)| {
                s.fold(vn.vn_file as u64 ^ ((vn.vn_cnt as u64) << 32));
                let b = (vn.vn_cnt as u64).min(s.n);
                drain(s, "VerNeedAuxIterator", aux, b, false, |s, a| s.fold(a.vna_name as u64 ^ ((a.vna_other as u64) << 32) ^ ((a.vna_hash as u64) << 1)));
            });
            sink.end(Kind::Quadratic);
            let c16 = c as u16;
            sink.begin("VerDefAuxIterator", Kind::Linear);
            drain(sink, "VerDefAuxIterator", VerDefAuxIterator::new(e, class, c16, s0, data), (c16 as u64).min(bound), false, |s, a| s.fold(a.vda_name as u64));
            sink.end(Kind::Linear);
            sink.begin("VerNeedAuxIterator", Kind::Linear);
            drain(sink, "VerNeedAuxIterator", VerNeedAuxIterator::new(e, class, c16, s0, data), (c16 as u64).min(bound), false, |s, a| s.fold(a.vna_name as u64));
            sink.end(Kind::Linear);
        }
    }
    // a version table over arbitrary parts
    for c in [1u64, 0xffff_ffff, u64::MAX] {
        let t = SymbolVersionTable::new(
            VersionIndexTable::new(e, class, data),
            Some((VerNeedIterator::new(e, class, c, 0, data), StringTable::new(data))),
            Some((VerDefIterator::new(e, class, c, 0, data), StringTable::new(data))),
        );
        walk_symver(sink, "SymbolVersionTable::get_requirement", "SymbolVersionTable::get_definition", &t, n / 2);
    }
    let t: SymbolVersionTable<'_, E> = SymbolVersionTable::new(VersionIndexTable::new(e, class, data), None, None);
    walk_symver(sink, "SymbolVersionTable::get_requirement", "SymbolVersionTable::get_definition", &t, n / 2);
}

/// How many section/program headers get the full per-header treatment (first K and last 4).
const PER_HEADER_CAP: usize = 40;

fn fab_values(n: u64, salt: u64) -> [u64; 10] {
    [0, 1, n.wrapping_sub(1), n, n.wrapping_add(1), 0x7fff_ffff, 0xffff_ffff, 1 << 63, u64::MAX, salt % n.saturating_add(2)]
}

/// Open the bytes as a file and use every accessor reachable from the result.
pub fn walk_file<E: EndianParse>(data: &[u8], sink: &mut Sink) {
    sink.begin("ElfBytes::minimal_parse", Kind::Linear);
    let file = ElfBytes::<E>::minimal_parse(data);
    sink.res(&file);
    sink.end(Kind::Linear);
    let mut file = match file {
        Ok(f) => f,
        Err(_) => return,
    };
    // `ehdr` is a public field: a caller may have written anything into it before using the accessors (one input in
    // eight is walked that way)
    if (sink.salt >> 8) % 8 == 0 {
        let v = fab_values(data.len() as u64, sink.salt);
        let pick = |k: u64| v[((sink.salt >> 16).wrapping_add(k) % 10) as usize];
        match (sink.salt >> 12) % 6 {
            0 => file.ehdr.class = if file.ehdr.class == Class::ELF32 { Class::ELF64 } else { Class::ELF32 },
            1 => {
                file.ehdr.e_shnum = pick(0) as u16;
                file.ehdr.e_shstrndx = pick(1) as u16;
            }
            2 => {
                file.ehdr.e_shoff = pick(2);
                file.ehdr.e_phoff = pick(3);
            }
            3 => {
                file.ehdr.e_shentsize = pick(4) as u16;
                file.ehdr.e_phentsize = pick(5) as u16;
                file.ehdr.e_phnum = pick(6) as u16;
            }
            4 => file.ehdr.e_shstrndx = [0u16, 0xffff, 0xff00, 1][((sink.salt >> 20) % 4) as usize],
            _ => {
                file.ehdr.class = if file.ehdr.class == Class::ELF32 { Class::ELF64 } else { Class::ELF32 };
                file.ehdr.e_shstrndx = pick(7) as u16;
            }
        }
        sink.fold(0x7a3e);
    }
    let e = file.ehdr.endianness;
    let class = file.ehdr.class;
    let bound = sink.n;
    sink.fold(file.ehdr.e_shoff ^ file.ehdr.e_phoff ^ file.ehdr.e_entry ^ file.ehdr.e_flags as u64);

    if let Some(t) = file.segments() {
        walk_table::<E, ProgramHeader, _>(sink, "segments", &t, class, |s, h| fold_phdr(s, h));
        let len = t.len();
        for i in (0..len.min(PER_HEADER_CAP)).chain(len.saturating_sub(4).max(PER_HEADER_CAP.min(len))..len) {
            if let Ok(ph) = t.get(i) {
                sink.begin("segment_data", Kind::Linear);
                let r = file.segment_data(&ph);
                sink.res(&r);
                if let Ok(b) = r {
                    sink.fold_bytes(b);
                }
                sink.end(Kind::Linear);
                sink.begin("segment_data_as_notes", Kind::Linear);
                let r = file.segment_data_as_notes(&ph);
                sink.res(&r);
                if let Ok(it) = r {
                    drain(sink, "segment_data_as_notes", it, bound, false, |s, nt| fold_note(s, &nt));
                }
                sink.end(Kind::Linear);
            }
        }
    } else {
        sink.nones += 1;
    }

    if let Some(t) = file.section_headers() {
        walk_table::<E, SectionHeader, _>(sink, "section_headers", &t, class, |s, h| fold_shdr(s, h));
        let len = t.len();
        for i in (0..len.min(PER_HEADER_CAP)).chain(len.saturating_sub(4).max(PER_HEADER_CAP.min(len))..len) {
            if let Ok(sh) = t.get(i) {
                walk_section(sink, &file, &sh, bound);
            }
        }
    } else {
        sink.nones += 1;
    }

    sink.begin("section_headers_with_strtab", Kind::Linear);
    let r = file.section_headers_with_strtab();
    sink.res(&r);
    if let Ok((_, Some(strs))) = &r {
        // every offset of the first 160 bytes (names start anywhere a header field says, also inside a multi-byte
        // character) and a few far ones
        for o in (0usize..160).chain([usize::MAX, data.len(), data.len() / 2]) {
            match strs.get(o) {
                Ok(x) => sink.fold_bytes(x.as_bytes()),
                Err(err) => fold_err(sink, &err),
            }
            if let Ok(x) = strs.get_raw(o) {
                sink.fold_bytes(x);
            }
        }
    }
    sink.end(Kind::Linear);
    // queries built from the string literals of the crate's own code plus common tails
    for lit in crate::abi_table::SRC_STRINGS.iter().take(24) {
        for tail in ["", "info", "x"] {
            let mut q = StackBuf { buf: [0; 200], len: 0 };
            let _ = q.write_str(lit);
            let _ = q.write_str(tail);
            if let Ok(name) = core::str::from_utf8(&q.buf[..q.len]) {
                sink.begin("section_header_by_name", Kind::Linear);
                let r = file.section_header_by_name(name);
                sink.res(&r);
                sink.end(Kind::Linear);
            }
        }
    }
    let long_names = LONG_LENS.map(|n| core::str::from_utf8(long_name(n)).unwrap_or(""));
    for name in [".symtab", ".dynsym", ".note.gnu.build-id", "", ".shstrtab", "\u{e9}", ".text"].iter().chain(long_names.iter()) {
        sink.begin("section_header_by_name", Kind::Linear);
        let r = file.section_header_by_name(name);
        sink.res(&r);
        if let Ok(Some(h)) = &r {
            fold_shdr(sink, h);
        }
        sink.end(Kind::Linear);
    }

    sink.begin("find_common_data", Kind::Linear);
    let common = file.find_common_data();
    sink.res(&common);
    sink.end(Kind::Linear);
    if let Ok(c) = common {
        if let (Some(t), Some(s)) = (c.symtab, c.symtab_strs) {
            walk_table::<E, Symbol, _>(sink, "common.symtab", &t, class, |k, y| fold_sym(k, y));
            sink.fold(s.get_raw(0).map(|b| b.len() as u64).unwrap_or(99));
        }
        if let (Some(t), Some(s)) = (c.dynsyms, c.dynsyms_strs) {
            walk_table::<E, Symbol, _>(sink, "common.dynsyms", &t, class, |k, y| fold_sym(k, y));
            let nsym = t.len().min(24);
            for k in 0..nsym + NAMES.len() + 2 {
                let name: &[u8] = if k < nsym {
                    match t.get(k).ok().and_then(|y| s.get_raw(y.st_name as usize).ok()) {
                        Some(n) => n,
                        None => continue,
                    }
                } else if k < nsym + NAMES.len() {
                    NAMES[k - nsym]
                } else {
                    long_name([64, 300][k - nsym - NAMES.len()])
                };
                if let Some(h) = &c.sysv_hash {
                    sink.begin("common.sysv_hash.find", Kind::Linear);
                    let r = h.find(name, &t, &s);
                    sink.res(&r);
                    sink.end(Kind::Linear);
                }
                if let Some(h) = &c.gnu_hash {
                    sink.begin("common.gnu_hash.find", Kind::Linear);
                    let r = h.find(name, &t, &s);
                    sink.res(&r);
                    sink.end(Kind::Linear);
                }
            }
        }
        if let Some(t) = c.dynamic {
            walk_table::<E, Dyn, _>(sink, "common.dynamic", &t, class, |k, d| k.fold(d.d_tag as u64 ^ d.d_val()));
        }
    }

    sink.begin("symbol_table", Kind::Linear);
    let r = file.symbol_table();
    sink.res(&r);
    sink.end(Kind::Linear);
    if let Ok(Some((t, s))) = r {
        walk_table::<E, Symbol, _>(sink, "symbol_table", &t, class, |k, y| fold_sym(k, y));
        sink.fold(s.get(1).map(|b| b.len() as u64).unwrap_or(98));
    }
    sink.begin("dynamic_symbol_table", Kind::Linear);
    let r = file.dynamic_symbol_table();
    sink.res(&r);
    sink.end(Kind::Linear);
    let mut ndyn = 0usize;
    if let Ok(Some((t, _))) = r {
        ndyn = t.len();
        walk_table::<E, Symbol, _>(sink, "dynamic_symbol_table", &t, class, |k, y| fold_sym(k, y));
    }
    sink.begin("dynamic", Kind::Linear);
    let r = file.dynamic();
    sink.res(&r);
    sink.end(Kind::Linear);
    if let Ok(Some(t)) = r {
        walk_table::<E, Dyn, _>(sink, "dynamic", &t, class, |k, d| k.fold(d.d_tag as u64 ^ d.d_ptr()));
    }
    sink.begin("symbol_version_table", Kind::Linear);
    let r = file.symbol_version_table();
    sink.res(&r);
    sink.end(Kind::Linear);
    if let Ok(Some(t)) = r {
        walk_symver(sink, "get_requirement", "get_definition", &t, ndyn);
    }

    // caller-fabricated headers
    let vals = fab_values(data.len() as u64, sink.salt);
    let types = [0u32, 1, 2, 3, 4, 5, 6, 7, 8, 9, 11, 0x6fff_fff6, 0x6fff_fffd, 0x6fff_fffe, 0x6fff_ffff];
    for (k, off) in vals.iter().enumerate() {
        for (j, size) in vals.iter().enumerate() {
            let sh = SectionHeader {
                sh_name: 0,
                sh_type: types[(k * 7 + j * 3 + sink.salt as usize) % types.len()],
                sh_flags: if (k + j) % 3 == 0 { 0x800 } else { 0 },
                sh_addr: 0,
                sh_offset: *off,
                sh_size: *size,
                sh_link: vals[(k + j) % vals.len()] as u32,
                sh_info: vals[(k * j) % vals.len()] as u32,
                sh_addralign: vals[(k + 2 * j) % vals.len()],
                sh_entsize: vals[(2 * k + j) % vals.len()],
            };
            walk_section(sink, &file, &sh, bound);
            let ph = ProgramHeader { p_type: [1u32, 2, 4][(k + j) % 3], p_offset: *off, p_vaddr: 0, p_paddr: 0, p_filesz: *size, p_memsz: vals[(k + j) % vals.len()], p_flags: 0, p_align: vals[(k + 2 * j) % vals.len()] };
            sink.begin("segment_data(fabricated)", Kind::Linear);
            let r = file.segment_data(&ph);
            sink.res(&r);
            sink.end(Kind::Linear);
            sink.begin("segment_data_as_notes(fabricated)", Kind::Linear);
            let r = file.segment_data_as_notes(&ph);
            sink.res(&r);
            if let Ok(it) = r {
                drain(sink, "segment_data_as_notes(fabricated)", it, bound, false, |s, nt| fold_note(s, &nt));
            }
            sink.end(Kind::Linear);
        }
    }
}

fn walk_section<E: EndianParse>(sink: &mut Sink, file: &ElfBytes<'_, E>, sh: &SectionHeader, bound: u64) {
    let class = file.ehdr.class;
    let e = file.ehdr.endianness;
    sink.begin("section_data", Kind::Linear);
    let r = file.section_data(sh);
    sink.res(&r);
    let mut body: &[u8] = &[];
    if let Ok((b, c)) = &r {
        body = b;
        sink.fold_bytes(b);
        if let Some(c) = c {
            sink.fold(c.ch_type as u64 ^ c.ch_size ^ c.ch_addralign);
            #[cfg(feature = "elf_to_str")]
            {
                sink.fold(elf::to_str::ch_type_to_str(c.ch_type).map(|x| x.len() as u64).unwrap_or(0));
            }
        }
    }
    sink.end(Kind::Linear);
    sink.begin("section_data_as_strtab", Kind::Linear);
    let r = file.section_data_as_strtab(sh);
    sink.res(&r);
    if let Ok(t) = &r {
        for o in [0usize, 1, body.len().wrapping_sub(1), body.len(), usize::MAX] {
            match t.get_raw(o) {
                Ok(b) => sink.fold_bytes(b),
                Err(err) => fold_err(sink, &err),
            }
        }
    }
    sink.end(Kind::Linear);
    sink.begin("section_data_as_rels", Kind::Linear);
    let r = file.section_data_as_rels(sh);
    sink.res(&r);
    if let Ok(it) = r {
        drain(sink, "section_data_as_rels", it, bound, true, |s, x| s.fold(x.r_offset ^ x.r_sym as u64));
    }
    sink.end(Kind::Linear);
    sink.begin("section_data_as_relas", Kind::Linear);
    let r = file.section_data_as_relas(sh);
    sink.res(&r);
    if let Ok(it) = r {
        drain(sink, "section_data_as_relas", it, bound, true, |s, x| s.fold(x.r_offset ^ x.r_addend as u64));
    }
    sink.end(Kind::Linear);
    sink.begin("section_data_as_notes", Kind::Linear);
    let r = file.section_data_as_notes(sh);
    sink.res(&r);
    if let Ok(it) = r {
        drain(sink, "section_data_as_notes", it, bound, false, |s, nt| fold_note(s, &nt));
    }
    sink.end(Kind::Linear);
    // hash tables over this section's bytes, whatever its type
    if sh.sh_type == 5 || sh.sh_type == 0x6fff_fff6 {
        let symtab: SymbolTable<'_, E> = ParsingTable::new(e, class, body);
        let strs = StringTable::new(body);
        walk_hashes(sink, e, class, body, &symtab, &strs);
    }
}

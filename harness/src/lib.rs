//! elfmon — runtime monitors for cole14/rust-elf (see /verif/DESIGN.md). The library holds the
//! generators, reference models, monitors and property modules; `main.rs` is the CLI used by
//! `./check`, and the libFuzzer targets in /verif/fuzz call `fuzz::fuzz_one`.
#![allow(clippy::all)]

pub mod abi_table;
pub mod codec;
pub mod corpus;
pub mod ctx;
#[cfg(feature = "full")]
pub mod fuzz;
pub mod gen;
pub mod monitor;
pub mod observe;
pub mod props;
pub mod reference;
pub mod rng;
pub mod walk;

#!/usr/bin/env python3
"""Write seeded/<id>/meta.json for imported sub-agent seeds from the agent's own meta (meta.agent.json) and
the self-test results (selftest/results.json, results_thorough.json).

  selftest/make_meta.py R3-        every seed whose id starts with R3-
"""
import json, os, sys

VERIF = os.path.dirname(os.path.dirname(os.path.abspath(__file__)))
ORIGIN = {
    "R9": "round 9: as round 7 (prompt selftest/prompts/round7.tmpl plus a 12-minute limit), eight properties (C05, C08, C11, C13, C14, C17, C18, C20)",
    "R2": "round 2: an independent sub-agent that saw only the property text and its own scratch worktree, asked for ONE change that is as hard to detect as possible for a generate-and-compare checker",
    "R3": "round 3: an independent sub-agent that saw only the property text, its own scratch worktree and a list of the kinds of change earlier rounds had already tried, asked for ONE change of a different kind that is as hard to detect as possible",
    "R8": "round 8: an independent sub-agent that saw only the property text and its own scratch worktree, asked for THREE ordinary pull requests (performance, feature/robustness, refactor) with one honest mistake each (prompt selftest/prompts/round8.tmpl)",
    "R7": "round 7: as round 6 (prompt selftest/prompts/round7.tmpl: the list of already-tried kinds also names the round-6 kinds)",
    "R6": "round 6: as round 5 (prompt selftest/prompts/round6.tmpl: the list of already-tried kinds also names the round-5 kinds)",
    "R5": "round 5: as round 4 (prompt selftest/prompts/round5.tmpl: the list of already-tried kinds also names the round-4 kinds)",
    "R4": "round 4: as round 3 (prompt selftest/prompts/round4.tmpl: the list of already-tried kinds also names the round-3 kinds)",
}


def load(p):
    return json.load(open(p)) if os.path.exists(p) else {}


def main():
    prefix = sys.argv[1]
    quick = load(os.path.join(VERIF, "selftest", "results.json"))
    thorough = load(os.path.join(VERIF, "selftest", "results_thorough.json"))
    # round 8: detection established with the harness built against a scratch copy of the crate with the patch applied
    scratch = load(os.path.join(VERIF, "selftest", "results_scratch_r8.json"))
    for d in sorted(os.listdir(os.path.join(VERIF, "seeded"))):
        if not d.startswith(prefix):
            continue
        sd = os.path.join(VERIF, "seeded", d)
        a = load(os.path.join(sd, "meta.agent.json"))
        key = f"seeded/{d}/patch.diff"
        m = {
            "id": d,
            "round": int(d[1]) if d[0] == "R" else 1,
            "property_broken": a.get("property"),
            "summary": a.get("summary"),
            "needs_to_manifest": a.get("needs"),
            "why_existing_tests_pass": a.get("why_tests_pass"),
            "why_hard_for_generate_and_compare": a.get("why_hard"),
            "origin": ORIGIN.get(d[:2], ""),
            "verified_by_me": "selftest/verify_seed.sh in the scratch worktree (patch applies; builds with and without default features; suite 239 pass / 2 baseline failures; 6 doc tests pass; demo.rs fails with the patch and passes without); then applied to /repo (git apply), checks run, undone (git checkout -- .)",
            "how_run": f"python3 selftest/run.py seeded/{d}/patch.diff <Cxx> [quick|thorough]",
        }
        sc = scratch.get(d)
        if sc:
            m["checks_run_scratch"] = sc
        for name, res in (("checks_run_quick", quick), ("checks_run_thorough", thorough)):
            if res.get(key):
                m[name] = {p: {"exit": r["exit"], "signatures": r["sigs"], "wall_s": r["wall"]} for p, r in res[key].items() if isinstance(r, dict)}
        if sc and "checks_run_quick" not in m:
            m["verified_by_me"] = m["verified_by_me"].split("; then applied to /repo")[0] + "; then applied to a scratch copy of the crate (patch -p1), the harness rebuilt against that copy, and the listed shards of the quick tier of the main build run (checks_run_scratch)"
            m["how_run"] = f"python3 selftest/run.py seeded/{d}/patch.diff <Cxx> [quick|thorough]  (not run through the driver for this seed)"
        json.dump(m, open(os.path.join(sd, "meta.json"), "w"), indent=1)
        print(d, m.get("checks_run_quick"))


if __name__ == "__main__":
    main()

#!/usr/bin/env python3
"""Fill the 'caught by' column of DESIGN.md §6 from selftest/results.json."""
import json, re, os
V = os.path.dirname(os.path.dirname(os.path.abspath(__file__)))
res = json.load(open(os.path.join(V, "selftest", "results.json")))
p = os.path.join(V, "DESIGN.md")
s = open(p).read()
def sub(m):
    sid = m.group(1)
    r = res.get(f"seeded/{sid}/patch.diff") or {}
    parts = []
    for prop, v in sorted(r.items()):
        if isinstance(v, dict) and v.get("exit") == 1:
            sig = v["sigs"][0].replace("sig=", "") if v.get("sigs") else ""
            parts.append(f"`./check {prop} quick` ({sig})")
    return f"<!--{sid}-->{'; '.join(parts) or 'NOT CAUGHT'}<!--/-->"
s = re.sub(r"<!--(C\d\d-\d)-->.*?<!--/-->", sub, s)
open(p, "w").write(s)

#!/bin/bash
# verify a sub-agent's seeded change inside its scratch worktree:
#   verify_seed.sh <worktree> <n> <dest-id> [extra cargo-test flags for the demo, e.g. --no-default-features]
# checks: patch applies; crate builds; existing suite = 239 pass / 2 known failures; demo fails with
# the patch and passes without; then copies patch/demo/meta to /verif/seeded/<dest-id>/
set -u
WT=$1; N=$2; ID=$3; DEMOFLAGS=${4:-}
S=$WT/_seeded/$N
cd $WT || exit 2
git checkout -q -- . ; rm -rf tests
git apply --check $S/patch.diff || { echo "$ID: patch does not apply"; exit 1; }
export CARGO_NET_OFFLINE=true
mkdir -p tests; cp $S/demo.rs tests/seeded_demo.rs
clean=$(cargo test --offline $DEMOFLAGS --test seeded_demo 2>&1 | grep -E "^test result" | head -1)
git apply $S/patch.diff
build=$(cargo build --offline 2>&1 | tail -1)
nostd=$(cargo build --offline --no-default-features 2>&1 | tail -1)
suite=$(cargo test --offline --lib 2>&1 | grep -E "^test result" | head -1)
failed=$(cargo test --offline --lib 2>&1 | grep -E "^test .* FAILED" | sort | tr '\n' ' ')
doc=$(cargo test --offline --doc 2>&1 | grep -E "^test result" | head -1)
patched=$(cargo test --offline $DEMOFLAGS --test seeded_demo 2>&1 | grep -E "^test result" | head -1)
git checkout -q -- . ; rm -rf tests
echo "$ID build: $build | no-default: $nostd"
echo "$ID suite(with patch): $suite | failing: $failed"
echo "$ID doc: $doc"
echo "$ID demo flags: [$DEMOFLAGS]"
echo "$ID demo clean:   $clean"
echo "$ID demo patched: $patched"
mkdir -p /verif/seeded/$ID
cp $S/patch.diff $S/demo.rs /verif/seeded/$ID/
cp $S/meta.json /verif/seeded/$ID/meta.agent.json

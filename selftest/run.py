#!/usr/bin/env python3
"""Mutant self-test (my own validation; not in MANIFEST): apply a patch to /repo, run the
quick check(s) of the intended property, expect exit 1 with a VIOLATION line, undo.

  selftest/run.py <patch.diff> <Cxx>[,<Cyy>...] [quick|thorough]   one mutant
  selftest/run.py --all                                             everything in selftest/catalogue.txt
"""
import os, subprocess, sys, time, json

VERIF = os.path.dirname(os.path.dirname(os.path.abspath(__file__)))

def git(*a):
    return subprocess.run(["git", "-C", "/repo"] + list(a), capture_output=True, text=True)

def run_one(patch, props, tier="quick", baseline=False):
    patch = os.path.abspath(patch)
    st = git("status", "--porcelain", "--untracked-files=no")
    if st.stdout.strip():
        print("refusing: /repo has local modifications:", st.stdout)
        return None
    r = git("apply", "--check", patch)
    if r.returncode != 0:
        print(f"{patch}: does not apply: {r.stderr.strip()}")
        return None
    git("apply", patch)
    results = {}
    # the checks rewrite evidence/ and replay/ on every run: keep the unchanged tree's files
    import shutil, tempfile
    keep = tempfile.mkdtemp(prefix="selftest_keep_")
    for d in ("evidence", "replay"):
        if os.path.isdir(os.path.join(VERIF, d)):
            shutil.copytree(os.path.join(VERIF, d), os.path.join(keep, d))
    try:
        if baseline:
            b = subprocess.run("cd /repo && cargo nextest run --offline --no-fail-fast 2>&1 | grep -E 'Summary'", shell=True, capture_output=True, text=True)
            results["baseline"] = b.stdout.strip()
        for p in props:
            t0 = time.time()
            c = subprocess.run([os.path.join(VERIF, "check"), p, tier], cwd=VERIF, capture_output=True, text=True)
            viol = [l for l in c.stdout.splitlines() if l.startswith("VIOLATION")]
            sigs = [l.strip() for l in c.stdout.splitlines() if l.strip().startswith("sig=")]
            results[p] = {"exit": c.returncode, "violations": len(viol), "sigs": sigs[:4], "wall": round(time.time() - t0, 1),
                          "note": [l for l in c.stdout.splitlines() if l.startswith("INCONCLUSIVE")][:2]}
    finally:
        git("checkout", "--", ".")
        for d in ("evidence", "replay"):
            if os.path.isdir(os.path.join(keep, d)):
                shutil.rmtree(os.path.join(VERIF, d), ignore_errors=True)
                shutil.copytree(os.path.join(keep, d), os.path.join(VERIF, d))
        shutil.rmtree(keep, ignore_errors=True)
    return results

def main():
    if sys.argv[1] == "--all":
        tier = ([a.split('=',1)[1] for a in sys.argv if a.startswith('--tier=')] or ["quick"])[0]
        cat = os.path.join(VERIF, "selftest", "catalogue_thorough.txt" if tier == "thorough" else "catalogue.txt")
        out = {}
        for line in open(cat):
            line = line.split("#")[0].strip()
            if not line:
                continue
            patch, props = line.split()[:2]
            only = [a.split('=',1)[1] for a in sys.argv if a.startswith('--only=')]
            if only and not any(o in patch for o in only[0].split(',')):
                continue
            res = run_one(os.path.join(VERIF, patch), props.split(","), tier, baseline="--baseline" in sys.argv)
            out[patch] = res
            print(patch, json.dumps(res))
        rp = os.path.join(VERIF, "selftest", "results_thorough.json" if tier == "thorough" else "results.json")
        old = json.load(open(rp)) if os.path.exists(rp) else {}
        old.update(out)
        json.dump(old, open(rp, "w"), indent=1, sort_keys=True)
        caught = sum(1 for r in out.values() if r and any(isinstance(v, dict) and v["exit"] == 1 for v in r.values()))
        print(f"caught {caught} of {len(out)}")
    else:
        tier = sys.argv[3] if len(sys.argv) > 3 else "quick"
        print(json.dumps(run_one(sys.argv[1], sys.argv[2].split(","), tier, baseline=True), indent=1))

if __name__ == "__main__":
    main()

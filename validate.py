#!/usr/bin/env python3
"""Validate MANIFEST.json and evidence/*.json against the schemas (uses the tooling venv's jsonschema)."""
import glob, json, sys
import jsonschema
ok = True
m = json.load(open('/verif/MANIFEST.json'))
try:
    jsonschema.validate(m, json.load(open('/root/.vp/MANIFEST.schema.json')))
    print("MANIFEST.json valid;", len(m['checks']), "checks;", len(m.get('not_applicable', [])), "not_applicable")
except Exception as e:
    ok = False
    print("MANIFEST invalid:", e)
es = json.load(open('/root/.vp/EVIDENCE.schema.json'))
for p in sorted(glob.glob('/verif/evidence/*.json')):
    try:
        e = json.load(open(p))
        jsonschema.validate(e, es)
        print(p, "valid", e['tier'], e['coverage'].get('evaluations'), e['coverage'].get('distinct_nontrivial'), e['wall_s'])
    except Exception as ex:
        ok = False
        print(p, "INVALID", str(ex)[:300])
sys.exit(0 if ok else 1)

#!/bin/sh
# setup_cmd: build every harness variant offline from files on disk.
set -e
cd "$(dirname "$0")"
export CARGO_NET_OFFLINE=true
exec ./check build

//! Compile-time half of C03 ("every slice handed out borrows from the caller's buffer"): each function creates the
//! parser handle locally and returns what an accessor handed out, typed with the lifetime of the *input buffer*. It
//! only compiles if the accessor's return type is tied to the buffer and not to the handle. The runtime half (the
//! pointer-range oracle) cannot see a signature that ties the data to `&self` instead: this crate is type-checked by
//! the `lifetime_probe` phase of `./check C03`.
#![allow(dead_code)]
use elf::endian::AnyEndian;
use elf::note::NoteIterator;
use elf::relocation::{RelIterator, RelaIterator};
use elf::string_table::StringTable;
use elf::symbol::SymbolTable;
use elf::ElfBytes;

fn open<'a>(data: &'a [u8]) -> Option<ElfBytes<'a, AnyEndian>> {
    ElfBytes::minimal_parse(data).ok()
}

pub fn section_data<'a>(data: &'a [u8]) -> Option<&'a [u8]> {
    let f = open(data)?;
    let sh = f.section_headers()?.get(1).ok()?;
    f.section_data(&sh).ok().map(|(d, _)| d)
}

pub fn segment_data<'a>(data: &'a [u8]) -> Option<&'a [u8]> {
    let f = open(data)?;
    let ph = f.segments()?.get(0).ok()?;
    f.segment_data(&ph).ok()
}

pub fn section_strtab<'a>(data: &'a [u8]) -> Option<StringTable<'a>> {
    let f = open(data)?;
    let sh = f.section_headers()?.get(1).ok()?;
    f.section_data_as_strtab(&sh).ok()
}

pub fn strtab_entry<'a>(data: &'a [u8]) -> Option<&'a str> {
    let f = open(data)?;
    let (_, strs) = f.section_headers_with_strtab().ok()?;
    strs?.get(1).ok()
}

pub fn strtab_entry_raw<'a>(data: &'a [u8]) -> Option<&'a [u8]> {
    let f = open(data)?;
    let (_, strs) = f.section_headers_with_strtab().ok()?;
    strs?.get_raw(1).ok()
}

pub fn section_notes<'a>(data: &'a [u8]) -> Option<NoteIterator<'a, AnyEndian>> {
    let f = open(data)?;
    let sh = f.section_headers()?.get(1).ok()?;
    f.section_data_as_notes(&sh).ok()
}

pub fn segment_notes<'a>(data: &'a [u8]) -> Option<NoteIterator<'a, AnyEndian>> {
    let f = open(data)?;
    let ph = f.segments()?.get(0).ok()?;
    f.segment_data_as_notes(&ph).ok()
}

pub fn note_name_and_desc<'a>(data: &'a [u8]) -> Option<(&'a [u8], &'a [u8])> {
    let mut it = segment_notes(data)?;
    match it.next()? {
        elf::note::Note::Unknown(n) => Some((n.name, n.desc)),
        elf::note::Note::GnuBuildId(b) => Some((b.0, b.0)),
        _ => None,
    }
}

pub fn rels<'a>(data: &'a [u8]) -> Option<RelIterator<'a, AnyEndian>> {
    let f = open(data)?;
    let sh = f.section_headers()?.get(1).ok()?;
    f.section_data_as_rels(&sh).ok()
}

pub fn relas<'a>(data: &'a [u8]) -> Option<RelaIterator<'a, AnyEndian>> {
    let f = open(data)?;
    let sh = f.section_headers()?.get(1).ok()?;
    f.section_data_as_relas(&sh).ok()
}

pub fn symbols<'a>(data: &'a [u8]) -> Option<(SymbolTable<'a, AnyEndian>, StringTable<'a>)> {
    let f = open(data)?;
    f.symbol_table().ok()?
}

pub fn dynamic_symbols<'a>(data: &'a [u8]) -> Option<(SymbolTable<'a, AnyEndian>, StringTable<'a>)> {
    let f = open(data)?;
    f.dynamic_symbol_table().ok()?
}

pub fn dynamic<'a>(data: &'a [u8]) -> Option<elf::dynamic::DynamicTable<'a, AnyEndian>> {
    let f = open(data)?;
    f.dynamic().ok()?
}

pub fn versions<'a>(data: &'a [u8]) -> Option<elf::gnu_symver::SymbolVersionTable<'a, AnyEndian>> {
    let f = open(data)?;
    f.symbol_version_table().ok()?
}

pub fn common<'a>(data: &'a [u8]) -> Option<elf::CommonElfData<'a, AnyEndian>> {
    let f = open(data)?;
    f.find_common_data().ok()
}

pub fn tables<'a>(data: &'a [u8]) -> Option<(elf::section::SectionHeaderTable<'a, AnyEndian>, elf::segment::SegmentTable<'a, AnyEndian>)> {
    let f = open(data)?;
    Some((f.section_headers()?, f.segments()?))
}
